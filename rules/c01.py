"""C01 — Compiled programs compute what the card language defines.

The whole property is behavioural (observe(run(compile(P))) = reference(P)) and is NOT decided. Three necessary
structural clauses are:

  C01.T  operator table: every operator card is compiled to the like-named instruction, and that instruction's arm in
         Vm::_run applies the like operator of Value.
  C01.O  operand order: the method the arithmetic arms hand their operator to (binary_op) pops the right operand first and
         calls op(left, right) - decided on the pop numbering of an abstract run, through tuple-returning pop helpers; the
         compiler compiles children in index order before emitting the operator.
  C01.S  brackets are balanced on every non-error path of every Compiler method: scope_begin/scope_end,
         push_subindex/pop_subindex, compile_begin/compile_end (a missing scope_end shifts every later local slot).
         A private helper that closes a bracket its callers opened is accounted in its callers: it is walked in place of
         every call (compwalk), so the arm / function that calls it carries the balance.
  C01.B  conditionally executed children are scopes: every child card an arm of process_card compiles at or after its
         conditional jump (encode_if_then) is bracketed by scope_begin / scope_end, so a local first assigned in a body
         that may be skipped does not keep a compile-time slot that is never created at run time (which would shift every
         local declared later).
  C01.A  only statements declare locals in the enclosing scope: a local slot is the number of locals declared so far, which
         equals its run-time position only when no temporaries of an enclosing expression are on the stack. An arm of
         process_card may therefore declare a local outside a scope of its own only if it is the declaration statement
         (SetVar); value-producing cards (Array ...) keep their intermediate results on the stack.
  C01.K  truthiness table: conditions and boolean operators see an object through CaoLangObject::is_empty - tables and
         strings are false exactly when their length is 0, every other object kind (functions, native functions,
         closures, upvalues) is true. Decided per variant by evaluating is_empty (and len, when it delegates to it) arm by
         arm.
  C01.V  name resolution: resolve_var searches the locals of the current function so that the innermost (last declared)
         binding of a name wins, and returns the front-based slot index of that binding (the search may sit in a helper
         resolve_var calls; cao/scoping.py).
  C01.E  for-each variables: the binding code of the ForEach arm copies, for each user variable i / k / v of the card, the
         hidden local that the interpreter fills with that role (row index / key / value - which operand of the ForEach
         instruction receives what is read from the instruction's handler) into the variable declared under that name.
  C01.I  loop locals are stored (SetLocalVar, or operand of BeginForEach / ForEach) before the loop code reads them back.
         C01.E / C01.I / C01.L are decided on an abstract run of the Repeat / ForEach arms (ArmRun: helpers and closures
         entered, loops over array literals unrolled), so they see instructions and operand values, not source shapes.
  C01.L  loop control state is hidden from scripts: in the Repeat and ForEach arms every local that compiler-generated
         code READS (read_local_var, or an operand of the loop instructions) is declared with the unnameable name "" -
         a local carrying a script-visible name is only ever written by the loop code (per-iteration copy), so an
         assignment to the loop variable inside the body cannot change the iteration count.
  (+ C06.O local addressing and C10.W operand decoding, shared, see those properties)
"""
from cao.facts import AnchorMissing, hir_walk, hir_callee, hir_strip, hir_local_id, pat_variants, pat_bindings, short
from cao.rules import Rule, ok, bad, undecided, note, shared
from cao import hirutil as hu
from cao import compwalk as cw
from cao import cardshape as cs

EXPLANATION = (
    "Decides three necessary conditions of the behavioural property for all programs. C01.T is a two-hop sibling table "
    "read from the resolved HIR: the CardBody arm of process_card must end by emitting the like-named Instruction, and the "
    "closure handed to binary_op (or the expression) in that instruction's arm of _run must be the like operator, resolved "
    "by rustc to the Value impl (Add::add, PartialEq::eq, PartialOrd::lt, ...). C01.O reads the pop order and the argument "
    "order in Vm::binary_op and in the operator closures. C01.S walks every Compiler method symbolically (closures passed "
    "to encode_if_then inlined) and requires the scope depth, the nested-function depth and the sub-index stack depth to "
    "return to their entry values on every Ok exit and to agree at every join. The semantic equivalence itself needs an "
    "oracle and execution and is out of reach of this technique."
)
ASSUMPTIONS = ["Value's operator impls are the language's semantics (C19 for eq/ord coherence)"]

# card kind -> (instruction emitted last, operator the VM arm must apply)
OPS = {
    "Add": ("Add", ("bin", "Add", "std::ops::Add::add")),
    "Sub": ("Sub", ("bin", "Sub", "std::ops::Sub::sub")),
    "Mul": ("Mul", ("bin", "Mul", "std::ops::Mul::mul")),
    "Div": ("Div", ("bin", "Div", "std::ops::Div::div")),
    "Equals": ("Equals", ("bin", "Eq", "std::cmp::PartialEq::eq")),
    "NotEquals": ("NotEquals", ("bin", "Ne", "std::cmp::PartialEq::ne")),
    "Less": ("Less", ("bin", "Lt", "std::cmp::PartialOrd::lt")),
    "LessOrEq": ("LessOrEq", ("bin", "Le", "std::cmp::PartialOrd::le")),
    "And": ("And", ("logic", "And", None)),
    "Or": ("Or", ("logic", "Or", None)),
    "Xor": ("Xor", ("logic", "BitXor", None)),
    "Not": ("Not", ("un", "Not", None)),
}
SAME_NAMED = {"Len": "Len", "GetProperty": "GetProperty", "SetProperty": "SetProperty", "AppendTable": "AppendTable",
              "PopTable": "PopTable", "Get": "NthRow", "Return": "Return", "CreateTable": "InitTable", "ScalarNil": "ScalarNil",
              "Abort": "Exit", "ScalarInt": "ScalarInt", "ScalarFloat": "ScalarFloat", "StringLiteral": "StringLiteral",
              "NativeFunction": "NativeFunctionPointer", "Function": "FunctionPointer", "CallNative": "CallNative"}


def arm_emissions(F):
    """card kind -> ordered list of instructions its process_card arm emits - in the arm itself or in the Compiler helpers it
    calls (abstract run of the arm, ArmRun: helper parameters that carry the instruction are resolved); the compilation of
    child cards (process_card / compile_subexpr) is not entered"""
    f = F.fn("compiler::Compiler::process_card")
    arms, _p, _t = cs.arms_of(f)
    if arms is None:
        raise AnchorMissing("match on CardBody in process_card")
    out = {}
    for arm in arms:
        run = ArmRun(F, f)
        env = {}
        run.bind(arm.pat, None, env)
        run.ev(arm.body, env, 0)
        seq = [(ev[1] if isinstance(ev[1], str) else "?", ev[2]) for ev in run.events if ev[0] == "instr"]
        for v in arm.variants:
            out[v] = (seq, arm.body.get("ln"))
    return f, out


def vm_arm_bodies(F):
    # the function that holds the opcode switch, wherever the loop around it lives (driver + execute_instruction)
    from rules.c03 import opcode_switch as _opcode_switch
    f = _opcode_switch(F)[0]
    if f.hir is None:
        raise AnchorMissing("HIR of the function holding the opcode switch")
    out = {}
    for x in hir_walk(f.hir["body"]):
        if x.get("k") == "match" and len(x["arms"]) > 20:
            for a in x["arms"]:
                for n, _s, _p in pat_variants(a["pat"]):
                    if "::" in n:
                        out[n.rsplit("::", 1)[-1]] = a["body"]
    if len(out) < 30:
        raise AnchorMissing("instruction match in the interpreter (%s)" % f.short)
    return f, out


def _is_binop_call(x):
    """the arm hands a two-parameter closure (the operator) to a method of the Vm (today Vm::binary_op)"""
    if x.get("k") != "mcall" or not x["args"]:
        return False
    names = hir_callee(x)
    if "vm::Vm::binary_op" in names:
        return True
    clo = hir_strip(x["args"][0])
    return clo is not None and clo.get("k") == "closure" and len(clo.get("params", [])) == 2 and len(x["args"]) == 1 and \
        any(n.startswith("vm::Vm::") for n in names)


def binop_applicator(F):
    """the Vm method the arithmetic arms hand their operator closure to (found from the Add arm)"""
    _vf, arms = vm_arm_bodies(F)
    for x in hir_walk(arms.get("Add")) if arms.get("Add") is not None else []:
        if _is_binop_call(x):
            for n in hir_callee(x):
                g = F.fn(n, required=False)
                if g is not None and g.hir is not None:
                    return g
    raise AnchorMissing("the method that applies a binary operator to the two topmost stack values (called in the Add arm)")


def pop_order(F, f):
    """Abstract run of the operator applicator: values popped off the value stack are numbered in pop order, helpers of the
    Vm are entered (a tuple-returning `pop_operands`), patterns bound. -> list of (value of arg 0, value of arg 1, ln) for
    every call of a function-typed parameter with two arguments; a value is ('pop', n) | ('tuple', [..]) | None"""
    state = {"n": 0}
    calls_ = []
    fparams = set()

    def bind(pat, v, env):
        k = pat.get("k")
        if k == "bind":
            env[pat["id"]] = v
        elif k == "tuple":
            vs = v[1] if v is not None and v[0] == "tuple" and len(v[1]) == len(pat["pats"]) else [None] * len(pat["pats"])
            for q, w in zip(pat["pats"], vs):
                bind(q, w, env)
        elif k in ("ref", "deref", "box"):
            bind(pat["pat"], v, env)

    def block(bl, env, stack):
        for st in bl["stmts"]:
            if st["k"] == "let":
                v = ev(st["init"], env, stack) if st.get("init") is not None else None
                bind(st["pat"], v, env)
            elif st["k"] in ("semi", "expr"):
                ev(st["e"], env, stack)
        return ev(bl["expr"], env, stack) if bl.get("expr") is not None else None

    def ev(e, env, stack):
        if e is None:
            return None
        e = hu.strip_all(e)
        k = e.get("k")
        if k == "path":
            return env.get(e["path"]["res"].get("id")) if e["path"]["res"]["k"] == "local" else None
        if k == "tup":
            return ("tuple", [ev(x, env, stack) for x in e["elems"]])
        if k == "block":
            return block(e["block"], env, stack)
        if k == "match" and str(e.get("source", "")).startswith("TryDesugar"):
            sc = hir_strip(e["scrut"])
            return ev(sc["args"][0], env, stack) if sc.get("k") == "call" and sc["args"] else None
        if k in ("call", "mcall"):
            names = hir_callee(e)
            args = ([e["recv"]] if k == "mcall" else []) + list(e["args"])
            if k == "call" and hir_local_id(e["f"]) is not None and len(e["args"]) == 2:
                a, b = ev(e["args"][0], env, stack), ev(e["args"][1], env, stack)
                calls_.append((a, b, e.get("ln")))
                return None
            vals = [ev(a, env, stack) for a in args]
            if any(n.endswith("Vm::stack_pop") or n.endswith("ValueStack::pop") for n in names):
                state["n"] += 1
                return ("pop", state["n"])
            for n in names:
                g = F.fn(n, required=False)
                if g is not None and g.hir is not None and not g.is_closure and n.startswith("vm::") and n not in stack and len(stack) < 4 \
                        and not n.endswith("Vm::stack_push"):
                    env2 = {}
                    for p_, v in zip(g.hir.get("params", []), vals):
                        bind(p_, v, env2)
                    return ev(g.hir["body"], env2, stack + (n,))
            return None
        from cao.facts import hir_children
        for c in hir_children(e):
            ev(c, env, stack)
        return None

    ev(f.hir["body"], {}, (f.short,))
    return calls_


def op_of_arm(body):
    """('bin', op, callee, order_ok) for `binary_op(|a, b| a OP b)` ; ('logic', op, order_ok) for as_bool combos; ('un', op)"""
    for x in hir_walk(body):
        if _is_binop_call(x):
            clo = hir_strip(x["args"][0])
            if clo.get("k") != "closure":
                return ("?",)
            params = [p.get("id") for p in clo["params"]]
            # find the operator expression
            for y in hir_walk(clo["body"]):
                if y.get("k") == "bin":
                    l, r = hu.strip_casts(y["l"]), hu.strip_casts(y["r"])

                    def root(e):
                        e = hu.strip_casts(e)
                        while e is not None and e.get("k") == "mcall":
                            e = hu.strip_casts(e["recv"])
                        return hir_local_id(e)
                    order_ok = root(l) == params[0] and root(r) == params[1]
                    asbool = l.get("k") == "mcall" and l["name"] == "as_bool" and r.get("k") == "mcall" and r["name"] == "as_bool"
                    callee = (hir_callee(y) or [None])[0]
                    if asbool:
                        return ("logic", y["op"], None, order_ok)
                    cj = y.get("callee", {})
                    self_tys = " ".join((cj.get("resolved_args") or []) + (cj.get("args") or []) + [cj.get("resolved", "")])
                    return ("bin", y["op"], callee, order_ok, self_tys)
            return ("?",)
    # unary not:  !value.as_bool()
    for x in hir_walk(body):
        if x.get("k") == "un" and x["op"] == "Not":
            inner = hu.strip_casts(x["e"])
            if inner.get("k") == "mcall" and inner["name"] == "as_bool":
                return ("un", "Not", None, True)
    return ("none",)


def rule_t(F):
    res = []
    pf, emits = arm_emissions(F)
    vf, arms = vm_arm_bodies(F)
    for kind, (instr, want) in OPS.items():
        seq, ln = emits.get(kind, ([], None))
        key = "C01/T/%s/compiles-to-%s" % (kind, instr)
        if not seq:
            res.append(bad("C01.T", key, pf.loc(ln), "the %s card emits no instruction" % kind))
        elif seq[-1][0] == instr and [v for v, _l in seq] == [instr]:
            res.append(ok("C01.T", key, pf.loc(seq[-1][1]), "%s card -> Instruction::%s" % (kind, instr)))
        else:
            res.append(bad("C01.T", key, pf.loc(seq[-1][1]), "the %s card is compiled to %s instead of Instruction::%s" % (kind, [v for v, _l in seq], instr)))
        body = arms.get(instr)
        key2 = "C01/T/%s/applies-%s" % (instr, want[1])
        if body is None:
            res.append(bad("C01.T", key2, vf.loc(), "no interpreter arm for %s" % instr))
            continue
        got = op_of_arm(body)
        if got[0] in ("?", "none"):
            res.append(undecided("C01.T", key2, vf.loc(body.get("ln")), "operator expression of the arm not recognised"))
            continue
        good = got[0] == want[0] and got[1] == want[1]
        if good and want[0] == "bin":
            resolved = got[4] or ""
            good = (want[2] in (got[2] or "")) and ("value::Value" in resolved or "Value" in resolved)
        if good:
            res.append(ok("C01.T", key2, vf.loc(body.get("ln")), "Instruction::%s applies %s%s" % (instr, want[1], " (%s)" % got[4] if want[0] == "bin" else "")))
        else:
            res.append(bad("C01.T", key2, vf.loc(body.get("ln")), "Instruction::%s applies %s where the %s card means %s" % (instr, got[:3], kind, want[1])))
    for kind, instr in SAME_NAMED.items():
        seq, ln = emits.get(kind, ([], None))
        key = "C01/T/%s/compiles-to-%s" % (kind, instr)
        names = [v for v, _l in seq]
        if names and names[-1] == instr or (kind in ("ScalarInt", "ScalarFloat", "StringLiteral", "NativeFunction", "Function", "CallNative") and instr in names):
            res.append(ok("C01.T", key, pf.loc(ln), "%s card -> Instruction::%s" % (kind, instr)))
        else:
            res.append(bad("C01.T", key, pf.loc(ln), "the %s card is compiled to %s, expected it to end with Instruction::%s" % (kind, names, instr)))
    return res


def rule_o(F):
    res = []
    f = binop_applicator(F)
    applied = pop_order(F, f)
    key = "C01/O/binary_op/pop-order"
    if len(applied) != 1 or any(v is None or v[0] != "pop" for v in applied[0][:2]):
        res.append(undecided("C01.O", key, f.loc(), "binary_op shape not recognised"))
    else:
        a0, a1, ln = applied[0]
        if (a0[1], a1[1]) == (2, 1):
            res.append(ok("C01.O", key, f.loc(ln), "the value popped first is the right operand: op(second popped, first popped)"))
        else:
            res.append(bad("C01.O", key, f.loc(ln),
                           "binary_op passes the operands in the wrong order: the compiler pushes the left child first, so the value popped "
                           "first is the right operand"))
    # operator closures use (a, b) in order
    vf, arms = vm_arm_bodies(F)
    for kind, (instr, want) in OPS.items():
        if want[0] == "un":
            continue
        got = op_of_arm(arms[instr]) if instr in arms else ("?",)
        key = "C01/O/%s/closure-operand-order" % instr
        if got[0] in ("?", "none"):
            res.append(undecided("C01.O", key, vf.loc(), "closure not recognised"))
        elif got[3]:
            res.append(ok("C01.O", key, vf.loc(arms[instr].get("ln")), "|a, b| a %s b" % got[1]))
        else:
            res.append(bad("C01.O", key, vf.loc(arms[instr].get("ln")), "the operator closure of %s swaps its operands" % instr))
    return res


BRACKETS = ("scope_begin", "scope_end", "compile_begin", "compile_end")


class _SWalk(cw.Walk):
    """compwalk.Walk that also records which Compiler helpers were walked in place of a call (`inlined`) and which helpers
    that move the bookkeeping could NOT be walked at some call (`refused`: recursion / nesting bound)"""

    def __init__(self, F, fn, env, inlined, refused):
        cw.Walk.__init__(self, F, fn, env)
        self._inlined, self._refused = inlined, refused
        self._inlined_calls = set()

    def inline(self, g, e):
        self._inlined.add(g.short)
        self._inlined_calls.add(id(e))
        cw.Walk.inline(self, g, e)

    def call(self, e):
        names = hir_callee(e)
        movers = [n for n in names if n.startswith("compiler::Compiler::") and n not in self.KNOWN and self.moves_bookkeeping(n)]
        cw.Walk.call(self, e)
        if movers and id(e) not in self._inlined_calls:
            self._refused.update(movers)


def rule_s(F):
    res = []
    fns = [f for f in F.fns if f.hir and not f.is_closure and f.short.startswith("compiler::Compiler::")]
    totals = {"push": 0, "pop": 0, "scope_begin": 0, "scope_end": 0, "compile_begin": 0, "compile_end": 0}
    inlined, refused = set(), set()
    pending = []
    for f in fns:
        if f.name in BRACKETS:
            continue
        # process_card: per arm (the arms are independent paths)
        units = []
        if f.name == "process_card":
            arms, _pre, _tail = cs.arms_of(f)
            for arm in arms or []:
                for v in arm.variants:
                    units.append(("process_card[%s]" % v, arm.body, arm.env))
        else:
            units.append((f.name, f.hir["body"], {}))
        for label, body, env in units:
            w = _SWalk(F, f, env, inlined, refused)
            # one entry pushed by the caller is in scope (process_function replaces it with `pop; push(i)`)
            w.stack = ["<caller>"]
            w.walk(body)
            if w.stack[:1] == ["<caller>"] or len(w.stack) == 1:
                w.stack = w.stack[1:]
            for k in totals:
                totals[k] += w.counts[k]
            if not any(w.counts.values()):
                continue
            probs = [p[0] for p in w.problems]
            end = (w.scope, w.nest, len(w.stack))
            end_probs = []
            if w.scope != 0:
                end_probs.append("scope depth changes by %+d" % w.scope)
            if w.nest != 0:
                end_probs.append("nested-function depth changes by %+d" % w.nest)
            if len(w.stack) != 0:
                end_probs.append("sub-index stack depth changes by %+d" % len(w.stack))
            ret_probs = []
            rets_like_end = True
            for ev in w.events:
                if ev[0] != "ok_return":
                    continue
                open_idx = len([x for x in ev[2] if x != "<caller>"])     # the caller's own entry is not ours to pop
                if (ev[4], ev[5], open_idx) != end:
                    rets_like_end = False
                if ev[4] != 0 or ev[5] != 0 or open_idx != 0:
                    ret_probs.append("early `return Ok` at line %s with scope %+d / nesting %+d / %d sub-indices still open" % (ev[3], ev[4], ev[5], open_idx))
            pending.append((f, label, body, w, probs, end_probs, ret_probs, rets_like_end, label == f.name))
    callers_of = {}
    for caller, sites in F.callgraph.sites.items():
        for _bi, names, _t in sites:
            for n in names:
                callers_of.setdefault(n, set()).add(caller)
    for f, label, body, w, probs, end_probs, ret_probs, rets_like_end, whole_fn in pending:
        key = "C01/S/%s/balanced" % label
        if not probs and (end_probs or ret_probs) and whole_fn and rets_like_end and f.short in inlined and f.short not in refused \
                and f.raw.get("vis") != "Public" and callers_of.get(f.short) \
                and all(c.startswith("compiler::Compiler::") for c in callers_of[f.short]):
            # a private helper that ends (or begins) a bracket on behalf of its callers: it is walked in place of every call, so
            # its effect is part of each caller's balance, which is decided there
            res.append(ok("C01.S", key, f.loc(body.get("ln")),
                          "not balanced by itself (%s): a private helper walked in place at every call, its callers' balance (%s) includes it"
                          % ("; ".join(end_probs or ret_probs), ", ".join(sorted(c.rsplit("::", 1)[-1] if "{closure" not in c else c.split("::")[2] for c in callers_of[f.short])))))
            continue
        allp = probs + end_probs + ret_probs
        if allp:
            res.append(bad("C01.S", key, f.loc(body.get("ln")), "; ".join(allp) + " — every local declared afterwards is addressed at the wrong stack slot / every later error location is wrong"))
        else:
            res.append(ok("C01.S", key, f.loc(body.get("ln")), "balanced (%s)" % ", ".join("%s=%d" % kv for kv in w.counts.items() if kv[1])))
    if totals["scope_begin"] < 5 or totals["push"] < 8:
        raise AnchorMissing("bracket calls in Compiler (found %s)" % totals)
    res.append(ok("C01.S", "C01/S/totals", "", "bracket call sites: %s" % totals, **totals))
    return res


def local_declarers(F):
    """the Compiler methods that may declare a local: the declaration primitive (builds `Local { name, .. }`) and every
    Compiler method that reaches it through Compiler methods which do not themselves compile cards (those are walked in
    place by compwalk, so their declarations show up as events of their own)"""
    prim, _pos = _decl_primitive(F)
    out = {prim.short}
    movers = cw.Walk(F, prim, {})
    changed = True
    while changed:
        changed = False
        for g in F.fns:
            if g.hir is None or g.is_closure or not g.short.startswith("compiler::Compiler::") or g.short in out:
                continue
            if movers.moves_bookkeeping(g.short) or g.short in cw.Walk.KNOWN:
                continue
            if any(n in out for x in hir_walk(g.hir["body"]) if x.get("k") in ("call", "mcall") for n in hir_callee(x)):
                out.add(g.short)
                changed = True
    return out


def rule_a(F):
    res = []
    fn = F.fn("compiler::Compiler::process_card")
    arms, _pre, _tail = cs.arms_of(fn)
    if arms is None:
        raise AnchorMissing("match on CardBody in process_card")
    n = 0
    declarers = local_declarers(F)
    for arm in arms:
        names = [v for v in arm.variants if v != "_"]
        w = cw.Walk(F, fn, arm.env)
        w.walk(arm.body)
        decls = [ev for ev in w.events if ev[0] == "emit" and ev[1] in declarers]
        if not decls:
            continue
        n += 1
        key = "C01/A/%s/locals-declared-by-statements-only" % "+".join(names)
        loose = [ev for ev in decls if (ev[4] if len(ev) > 4 else 0) <= 0]
        if loose and not set(names) <= {"SetVar"}:
            res.append(bad("C01.A", key, fn.loc(loose[0][3]),
                           "the %s arm declares a local in the enclosing scope although the card can be an operand: the slot is computed from "
                           "the number of declared locals, at run time the temporaries of the enclosing expression sit there (`1 + len([7, 8])` "
                           "evaluates to 2)" % "/".join(names)))
        else:
            res.append(ok("C01.A", key, fn.loc(decls[0][3]), "%d local(s), %s" % (len(decls), "the declaration statement" if loose else "inside the card's own scope")))
    if n < 3:
        raise AnchorMissing("arms of process_card that declare locals (found %d)" % n)
    return res


def rule_k(F):
    """per-variant symbolic value of CaoLangObject::is_empty: 'false', 'true', 'len==0' (payload length), or unknown"""
    res = []
    OBJ = "vm::runtime::cao_lang_object::CaoLangObject"
    f = F.fn(OBJ + "::is_empty")
    lenf = F.fn(OBJ + "::len")
    variants = [v["name"] for v in F.adt("vm::runtime::cao_lang_object::CaoLangObjectBody")["variants"]]

    def arms_by_variant(g):
        m = None
        for x in hir_walk(g.hir["body"]):
            if x.get("k") == "match" and not str(x.get("source", "")).startswith(("TryDesugar", "ForLoop")):
                m = x
                break
        if m is None:
            return None
        out = {}
        seen = set()
        for a in m["arms"]:
            names = [n.rsplit("::", 1)[-1] for n, _s, _p in pat_variants(a["pat"]) if "::" in n]
            if not names:
                names = [v for v in variants if v not in seen]
            for n in names:
                if n not in seen:
                    out[n] = a["body"]
                    seen.add(n)
        return out

    def len_of(variant):
        arms = arms_by_variant(lenf)
        if arms is None or variant not in arms:
            return "unknown"
        b = hu.strip_casts(arms[variant])
        if b.get("k") == "lit" and b["lit"].get("k") == "int":
            return b["lit"]["v"]
        if b.get("k") == "mcall" and b["name"] == "len":
            return "payload"
        return "unknown"

    def value(e, variant):
        e = hu.strip_casts(e)
        if e is None:
            return "unknown"
        if e.get("k") == "lit" and e["lit"].get("k") == "bool":
            return "true" if e["lit"]["v"] else "false"
        if e.get("k") == "bin" and e["op"] == "Eq":
            sides = [hu.strip_casts(e["l"]), hu.strip_casts(e["r"])]
            zero = [x for x in sides if x.get("k") == "lit" and x["lit"].get("v") == 0]
            other = [x for x in sides if x not in zero]
            if zero and other and other[0].get("k") == "mcall" and other[0]["name"] == "len":
                if any(n.endswith("CaoLangObject::len") for n in hir_callee(other[0])):
                    l = len_of(variant)
                    return "len==0" if l == "payload" else ("true" if l == 0 else ("false" if isinstance(l, int) else "unknown"))
                return "len==0"
        if e.get("k") == "mcall" and e["name"] == "is_empty" and not any(n.endswith("CaoLangObject::is_empty") for n in hir_callee(e)):
            return "len==0"
        return "unknown"

    arms = arms_by_variant(f)
    for v in variants:
        key = "C01/K/CaoLangObject::%s/truthiness" % v
        body = arms[v] if arms is not None and v in arms else f.hir["body"]
        if arms is None:
            # no match: the body is one expression for all kinds
            b = f.hir["body"]
            while b.get("k") == "block" and b["block"].get("expr") is not None and not b["block"]["stmts"]:
                b = b["block"]["expr"]
            body = b
        val = value(body, v)
        want = "len==0" if v in ("Table", "String") else "false"
        if val == "unknown":
            res.append(undecided("C01.K", key, f.loc(), "is_empty for %s not understood" % v))
        elif val == want:
            res.append(ok("C01.K", key, f.loc(), "is_empty(%s) = %s" % (v, val)))
        else:
            res.append(bad("C01.K", key, f.loc(),
                           "CaoLangObject::is_empty answers `%s` for a %s (expected %s): as_bool is !is_empty, so a %s value used as a "
                           "condition or boolean operand takes the wrong branch (`if callback { callback() }`)" % (val, v, want, v.lower())))
    return res


def rule_b(F):
    res = []
    fn = F.fn("compiler::Compiler::process_card")
    arms, _pre, _tail = cs.arms_of(fn)
    if arms is None:
        raise AnchorMissing("match on CardBody in process_card")
    for arm in arms:
        names = [v for v in arm.variants if v != "_"]
        w = cw.Walk(F, fn, arm.env)
        w.walk(arm.body)
        jumps = [n for n, ev in enumerate(w.events) if ev[0] == "emit" and ev[1].endswith("encode_if_then")]
        if not jumps:
            continue
        first = jumps[0]
        first_scope = w.events[first][4] if len(w.events[first]) > 4 else 0
        kids = [ev for ev in w.events[first + 1:] if ev[0] in ("child", "list_elem")]
        if not kids:
            continue
        key = "C01/B/%s/conditional-children-are-scopes" % "+".join(names)
        loose = [ev for ev in kids if (ev[4] if len(ev) > 4 else 0) <= first_scope]
        if loose:
            res.append(bad("C01.B", key, fn.loc(loose[0][3]),
                           "the %s arm compiles a child that runs only conditionally without opening a scope around it: a local first "
                           "assigned in that child keeps a slot that does not exist when the child was skipped, every local declared "
                           "afterwards is addressed one slot too high (`while 0 { x = 1 }; y = 2` fails with an out-of-bounds local)"
                           % "/".join(names)))
        else:
            res.append(ok("C01.B", key, fn.loc(kids[0][3]), "%d conditional child(ren), each inside scope_begin/scope_end" % len(kids)))
    if len(res) < 4:
        raise AnchorMissing("arms with conditional children in process_card (found %d)" % len(res))
    return res


# ---------------------------------------------------------------------------------------------------
# What the loop arms of process_card emit, with the values of the operands: an abstract run of the arm's code
# ---------------------------------------------------------------------------------------------------
PASS_THROUGH_METHODS = ("as_ref", "as_deref", "as_str", "as_mut", "clone", "cloned", "copied", "iter", "iter_mut", "into_iter", "unwrap",
                        "expect", "to_owned", "into", "borrow", "as_slice", "by_ref", "deref", "to_string", "as_deref_mut")
WRAPPER_CTORS = ("Some", "Ok", "Box::new", "Rc::new")
_NO_INLINE = ("compiler::Compiler::process_card", "compiler::Compiler::compile_subexpr")


def _decl_primitive(F):
    """the Compiler method that declares a local: it builds `Local { name: <parameter>, .. }`. -> (fn, position of the name
    among [self] + args)"""
    cached = F.__dict__.get("_c01_decl_prim")
    if cached is not None:
        return cached
    out = None
    for g in F.fns:
        if g.hir is None or g.is_closure or not g.short.startswith("compiler::Compiler::"):
            continue
        pids = [[i for i, _n in pat_bindings(p)] for p in g.hir.get("params", [])]
        for x in hir_walk(g.hir["body"]):
            if x.get("k") == "struct" and short(x["path"]["res"].get("path", "")) == "compiler::Local":
                for fld in x["fields"]:
                    lid = hir_local_id(hu.strip_all(fld["e"]))
                    pos = [k for k, ids in enumerate(pids) if lid is not None and lid in ids]
                    if fld["name"] == "name" and pos:
                        out = (g, pos[0])
    if out is None:
        raise AnchorMissing("the Compiler method that declares a local (builds `Local { name, .. }`)")
    F.__dict__["_c01_decl_prim"] = out
    return out


class ArmRun:
    """Abstract, flow-insensitive run of one arm of process_card. Compiler's own helpers and the closures handed to them are
    entered, loops over array literals are unrolled, `?`, Some/Ok and reference adaptors are transparent. Values:
      ('lit', v)  ('user', CardStruct, field)  ('slot', n)  ('tuple', [..])  ('array', [..])  ('closure', node, env)
      ('instr', Name)  None (unknown)
    events (in emission order): ('decl', n, ln) ('instr', Name|None, ln) ('operand', value, ln)
    slots[n] = {'name': value of the declared name, 'var': the Rust variable the slot number was first bound to, 'ln'}"""

    def __init__(self, F, f):
        self.F = F
        self.f = f
        self.events = []
        self.slots = []
        self.decl_fn, self.decl_pos = _decl_primitive(F)
        self.escaped = set()  # declared locals handed to a callee that was not entered
        self.foreign = 0      # > 0 while inside the body of a helper (events are reported at the call site in the arm)
        self.site = None

    # -- patterns --------------------------------------------------------------------------------
    def bind(self, pat, val, env):
        if pat is None:
            return
        k = pat.get("k")
        if k == "bind":
            env[pat["id"]] = val
            for n in _slots_of(val) or []:
                if self.slots[n]["var"] is None:
                    self.slots[n]["var"] = pat["name"]
            if pat.get("sub") is not None:
                self.bind(pat["sub"], val, env)
        elif k == "tuple":
            vs = val[1] if val is not None and val[0] == "tuple" and len(val[1]) == len(pat["pats"]) else [None] * len(pat["pats"])
            for q, v in zip(pat["pats"], vs):
                self.bind(q, v, env)
        elif k == "tuple_struct":
            # Some(x) / Ok(x) / CardBody::X(x): the payload is the value itself
            for q in pat["pats"]:
                self.bind(q, val if len(pat["pats"]) == 1 else None, env)
        elif k == "struct":
            sp = short(pat["path"]["res"].get("path", ""))
            for fl in pat["fields"]:
                if val is not None and val[0] == "struct":
                    self.bind(fl["pat"], val[1].get(fl["name"]), env)
                else:
                    self.bind(fl["pat"], ("user", sp.rsplit("::", 1)[-1], fl["name"]) if sp.startswith("compiler::card::") else None, env)
        elif k in ("ref", "deref", "box", "guard"):
            self.bind(pat["pat"], val, env)
        elif k == "or":
            for q in pat["pats"]:
                self.bind(q, val, env)
        elif k == "slice":
            for q in pat["before"] + ([pat["mid"]] if pat.get("mid") else []) + pat["after"]:
                self.bind(q, None, env)

    # -- expressions -----------------------------------------------------------------------------
    def block(self, bl, env, depth):
        for st in bl["stmts"]:
            if st["k"] == "let":
                v = self.ev(st["init"], env, depth) if st.get("init") is not None else None
                self.bind(st["pat"], v, env)
                if st.get("els"):
                    self.block(st["els"], env, depth)
            elif st["k"] in ("expr", "semi"):
                self.ev(st["e"], env, depth)
        return self.ev(bl["expr"], env, depth) if bl.get("expr") is not None else None

    def for_loop(self, x, env, depth):
        scrut = hir_strip(x["scrut"])
        it = self.ev(scrut["args"][0], env, depth) if scrut.get("k") == "call" and scrut["args"] else self.ev(scrut, env, depth)
        some_arm = None
        for y in hir_walk(x):
            if y is not x and y.get("k") == "match" and str(y.get("source", "")).startswith("ForLoopDesugar"):
                for a in y["arms"]:
                    if a["body"].get("k") != "break":
                        some_arm = a
                break
        if some_arm is None:
            return None
        pat = some_arm["pat"]
        if pat.get("k") in ("tuple_struct",) and len(pat["pats"]) == 1:
            pat = pat["pats"][0]
        elif pat.get("k") == "struct" and len(pat["fields"]) == 1:
            pat = pat["fields"][0]["pat"]
        elems = it[1] if it is not None and it[0] == "array" else [None]
        for e in elems:
            self.bind(pat, e, env)
            self.ev(some_arm["body"], env, depth)
        return None

    def call_closure(self, clo, argvals, depth):
        _k, node, cenv = clo
        env2 = dict(cenv)
        for p, v in zip(node.get("params", []), argvals + [None] * len(node.get("params", []))):
            self.bind(p, v, env2)
        saved = self.foreign
        if short(node.get("path", "")).startswith(self.f.short + "::"):
            self.foreign = 0
        try:
            return self.ev(node["body"], env2, depth + 1)
        finally:
            self.foreign = saved

    def ev(self, e, env, depth=0):
        if e is None:
            return None
        e = hir_strip(e)
        k = e.get("k")
        if k in ("cast", "addr_of") or (k == "un" and e["op"] == "Deref"):
            return self.ev(e["e"], env, depth)
        if k == "lit":
            return ("lit", e["lit"].get("v"))
        if k == "path":
            r = e["path"]["res"]
            if r["k"] == "local":
                return env.get(r["id"])
            sp = short(r.get("path", ""))
            if "::Instruction::" in sp:
                return ("instr", sp.rsplit("::", 1)[-1])
            return None
        if k == "tup":
            return ("tuple", [self.ev(x, env, depth) for x in e["elems"]])
        if k == "array":
            return ("array", [self.ev(x, env, depth) for x in e["elems"]])
        if k == "field":
            base = self.ev(e["e"], env, depth)
            ty = short(str(hu.strip_all(e["e"]).get("ty", "")).replace("&mut ", "").replace("&", "").strip()).split("<")[0]
            if base is not None and base[0] == "struct":
                return base[1].get(e["name"])
            if ty.startswith("compiler::card::"):
                return ("user", ty.rsplit("::", 1)[-1], e["name"])
            if base is not None and base[0] == "tuple" and e["name"].isdigit() and int(e["name"]) < len(base[1]):
                return base[1][int(e["name"])]
            return None
        if k == "struct":
            # a struct literal that carries values around (the hidden slots of a loop travelling together)
            return ("struct", {fl["name"]: self.ev(fl["e"], env, depth) for fl in e["fields"]})
        if k == "block":
            return self.block(e["block"], dict_view(env), depth)
        if k == "closure":
            return ("closure", e, env)
        if k == "if":
            c = hir_strip(e["cond"])
            if c.get("k") == "let":
                self.bind(c["pat"], self.ev(c["init"], env, depth), env)
            else:
                self.ev(c, env, depth)
            a = self.ev(e["then"], env, depth)
            b = self.ev(e["else"], env, depth) if e.get("else") is not None else None
            return _join([a, b])
        if k == "let":
            self.bind(e["pat"], self.ev(e["init"], env, depth), env)
            return None
        if k == "match":
            src = str(e.get("source", ""))
            if src.startswith("ForLoopDesugar"):
                return self.for_loop(e, env, depth)
            if src.startswith("TryDesugar"):
                sc = hir_strip(e["scrut"])
                return self.ev(sc["args"][0], env, depth) if sc.get("k") == "call" and sc["args"] else self.ev(sc, env, depth)
            v = self.ev(e["scrut"], env, depth)
            outs = []
            for a in e["arms"]:
                self.bind(a["pat"], v, env)
                if a.get("guard"):
                    self.ev(a["guard"], env, depth)
                outs.append(self.ev(a["body"], env, depth))
            return _join(outs)
        if k == "assign":
            v = self.ev(e["r"], env, depth)
            lid = hir_local_id(hu.strip_all(e["l"]))
            if lid is not None:
                env[lid] = v
            return None
        if k in ("call", "mcall"):
            return self.call(e, env, depth)
        if k == "loop":
            for x in block_exprs_of(e):
                self.ev(x, env, depth)
            return None
        out = None
        from cao.facts import hir_children
        for c in hir_children(e):
            out = self.ev(c, env, depth)
        return out if k in ("ret", "break", "drop_temps", "use") else None

    def call(self, e, env, depth):
        names = hir_callee(e)
        args = ([e["recv"]] if e.get("k") == "mcall" else []) + list(e["args"])
        fval = None
        if e.get("k") == "call" and not names:
            fval = self.ev(e["f"], env, depth)
        elif e.get("k") == "call" and hir_local_id(e["f"]) is not None:
            fval = env.get(hir_local_id(e["f"]))
        vals = [self.ev(a, env, depth) for a in args]
        if self.foreign == 0:
            self.site = e.get("ln")
        ln = self.site or e.get("ln")
        if fval is not None and fval[0] == "closure":
            return self.call_closure(fval, vals, depth)
        if self.decl_fn.short in names:
            n = len(self.slots)
            self.slots.append({"name": vals[self.decl_pos] if self.decl_pos < len(vals) else None, "var": None, "ln": ln})
            self.events.append(("decl", n, ln))
            return ("slot", n)
        if "compiler::Compiler::push_instruction" in names:
            v = vals[-1] if vals else None
            self.events.append(("instr", v[1] if v is not None and v[0] == "instr" else None, ln))
            return None
        if "bytecode::write_to_vec" in names:
            self.events.append(("operand", vals[0] if vals else None, ln))
            return None
        for n in names:
            g = self.F.fn(n, required=False)
            # any function of the compiler module is entered (methods of Compiler, of the small structs that carry operands
            # around, free helpers) - except the compilation of child cards
            if g is None or g.hir is None or g.is_closure or not n.startswith("compiler::") or n.startswith("compiler::card::") \
                    or n.startswith("compiler::module::") or n in _NO_INLINE or depth >= 6:
                continue
            env2 = {}
            for p, v in zip(g.hir.get("params", []), vals):
                self.bind(p, v, env2)
            self.foreign += 1
            try:
                return self.ev(g.hir["body"], env2, depth + 1)
            finally:
                self.foreign -= 1
        last = set(n.rsplit("::", 1)[-1] for n in names) | ({e["name"]} if e.get("k") == "mcall" else set())
        if e.get("k") == "mcall" and last & set(PASS_THROUGH_METHODS):
            return vals[0]
        if e.get("k") == "mcall" and "rev" in last and vals[0] is not None and vals[0][0] == "array":
            return ("array", list(reversed(vals[0][1])))
        if e.get("k") == "mcall" and "enumerate" in last and vals[0] is not None and vals[0][0] == "array":
            return ("array", [("tuple", [("lit", i), v]) for i, v in enumerate(vals[0][1])])
        if e.get("k") == "mcall" and "zip" in last and len(vals) == 2 and all(v is not None and v[0] == "array" for v in vals):
            return ("array", [("tuple", [a, b]) for a, b in zip(vals[0][1], vals[1][1])])
        if e.get("k") == "call" and any(n.endswith(w) or n.endswith("::" + w) for n in names for w in WRAPPER_CTORS) and len(vals) == 1:
            return vals[0]
        # an unknown callee: closures handed to it may run, with arguments we know nothing about; declared locals handed to it
        # (alone or inside a tuple / struct) may be written into the bytecode there
        for v in vals:
            if v is not None and v[0] == "closure":
                self.call_closure(v, [], depth)
            else:
                self.escaped.update(_slots_in(v))
        return None


def _join(vals):
    """value of a join of control-flow alternatives: the common value, or ('alt', [..]) of slot numbers when every alternative
    is a declared local (`match i { Some(v) => add_local(v)?, None => add_local_unchecked("")? }`), else unknown"""
    vals = list(vals)
    if vals and all(v == vals[0] for v in vals):
        return vals[0]
    flat = []
    for v in vals:
        if v is not None and v[0] == "slot":
            flat.append(v)
        elif v is not None and v[0] == "alt":
            flat += v[1]
        else:
            return None
    return ("alt", flat) if flat else None


def _slots_in(v):
    """all declared locals mentioned anywhere in a value"""
    if v is None:
        return set()
    if v[0] == "slot":
        return {v[1]}
    if v[0] == "alt":
        return set(x[1] for x in v[1])
    if v[0] in ("tuple", "array"):
        return set().union(*[_slots_in(x) for x in v[1]]) if v[1] else set()
    if v[0] == "struct":
        return set().union(*[_slots_in(x) for x in v[1].values()]) if v[1] else set()
    return set()


def _slots_of(v):
    """the declared locals a value may denote: [n, ..] or None"""
    if v is not None and v[0] == "slot":
        return [v[1]]
    if v is not None and v[0] == "alt":
        return [x[1] for x in v[1]]
    return None


def dict_view(env):
    """blocks share the environment of their parent (bindings are keyed by unique HIR ids)"""
    return env


def block_exprs_of(loop_node):
    from cao.facts import block_exprs
    return list(block_exprs(loop_node["body"]))


def loop_arm_runs(F):
    """arm name -> ArmRun for the Repeat and ForEach arms of process_card"""
    cached = F.__dict__.get("_c01_arm_runs")
    if cached is not None:
        return cached
    f = F.fn("compiler::Compiler::process_card")
    arms, _pre, _tail = cs.arms_of(f)
    if arms is None:
        raise AnchorMissing("match on CardBody in process_card")
    out = {}
    for arm in arms:
        for v in arm.variants:
            if v in ("Repeat", "ForEach"):
                run = ArmRun(F, f)
                env = {}
                run.bind(arm.pat, None, env)
                run.ev(arm.body, env, 0)
                out[v] = run
    for lab in ("Repeat", "ForEach"):
        if lab not in out:
            raise AnchorMissing("the %s arm of process_card" % lab)
    F.__dict__["_c01_arm_runs"] = (f, out)
    return f, out


def _instr_operands(run):
    """[(instruction name, ln, [operand values])] in emission order"""
    out = []
    for ev in run.events:
        if ev[0] == "instr":
            out.append((ev[1], ev[2], []))
        elif ev[0] == "operand" and out:
            out[-1][2].append((ev[1], ev[2]))
    return out


def _slot_is_hidden(run, n):
    nm = run.slots[n]["name"]
    return nm is not None and nm[0] == "lit" and nm[1] == ""


def _slot_var(run, v):
    ns = _slots_of(v)
    if ns:
        return run.slots[ns[0]]["var"] or "slot%d" % ns[0]
    return None


LOOP_INSTRS = ("BeginForEach", "ForEach")


def rule_l(F):
    res = []
    f, runs = loop_arm_runs(F)
    for lab in ("Repeat", "ForEach"):
        run = runs[lab]
        uses = []
        for name, ln, ops in _instr_operands(run):
            if name == "SetLocalVar":
                continue          # a write
            for v, oln in ops:
                if name == "ReadLocalVar":
                    uses.append((v, oln, "read_local_var"))
                elif _slots_of(v):
                    uses.append((v, oln, "instruction operand"))
        if not uses:
            raise AnchorMissing("loop control reads in the %s arm" % lab)
        seen = {}
        for v, ln, how in uses:
            name = _slot_var(run, v)
            key = "C01/L/process_card[%s]/%s-is-hidden" % (lab, name or "?")
            if key in seen:
                continue
            seen[key] = True
            ns = _slots_of(v)
            named = [n for n in ns or [] if not _slot_is_hidden(run, n)]
            if not ns:
                res.append(undecided("C01.L", key, f.loc(ln), "local read by the loop code is not declared through add_local*"))
            elif not named:
                res.append(ok("C01.L", key, f.loc(ln), "read by the loop code (%s), declared with the unnameable name \"\"" % how))
            else:
                res.append(bad("C01.L", key, f.loc(ln),
                               "the %s loop reads `%s` (%s) to drive the iteration, but that local can carry a script-visible name (declared "
                               "at line %s through add_local): an assignment to the loop variable inside the body overwrites the loop's own "
                               "state, the body no longer runs exactly n times with i = 0..n-1" % (lab, name, how, run.slots[named[0]]["ln"])))
    return res


def rule_i(F):
    """C01.I: a loop's own locals live in numbered frame slots, not "wherever the value stack happens to be": every local
    the Repeat / ForEach code reads back with ReadLocalVar is stored into its slot first - by SetLocalVar on the same
    local, or as an operand of the BeginForEach / ForEach instruction (the VM stores those). Statement cards leave their
    values on the stack, so the stack height at loop entry is not the slot number: relying on push order reads a stale or
    foreign slot."""
    res = []
    f, runs = loop_arm_runs(F)
    for lab in ("Repeat", "ForEach"):
        run = runs[lab]
        stored = set()
        seen = set()
        for name, ln, ops in _instr_operands(run):
            for v, oln in ops:
                if name == "SetLocalVar" or (name in LOOP_INSTRS):
                    stored.update(_slots_of(v) or [])
                    continue
                if name != "ReadLocalVar":
                    continue
                var = _slot_var(run, v)
                key = "C01/I/process_card[%s]/%s-stored-before-read" % (lab, var or "?")
                if key in seen:
                    continue
                seen.add(key)
                if not _slots_of(v):
                    res.append(undecided("C01.I", key, f.loc(oln), "the local read by the loop code was not resolved to a declaration"))
                elif all(n in stored for n in _slots_of(v)):
                    res.append(ok("C01.I", key, f.loc(oln), "stored (write_local_var / loop instruction operand) before the loop code reads it"))
                elif any(n in run.escaped for n in _slots_of(v) if n not in stored):
                    res.append(undecided("C01.I", key, f.loc(oln), "the local is handed to a function that was not read; it may be written as an operand there"))
                else:
                    res.append(bad("C01.I", key, f.loc(oln),
                                   "the %s loop reads its local `%s` with read_local_var but never stores it into its slot first (no "
                                   "write_local_var / loop-instruction operand on it earlier in the arm): the slot is frame offset + index, "
                                   "not the top of the stack, so with any value left on the stack by an earlier statement the loop reads a "
                                   "foreign value as its bound or counter" % (lab, var)))
    return res


FOREACH_FIELD_ROLE = {"i": "index", "k": "key", "v": "value"}   # card.rs, struct ForEach: what each user variable is defined to hold


def vm_foreach_roles(F):
    """What the interpreter stores, per iteration, into the local named by each operand of the ForEach instruction:
    {operand position: 'index' | 'key' | 'value' | 'next-counter'}, read from the MIR of the handler of Instruction::ForEach.
      key          the result of CaoLangTable::nth_key (the key of the current row)
      value        the result of the table lookup with that key
      index        Value::Integer(c), c the counter as it was read from its slot
      next-counter Value::Integer(c + 1)"""
    from cao.facts import DefUse, callee_names, op_local, op_place, rvalue_places
    from cao import mirutil as mu
    _vf, arms = vm_arm_bodies(F)
    g = None
    for x in hir_walk(arms.get("ForEach")) if arms.get("ForEach") is not None else []:
        if x.get("k") in ("call", "mcall"):
            for n in hir_callee(x):
                h = F.fn(n, required=False)
                if h is not None and h.mir and n.startswith("vm::instr_execution::"):
                    g = h
        if g is not None:
            break
    if g is None:
        raise AnchorMissing("the handler of Instruction::ForEach in the interpreter loop")
    du = DefUse(g)

    def whole_defs(l):
        return [d for d in du.defs.get(l, []) if not d[3].get("place", d[3].get("dest"))["p"]]
    decodes = [(bi, t["dest"]["l"]) for bi, t in mu.calls(g) if any(n.endswith("::decode_value") for n in callee_names(t["func"]))]
    decodes.sort()
    if len(decodes) < 3 or any(not g.cfg.dominates(decodes[i][0], decodes[i + 1][0]) for i in range(len(decodes) - 1)):
        raise AnchorMissing("operand decoding in %s" % g.short)
    pos_of_dest = {l: i for i, (_b, l) in enumerate(decodes)}

    def back(l, through_calls=True):
        """backward slice of a local: (locals, call names, has arithmetic)"""
        seen, calls_, arith = set(), [], False
        work = [l]
        while work:
            x = work.pop()
            if x in seen:
                continue
            seen.add(x)
            for _b, _s, kind, d in whole_defs(x):
                if kind == "assign":
                    if d["rv"]["k"] in ("bin", "checked_bin"):
                        arith = True
                    for pl in rvalue_places(d["rv"]):
                        work.append(pl["l"])
                else:
                    calls_.append(d)
                    if through_calls:
                        for a_ in d["args"]:
                            q = op_place(a_)
                            if q is not None:
                                work.append(q["l"])
        return seen, calls_, arith

    def operand_pos(op):
        l = op_local(op)
        if l is None:
            return None
        seen, _c, _a = back(l, through_calls=False)
        hit = sorted(pos_of_dest[x] for x in seen if x in pos_of_dest)
        return hit[0] if len(hit) == 1 else None

    def classify(op):
        l = op_local(op)
        if l is None:
            return None
        seen, calls_, arith = back(l)
        names = [n for c in calls_ for n in callee_names(c["func"])]
        has_key = any(n.endswith("CaoLangTable::nth_key") for n in names)
        has_get = any(n.rsplit("::", 1)[-1] == "get" and ("CaoHashMap" in n or "CaoLangTable" in n) for n in names)
        if has_key and has_get:
            return "value"
        if has_key:
            return "key"
        # Value::Integer(x)
        cur = l
        for _ in range(6):
            ds = whole_defs(cur)
            if len(ds) != 1 or ds[0][2] != "assign":
                return None
            rv = ds[0][3]["rv"]
            if rv["k"] == "use" and op_local(rv["op"]) is not None:
                cur = op_local(rv["op"])
                continue
            if rv["k"] == "agg" and rv["agg"].get("variant") == "Integer" and rv["ops"]:
                x = op_place(rv["ops"][0])
                if x is None:
                    return None
                s2, c2, arith2 = back(x["l"])
                reads_slot = any(operand_pos(a_) is not None for c in c2 for a_ in c["args"])
                if not reads_slot:
                    return None
                return "next-counter" if arith2 else "index"
            return None
        return None

    roles = {}
    for bi, t in mu.calls(g):
        nm = callee_names(t["func"])
        if any(n.endswith("::decode_value") for n in nm):
            continue
        vals = [a_ for a_ in t["args"] if op_local(a_) is not None and g.local_ty(op_local(a_)) == "value::Value"]
        poss = [operand_pos(a_) for a_ in t["args"] if op_local(a_) is not None and g.local_ty(op_local(a_)) != "value::Value"]
        poss = [p_ for p_ in poss if p_ is not None]
        if len(vals) == 1 and len(poss) == 1:
            r = classify(vals[0])
            if r is not None:
                if poss[0] in roles and roles[poss[0]] != r:
                    roles[poss[0]] = "conflict"
                else:
                    roles[poss[0]] = r
    return g, roles


def rule_e(F):
    """C01.E: the binding code of a loop card copies role X's hidden register into role X's user variable. The ForEach
    instruction's operands name the hidden locals the interpreter fills each iteration; which operand receives the row index,
    the key and the value is read from the interpreter (vm_foreach_roles). In the ForEach arm of process_card every copy
    `ReadLocalVar h; SetLocalVar u` whose destination u was declared under the name held by a field of the ForEach card
    (i / k / v) must read the hidden local h that sits at the operand position of that field's role."""
    res = []
    f, runs = loop_arm_runs(F)
    run = runs["ForEach"]
    vmf, roles = vm_foreach_roles(F)
    ios = _instr_operands(run)
    fe = [(name, ln, ops) for name, ln, ops in ios if name == "ForEach"]
    if len(fe) != 1:
        raise AnchorMissing("emission of Instruction::ForEach in the ForEach arm (found %d)" % len(fe))
    slot_role = {}
    for pos, (v, _ln) in enumerate(fe[0][2]):
        if v is not None and v[0] == "slot" and pos in roles:
            slot_role.setdefault(v[1], set()).add(roles[pos])
    found = {}
    for idx in range(len(ios) - 1):
        n1, l1, o1 = ios[idx]
        n2, l2, o2 = ios[idx + 1]
        if n1 != "ReadLocalVar" or n2 != "SetLocalVar" or len(o1) != 1 or len(o2) != 1:
            continue
        src, dst = o1[0][0], o2[0][0]
        if dst is None or dst[0] != "slot":
            continue
        nm = run.slots[dst[1]]["name"]
        if nm is None or nm[0] != "user" or nm[1] != "ForEach":
            continue
        found.setdefault(nm[2], []).append((src, l1))
    for fld, want in FOREACH_FIELD_ROLE.items():
        key = "C01/E/process_card[ForEach]/%s-receives-the-row-%s" % (fld, want)
        copies = found.get(fld, [])
        if not copies:
            res.append(undecided("C01.E", key, f.loc(fe[0][1]), "no copy into the variable named by ForEach.%s was found in the arm" % fld))
            continue
        verdicts = []
        for src, ln in copies:
            if src is None or src[0] != "slot" or src[1] not in slot_role or "conflict" in slot_role[src[1]]:   # ('alt', ..) is not decided
                verdicts.append(("undecided", ln, "the local copied into the user's `%s` is not an operand of the ForEach instruction with a known role" % fld))
            elif slot_role[src[1]] == {want}:
                verdicts.append(("ok", ln, _slot_var(run, src)))
            else:
                got = "/".join(sorted(slot_role[src[1]]))
                verdicts.append(("bad", ln, (got, _slot_var(run, src))))
        wrong = [v for v in verdicts if v[0] == "bad"]
        und = [v for v in verdicts if v[0] == "undecided"]
        if wrong:
            got, var = wrong[0][2]
            res.append(bad("C01.E", key, f.loc(wrong[0][1]),
                           "the ForEach arm fills the user's variable `%s` (ForEach.%s, defined as the row's %s) from the hidden local `%s`, "
                           "which the interpreter (%s) fills with the row's %s: the body sees %s == the %s of the row - for any table "
                           "whose keys are not 0..n-1 in order (string keys, sparse or out-of-order integer keys) the program observes a "
                           "different value than the card semantics define" % (fld, fld, want, var, vmf.name, got, fld, got),
                           roles={str(k_): v_ for k_, v_ in roles.items()}))
        elif und:
            res.append(undecided("C01.E", key, f.loc(und[0][1]), und[0][2]))
        else:
            res.append(ok("C01.E", key, f.loc(verdicts[0][1]),
                          "copied from `%s`, the operand the interpreter fills with the row's %s" % (verdicts[0][2], want),
                          roles={str(k_): v_ for k_, v_ in roles.items()}))
    return res


def rule_v(F):
    """innermost binding wins: the search over `locals` in resolve_var stops at the first hit of a *reversed* scan whose
    reported index counts from the front (enumerate before rev, or rposition)."""
    from cao import scoping as sc
    # the search may have been moved into a helper; the fallback into resolve_upvalue (the enclosing functions' locals) is
    # C06.V's search
    return sc.rule_innermost(F, "C01.V", "compiler::Compiler::resolve_var", "locals", "C01/V/resolve_var",
                             not_into=("compiler::Compiler::resolve_upvalue",))


def rule_d(F):
    """C01.D: the body of a loop is a statement. Cards used as statements leave their values on the stack (a call whose
    result nobody uses); inside a loop body that happens once per iteration, so the Repeat / ForEach / While arms must emit,
    after the body and before the body's scope ends, the instruction that drops everything above the locals (ClearStack
    with the number of live locals). Without it `repeat n { f() }` overflows the value stack for large n, and the body's
    locals are not on top when the scope ends (CloseUpvalue / Pop then hit a leftover value instead of the local)."""
    from rules.c10 import arm_labels
    res = []
    f = F.fn("compiler::Compiler::process_card")
    labels = arm_labels(f)

    def emits_clear(y, depth=0):
        names = hir_callee(y)
        if any(n.endswith("Compiler::push_instruction") for n in names):
            return any(z.get("k") == "path" and short(z["path"]["res"].get("path", "")).endswith("Instruction::ClearStack") for a in y["args"] for z in hir_walk(a))
        for n in names:
            g = F.fn(n, required=False)
            if g is not None and g.hir and n.startswith("compiler::Compiler::") and depth < 2 and n not in ("compiler::Compiler::process_card", "compiler::Compiler::compile_subexpr"):
                if any(emits_clear(z, depth + 1) for z in hir_walk(g.hir["body"]) if z.get("k") in ("mcall", "call")):
                    return True
        return False
    NO_EXPAND = ("compiler::Compiler::process_card", "compiler::Compiler::compile_subexpr")

    def flat_calls(g, body, env, depth, stack):
        """the calls of `body` in source order, the bodies of Compiler's own helpers spliced in after the call that enters them
        (a helper that compiles one child / the whole loop body); env: parameter of the helper -> (argument expression, env)"""
        for x in hir_walk(body):
            if x.get("k") not in ("mcall", "call"):
                continue
            yield x, env, depth
            if depth >= 3:
                continue
            for n in hir_callee(x):
                h = F.fn(n, required=False)
                if h is None or h.hir is None or h.is_closure or not n.startswith("compiler::Compiler::") or n in NO_EXPAND or n in stack:
                    continue
                args = ([x["recv"]] if x.get("k") == "mcall" else []) + list(x["args"])
                env2 = {}
                for a, p in zip(args, h.hir.get("params", [])):
                    for pid, _nm in pat_bindings(p):
                        env2[pid] = (a, env)
                for y in flat_calls(h, h.hir["body"], env2, depth + 1, stack + (n,)):
                    yield y
                break

    def is_one(a, env):
        for _ in range(4):
            a = hu.strip_all(a) if a is not None else None
            lid = hir_local_id(a) if a is not None else None
            if lid is None or lid not in env:
                break
            a, env = env[lid]
        return a is not None and a.get("k") == "lit" and a["lit"].get("v") == 1

    flat = []
    cur = None
    for x, env, depth in flat_calls(f, f.hir["body"], {}, 0, (f.short,)):
        if depth == 0:
            cur = labels.get(id(x))
        flat.append((x, env, cur))     # calls inside a helper belong to the arm that called it
    for lab in ("Repeat", "ForEach", "While"):
        seq_env = [(x, env) for x, env, l2 in flat if l2 == lab]
        seq = [x for x, _e in seq_env]
        # the body: process_card under push_subindex(1) - in the arm or in a helper it calls; take the last process_card
        # before a scope_end that follows a push_subindex
        body_i = None
        pushed = False
        for i, (x, env) in enumerate(seq_env):
            names = hir_callee(x)
            if any(n.endswith("CardIndex::push_subindex") for n in names):
                pushed = is_one(x["args"][0], env) if x.get("args") else False
            elif any(n.endswith("CardIndex::pop_subindex") for n in names):
                pushed = False
            elif pushed and any(n.endswith("Compiler::process_card") for n in names):
                body_i = i
        key = "C01/D/process_card[%s]/statement-values-dropped-every-iteration" % lab
        if body_i is None:
            res.append(undecided("C01.D", key, f.loc(), "the body of the %s loop was not found (process_card under push_subindex(1))" % lab))
            continue
        end_i = next((i for i in range(body_i + 1, len(seq)) if any(n.endswith("Compiler::scope_end") for n in hir_callee(seq[i]))), None)
        between = seq[body_i + 1:end_i] if end_i is not None else seq[body_i + 1:]
        if any(emits_clear(y) for y in between):
            res.append(ok("C01.D", key, f.loc(seq[body_i].get("ln")), "ClearStack(number of locals) is emitted after the body, before its scope ends"))
        else:
            res.append(bad("C01.D", key, f.loc(seq[body_i].get("ln")),
                           "the %s arm compiles the loop body and ends its scope without dropping the values the body's statements left on "
                           "the stack: they pile up once per iteration (`repeat 5000 { f() }` ends in Stackoverflow) and a captured local of "
                           "the body is not on top when CloseUpvalue runs, so closures of different iterations share one variable" % lab))
    return res


def rule_g(F):
    """C01.G: reading a global that was never set has one outcome. Setting a global grows the table of globals up to its id
    (`resize`), which creates entries for ids that were never set; if those fillers are ordinary values (the table is a
    Vec<Value>), an unset global with a smaller id reads as that value while the same read fails with VarNotFound when no
    higher id has been set yet. So: when some function resizes `RuntimeData.global_vars`, its element type is not a bare
    Value (the filler is distinguishable from anything a script can store), and the read path tests it."""
    from cao.facts import DefUse, callee_names, op_local
    from cao import mirutil as mu
    res = []
    adt = F.adt("vm::runtime::RuntimeData")
    fld = next((x for x in adt["variants"][0]["fields"] if x["name"] == "global_vars"), None)
    if fld is None:
        raise AnchorMissing("RuntimeData.global_vars")
    elem = fld["ty"]
    resizers = []
    for f in F.fns:
        if not f.mir or not f.path.startswith("vm::"):
            continue
        du = DefUse(f)
        for bi, t in mu.calls(f):
            if any(n.rsplit("::", 1)[-1] in ("resize", "resize_with", "extend", "extend_from_slice") and "Vec" in n for n in callee_names(t["func"])) and t["args"]:
                a0 = op_local(t["args"][0])
                if a0 is not None and mu.ref_of_field_chain(f, du, a0, ["global_vars"]):
                    resizers.append((f, t))
    key = "C01/G/global-table/gaps-are-distinguishable-from-values"
    if not resizers:
        res.append(ok("C01.G", key, "", "no function grows the table of globals over ids that were not set"))
        return res
    f, t = resizers[0]
    bare = elem.replace(" ", "") in ("std::vec::Vec<value::Value>", "Vec<value::Value>", "Vec<Value>")
    if bare:
        res.append(bad("C01.G", key, f.loc(t.get("ln")),
                       "%s grows RuntimeData.global_vars (%s) up to the id being set and fills the gap with ordinary values: a global with a "
                       "smaller id that was never set then reads as that filler, while the same read fails with VarNotFound as long as no "
                       "higher id has been set - the outcome of a program depends on how unrelated globals were numbered" % (f.name, elem)))
    else:
        res.append(ok("C01.G", key, f.loc(t.get("ln")), "the table holds %s: a gap is not a value" % elem))
    return res


def _c19_rule_c(F):
    from rules import c19 as _c19
    return _c19.rule_c(F)


def _c19_rule_x(F):
    from rules import c19 as _c19
    return _c19.rule_x(F)


def rule_w(F):
    """C01.W: a string literal is a value whatever its length - the VM's string reader looks at the data section up to its
    end (cao/strbound.py)."""
    from cao import strbound
    return strbound.rule_string_window(F, "C01.W", "C01/W")


RULES = [
    Rule("C01.W", rule_w, 1, "the VM's string reader accepts every string the compiler stores (no length window)"),
    Rule("C01.D", rule_d, 3, "loop bodies drop the values their statements leave behind, every iteration"),
    Rule("C01.G", rule_g, 1, "an unset global is distinguishable from every value a script can store"),
    Rule("C01.R", shared(_c19_rule_c, "C19.C", "C01.R"), 2, "Less / LessOrEq on numbers follow the payloads' own order (shared with C19.C)"),
    Rule("C01.Q", shared(_c19_rule_x, "C19.X", "C01.Q"), 2, "Equals / NotEquals on numbers is exact equality (shared with C19.X)"),
    Rule("C01.E", rule_e, 3, "each for-each variable (i / k / v) is fed from the hidden local the interpreter fills with that role"),
    Rule("C01.I", rule_i, 5, "loop locals are stored into their slots before the loop code reads them"),
    Rule("C01.T", rule_t, 36, "operator cards -> like-named instruction -> like operator"),
    Rule("C01.O", rule_o, 10, "operand order of binary operators"),
    Rule("C01.S", rule_s, 12, "scope / sub-index / nested-function brackets are balanced"),
    Rule("C01.A", rule_a, 3, "only statements declare locals in the enclosing scope"),
    Rule("C01.K", rule_k, 6, "truthiness of every object kind"),
    Rule("C01.B", rule_b, 6, "conditionally executed children are scopes"),
    Rule("C01.L", rule_l, 7, "loop control state is hidden from scripts"),
    Rule("C01.V", rule_v, 1, "a name resolves to its innermost binding"),
]
