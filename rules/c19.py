"""C19 — Value equality, hashing and ordering are mutually coherent.

The algebraic laws quantify over values and are NOT decided in general. Claimed, as necessary structural conditions:

  C19.H  hash is never finer than eq: for every kind of value for which eq can be true (nil, integers, reals, strings,
         tables) the Hash impl feeds the hasher only with what eq compares; in particular no pointer identity (NonNull,
         raw pointer, as_ptr) reaches the hasher, and Value::hash of an object hashes the pointee, not the pointer.
  C19.E  eq arms are symmetric: the match on (self, other) can only answer true for same-kind pairs.
  C19.O  ordering never contradicts equality for objects: CaoLangObject::partial_cmp answers Some(Equal) only on the
         eq == true edge.
  C19.Z  hash value 0 is mapped away (= C12.Z), so any value can be a table key.
"""
from cao.facts import (AnchorMissing, callee_names, short, hir_walk, hir_callee, hir_strip, hir_local_id, pat_variants, pat_bindings)
from cao.rules import Rule, ok, bad, undecided, note, R
from cao import hirutil as hu

EXPLANATION = (
    "Equal values must hash equally or table lookups miss. eq compares strings and tables by content, so the Hash impls "
    "must not let identity leak in. The rule walks the HIR of `impl Hash for Value` and `impl Hash for CaoLangObject`: in "
    "every arm whose kind eq can answer true for, each receiver of `.hash(state)` must have a non-pointer type and be "
    "derived from the content accessors eq uses (as_str, iter items, the scalar / to_bits); the Object arm of Value must "
    "dereference before hashing. C19.E reads the tuple patterns of the two PartialEq impls: an arm that can produce true "
    "must pair a variant with itself. C19.O checks that partial_cmp of objects builds Some(Equal) only from eq. The laws "
    "themselves (transitivity, antisymmetry over all value triples, NaN/signed-zero exceptions) are behavioural."
)
ASSUMPTIONS = ["str, i64 and u64 hash/eq coherently in std", "CaoLangTable::iter yields entries in insertion order for both operands (eq is order-sensitive by design)"]

POINTERISH = ("*mut ", "*const ", "std::ptr::NonNull<", "&std::ptr::NonNull<")


def impl_fn(F, trait_suffix, self_ty, method):
    for f in F.fns:
        r = f.raw
        if f.hir and not f.is_closure and f.name == method and short(r.get("impl_trait", "")).endswith(trait_suffix) and short(r.get("impl_self", "")) == self_ty:
            return f
    raise AnchorMissing("impl %s for %s" % (trait_suffix, self_ty))


def match_arms(f):
    """the principal match of an impl body: the user-written match with the most arms (a pre-match that peels off a special
    case, an if-let, or a `?` does not count)"""
    best = None
    for x in hir_walk(f.hir["body"]):
        if x.get("k") == "match" and not x.get("exp") and not (x.get("source") or "").startswith(("TryDesugar", "ForLoop", "IfLet", "WhileLet")):
            score = (sum(1 for a in x["arms"] if a["pat"].get("k") != "wild" and not a.get("guard")), len(x["arms"]))
            if best is None or score > best[0]:
                best = (score, x)
    return best[1] if best else None


EQ_TRUE_KINDS = {"value::Value": {"Nil", "Integer", "Real", "Object"},
                 "vm::runtime::cao_lang_object::CaoLangObject": {"Table", "String"}}


def rule_h(F):
    res = []
    for ty in ("value::Value", "vm::runtime::cao_lang_object::CaoLangObject"):
        f = impl_fn(F, "hash::Hash", ty, "hash")
        m = match_arms(f)
        if m is None:
            raise AnchorMissing("match in Hash for %s" % ty)
        tname = ty.rsplit("::", 1)[-1]
        for a in m["arms"]:
            kinds = [n.rsplit("::", 1)[-1] for n, _s, _p in pat_variants(a["pat"]) if "::" in n]
            for kind in kinds:
                if kind not in EQ_TRUE_KINDS[ty]:
                    continue
                key = "C19/H/%s::%s/hash-not-finer-than-eq" % (tname, kind)
                hashed = []
                for y in hir_walk(a["body"]):
                    if y.get("k") == "mcall" and y["name"] == "hash" and any(n.endswith("Hash::hash") for n in hir_callee(y)):
                        r = hir_strip(y["recv"])
                        hashed.append((r.get("ty", ""), r, y["ln"]))
                if not hashed and kind not in ("Nil",):
                    res.append(bad("C19.H", key, f.loc(a.get("ln")), "the %s arm of Hash for %s feeds nothing to the hasher" % (kind, tname)))
                    continue
                ptr = [(t, ln) for t, _r, ln in hashed if t.startswith(POINTERISH) or any(p in t for p in ("NonNull<", "*mut", "*const"))]
                via_as_ptr = any(z.get("k") == "mcall" and z["name"] in ("as_ptr", "addr", "as_mut_ptr") for _t, r, _ln in hashed for z in hir_walk(r))
                if ptr or via_as_ptr:
                    t0 = ptr[0] if ptr else ("as_ptr()", hashed[0][2])
                    res.append(bad("C19.H", key, f.loc(t0[1]),
                                   "Hash for %s hashes a pointer (%s) in the %s arm while eq compares contents: two equal %s values "
                                   "(e.g. two strings with the same text) hash differently, so a table lookup through an equal key misses" % (tname, t0[0], kind, kind.lower())))
                else:
                    res.append(ok("C19.H", key, f.loc(a.get("ln")), "hashes %s" % ", ".join(sorted(set(t for t, _r, _ln in hashed))) if hashed else "constant"))
    return res


def all_variant_names(p, out=None):
    """names of all enum variants mentioned anywhere in a pattern (tuple / reference patterns included)"""
    if out is None:
        out = []
    if isinstance(p, dict):
        if p.get("k") in ("tuple_struct", "struct", "path") and isinstance(p.get("path"), dict):
            r = p["path"].get("res", {})
            nm = short(r.get("path", "") or r.get("ctor_of", ""))
            if "::" in nm and (str(r.get("def_kind", "")).startswith(("Ctor", "Variant")) or r.get("ctor_of")):
                out.append(nm.rsplit("::", 1)[-1])
        for v in p.values():
            all_variant_names(v, out)
    elif isinstance(p, list):
        for v in p:
            all_variant_names(v, out)
    return out


def rule_t(F):
    """tables: equality and hash treat the row order alike. Eq that compares the rows position by position (zip of the two
    iterators) is order-sensitive, eq that looks each row of one table up in the other is order-insensitive; a Hash that
    feeds the rows to one sequential hasher is order-sensitive. Order-insensitive eq with an order-sensitive hash makes
    equal tables hash differently."""
    res = []
    ty = "vm::runtime::cao_lang_object::CaoLangObject"
    key = "C19/T/CaoLangObject::Table/eq-and-hash-agree-on-row-order"
    fe = impl_fn(F, "cmp::PartialEq", ty, "eq")
    fh = impl_fn(F, "hash::Hash", ty, "hash")

    def table_arm(f):
        m = match_arms(f)
        if m is None:
            return None
        for a in m["arms"]:
            kinds = all_variant_names(a["pat"])
            if kinds and all(k == "Table" for k in kinds):
                return a
        return None
    ae, ah = table_arm(fe), table_arm(fh)
    if ae is None or ah is None:
        raise AnchorMissing("Table arms of PartialEq / Hash for CaoLangObject")
    zips = [y for y in hir_walk(ae["body"]) if y.get("k") == "mcall" and y["name"] in ("zip", "eq", "cmp", "partial_cmp")
            and any(n.startswith("std::iter::Iterator::") for n in hir_callee(y))]
    lookups = [y for y in hir_walk(ae["body"]) if y.get("k") == "mcall" and y["name"] in ("get", "get_mut", "contains", "contains_key")
               and any("CaoLangTable::" in n or "CaoHashMap::" in n for n in hir_callee(y))]
    if lookups:
        eq_kind = "order-insensitive (rows of one table are looked up in the other, line %s)" % lookups[0].get("ln")
        eq_ordered = False
    elif zips:
        eq_kind = "order-sensitive (rows compared position by position)"
        eq_ordered = True
    else:
        return [undecided("C19.T", key, fe.loc(ae.get("ln")), "how table equality walks the rows was not recognised")]
    # hash: rows fed to the single hasher `state` inside a loop over iter()
    seq = False
    commut = False
    for y in hir_walk(ah["body"]):
        if y.get("k") == "mcall" and y["name"] == "hash" and any(n.endswith("Hash::hash") for n in hir_callee(y)):
            seq = True
        if y.get("k") in ("bin", "assign_op") and y.get("op") in ("BitXor", "BitXorAssign") or \
                (y.get("k") == "mcall" and y["name"] in ("wrapping_add", "wrapping_mul")):
            commut = True
    if commut:
        return [undecided("C19.T", key, fh.loc(ah.get("ln")), "the table hash combines per-row values; order sensitivity not decided")]
    if not seq:
        return [undecided("C19.T", key, fh.loc(ah.get("ln")), "the table hash feeds nothing recognisable to the hasher")]
    # both walk the same view of the rows: a position-by-position eq over the insertion-ordered iterator and a sequential
    # hash over the hash part's bucket order disagree as soon as two equal tables have different capacities
    def row_views(arm):
        out = set()
        for y in hir_walk(arm["body"]):
            if y.get("k") == "mcall" and y["name"] in ("iter", "iter_mut", "keys", "values", "into_iter"):
                for n_ in hir_callee(y):
                    if "CaoLangTable::" in n_ or "CaoHashMap::" in n_ or "HandleTable::" in n_:
                        out.add(n_.rsplit("<", 1)[0])
        return out
    ve, vh = row_views(ae), row_views(ah)
    if eq_ordered and ve and vh and not (vh <= ve):
        return [bad("C19.T", key, fh.loc(ah.get("ln")),
                    "table equality compares the rows in the order of %s, the table hash feeds them to the hasher in the order of %s: "
                    "the bucket order of the hash part depends on the table's capacity history, which is not part of its value, so two "
                    "tables that compare equal hash differently (a row stored under one is not found under the other)"
                    % (sorted(x.rsplit("::", 2)[-2] + "::" + x.rsplit("::", 1)[-1] for x in ve), sorted(x.rsplit("::", 2)[-2] + "::" + x.rsplit("::", 1)[-1] for x in vh)))]
    if eq_ordered:
        res.append(ok("C19.T", key, fe.loc(ae.get("ln")), "eq is %s, the hash feeds the rows in the same order to one hasher" % eq_kind))
    else:
        res.append(bad("C19.T", key, fe.loc(ae.get("ln")),
                       "table equality is %s but Hash for CaoLangObject feeds the rows to one sequential hasher in insertion order: two "
                       "tables with the same rows inserted in a different order compare equal and hash differently, so one does not find "
                       "the row stored under the other as a table key" % eq_kind))
    return res


def rule_e(F):
    res = []
    for ty in ("value::Value", "vm::runtime::cao_lang_object::CaoLangObject"):
        f = impl_fn(F, "cmp::PartialEq", ty, "eq")
        m = match_arms(f)
        tname = ty.rsplit("::", 1)[-1]
        if m is None:
            raise AnchorMissing("match in PartialEq for %s" % ty)
        n = 0
        for a in m["arms"]:
            body = hir_strip(a["body"])
            is_false = body.get("k") == "lit" and body["lit"].get("v") is False
            alts = a["pat"]["pats"] if a["pat"].get("k") == "or" else [a["pat"]]
            for p in alts:
                if p.get("k") == "tuple" and len(p["pats"]) == 2:
                    l = [x[0].rsplit("::", 1)[-1] for x in pat_variants(p["pats"][0])]
                    r = [x[0].rsplit("::", 1)[-1] for x in pat_variants(p["pats"][1])]
                    n += 1
                    key = "C19/E/%s/(%s,%s)" % (tname, "|".join(l), "|".join(r))
                    if is_false or l == r:
                        res.append(ok("C19.E", key, f.loc(a.get("ln")), "same-kind arm" if l == r else "answers false"))
                    else:
                        res.append(bad("C19.E", key, f.loc(a.get("ln")),
                                       "eq can answer true for a (%s, %s) pair, but Hash for %s feeds each kind to the hasher in its own "
                                       "representation: two values that compare equal hash differently (a row stored under one is not found "
                                       "under the other), and a comparison through a lossy conversion is not transitive" % (l, r, tname)))
                elif p.get("k") == "wild":
                    key = "C19/E/%s/otherwise" % tname
                    if is_false:
                        res.append(ok("C19.E", key, f.loc(a.get("ln")), "all mixed-kind pairs are unequal"))
                    else:
                        res.append(bad("C19.E", key, f.loc(a.get("ln")), "the catch-all arm of eq does not answer false"))
        if n < 2:
            raise AnchorMissing("tuple arms in PartialEq for %s" % ty)
    return res


def rule_k(F):
    """C19.K: a table's hash is a function of its *current* contents, all the way down. The Table arm of
    `Hash for CaoLangObject` walks the rows (a loop over the table's row iterator) and feeds every key and every value to
    the hasher at the time of the call. A hash taken from a stored field / memo of the table goes stale when a table nested
    inside it changes (the outer table is not touched by that), so two tables that compare equal hash differently."""
    res = []
    ty = "vm::runtime::cao_lang_object::CaoLangObject"
    key = "C19/K/CaoLangObject::Table/hash-walks-the-current-rows"
    fh = impl_fn(F, "hash::Hash", ty, "hash")
    m = match_arms(fh)
    arm = None
    for a in (m["arms"] if m else []):
        kinds = all_variant_names(a["pat"])
        if kinds and all(k_ == "Table" for k_ in kinds):
            arm = a
    if arm is None:
        raise AnchorMissing("Table arm of Hash for CaoLangObject")
    loops = [y for y in hir_walk(arm["body"]) if y.get("k") == "match" and y.get("source") == "ForLoopDesugar"]
    walked = False
    for lp in loops:
        head = lp.get("e") or lp.get("scrut") or {}
        over_rows = any(z.get("k") == "mcall" and z["name"] in ("iter", "keys", "values") and
                        any("CaoLangTable::" in n_ or "CaoHashMap::" in n_ for n_ in hir_callee(z)) for z in hir_walk(head))
        hashes = [z for z in hir_walk(lp) if z.get("k") == "mcall" and z["name"] == "hash" and any(n_.endswith("Hash::hash") for n_ in hir_callee(z))]
        if over_rows and len(hashes) >= 2:
            walked = True
    memo = [z for z in hir_walk(arm["body"]) if z.get("k") == "mcall" and any("CaoLangTable::" in n_ for n_ in hir_callee(z))
            and z["name"] not in ("iter", "keys", "values", "len", "is_empty")]
    if walked and not memo:
        res.append(ok("C19.K", key, fh.loc(arm.get("ln")), "the rows are walked and every key and value is hashed at call time"))
    else:
        res.append(bad("C19.K", key, fh.loc(arm.get("ln")),
                       "the Table arm of Hash for CaoLangObject does not walk the rows at the time of the call (it feeds %s to the hasher): a "
                       "stored / memoised content hash is not reset when a table nested inside this one changes, so after such a change the "
                       "table hashes differently from an equal table built afresh - equal values no longer hash equally"
                       % (("the result of CaoLangTable::%s" % memo[0]["name"]) if memo else "something else than the rows")))
    return res


def rule_n(F):
    """C19.N: integers and reals are ordered by numeric value. An i64 converted to f64 is rounded beyond 2^53, so a mixed
    comparison that converts the integer side is wrong there (2^53+1 compares Equal to 2^53.0). In `PartialOrd for Value`
    the mixed pairs (a Real on exactly one side) are decided before the common-type cast, by a comparator that takes the
    integer as an integer and never converts it to a float."""
    from cao.facts import DefUse
    from cao import mirutil as mu
    res = []
    f = impl_fn(F, "cmp::PartialOrd", "value::Value", "partial_cmp")
    key = "C19/N/Value/mixed-integer-real-order-is-exact"
    exact = []
    for y in hir_walk(f.hir["body"]):
        if y.get("k") == "call":
            for n_ in hir_callee(y):
                g = F.fn(n_, required=False)
                if g is None or not g.hir or not g.mir:
                    continue
                ptys = [p_.get("ty") for p_ in g.hir.get("params", [])]
                if sorted(ptys) == ["f64", "i64"]:
                    exact.append((y, g))
    if not exact:
        return [bad("C19.N", key, f.loc(), "PartialOrd for Value decides mixed Integer/Real pairs only after converting both operands to a common "
                    "type: the integer side goes through `as f64`, which rounds beyond 2^53, so Integer(2^53+1) compares Equal to Real(2^53) - "
                    "the two kinds are not ordered by numeric value")]
    # both orders handled, before the cast
    casts = [y for y in hir_walk(f.hir["body"]) if y.get("k") == "mcall" and any(n_.endswith("try_cast_match") for n_ in hir_callee(y))]
    before = all((y.get("ln") or 0) < (c.get("ln") or 10 ** 9) for y, _g in exact for c in casts)
    g = exact[0][1]
    lossy = False
    ipar = next((i + 1 for i, p_ in enumerate(g.hir["params"]) if p_.get("ty") == "i64"), None)
    du = DefUse(g)
    for b in g.blocks:
        for st in b["stmts"]:
            if st["k"] == "assign" and st["rv"]["k"] == "cast" and st["rv"].get("kind") == "IntToFloat":
                l = op_local_(st["rv"]["op"])
                kind, payload = du.trace_back(l) if l is not None else (None, None)
                if (kind == "arg" and payload == ipar) or l == ipar:
                    lossy = True
    if len(exact) >= 2 and before and not lossy:
        res.append(ok("C19.N", key, f.loc(exact[0][0].get("ln")), "both mixed orders go to %s(i64, f64) before the common-type cast; it never converts the integer to a float" % g.name))
    else:
        res.append(bad("C19.N", key, f.loc(exact[0][0].get("ln")), "mixed Integer/Real pairs are not all decided by an exact comparison before the common-type "
                       "cast (sites: %d, before the cast: %s, integer converted to float inside: %s): beyond 2^53 the order of an integer and a "
                       "real is not the order of their numeric values" % (len(exact), before, lossy)))
    return res


def op_local_(op):
    from cao.facts import op_local
    return op_local(op)


def rule_x(F):
    """C19.X: equality of numbers is exact. In `PartialEq for Value` the (Integer, Integer) and (Real, Real) arms are the
    payloads' own `==` on the two bound values and nothing else. A tolerance (|a - b| < eps) is not transitive - not an
    equivalence relation - makes inf != inf, and disagrees with Hash, which feeds the exact bits."""
    res = []
    f = impl_fn(F, "cmp::PartialEq", "value::Value", "eq")
    m = match_arms(f)
    if m is None:
        raise AnchorMissing("match in PartialEq for Value")
    n = 0
    for a in m["arms"]:
        alts = a["pat"]["pats"] if a["pat"].get("k") == "or" else [a["pat"]]
        for p in alts:
            if not (p.get("k") == "tuple" and len(p["pats"]) == 2):
                continue
            l = [x[0].rsplit("::", 1)[-1] for x in pat_variants(p["pats"][0])]
            r = [x[0].rsplit("::", 1)[-1] for x in pat_variants(p["pats"][1])]
            if l != r or l not in (["Integer"], ["Real"]):
                continue
            n += 1
            key = "C19/X/Value/(%s,%s)/exact-equality" % (l[0], r[0])
            binds = [i for i, _n in pat_bindings(p)]
            body = hir_strip(a["body"])
            while body is not None and body.get("k") == "block" and not body["block"]["stmts"] and body["block"].get("expr") is not None:
                body = hir_strip(body["block"]["expr"])

            def operand_local(e):
                e = hir_strip(e)
                while e is not None and e.get("k") in ("un", "addr_of", "cast") and (e.get("k") != "un" or e.get("op") == "Deref"):
                    e = hir_strip(e["e"])
                return hir_local_id(e) if e is not None else None
            good = False
            if body is not None and body.get("k") == "bin" and body.get("op") == "Eq":
                good = sorted([str(operand_local(body["l"])), str(operand_local(body["r"]))]) == sorted(map(str, binds))
            elif body is not None and body.get("k") == "mcall" and body.get("name") == "eq":
                good = sorted([str(operand_local(body["recv"])), str(operand_local(body["args"][0]))]) == sorted(map(str, binds))
            if good:
                res.append(ok("C19.X", key, f.loc(a.get("ln")), "payloads compared with =="))
            else:
                res.append(bad("C19.X", key, f.loc(a.get("ln")),
                               "the (%s, %s) arm of PartialEq for Value is not the payloads' own `==`: a tolerance or converted comparison is not "
                               "transitive (0.1+0.2 == 0.3 and 0.3 == 0.3+eps but not 0.1+0.2 == 0.3+eps), makes inf unequal to itself and "
                               "disagrees with Hash; Equals / NotEquals cards and table keys change their meaning" % (l[0], r[0])))
    if n < 2:
        raise AnchorMissing("same-kind numeric arms in PartialEq for Value (found %d)" % n)
    return res


def rule_c(F):
    """same-kind arms of `PartialOrd for Value` compare with the payload's own PartialOrd (the relation `==` of the same
    payload type is consistent with): Integer with i64::partial_cmp, Real with f64::partial_cmp. `total_cmp` orders -0.0
    before +0.0 and NaN after everything, while PartialEq says -0.0 == +0.0: equal values would be less/greater."""
    res = []
    f = impl_fn(F, "cmp::PartialOrd", "value::Value", "partial_cmp")
    m = match_arms(f)
    if m is None:
        raise AnchorMissing("match in PartialOrd for Value")
    n = 0
    for a in m["arms"]:
        alts = a["pat"]["pats"] if a["pat"].get("k") == "or" else [a["pat"]]
        for p in alts:
            if not (p.get("k") == "tuple" and len(p["pats"]) == 2):
                continue
            l = [x[0].rsplit("::", 1)[-1] for x in pat_variants(p["pats"][0])]
            r = [x[0].rsplit("::", 1)[-1] for x in pat_variants(p["pats"][1])]
            if l != r or l not in (["Integer"], ["Real"]):
                continue
            n += 1
            key = "C19/C/Value/(%s,%s)/ordered-by-the-payload-PartialOrd" % (l[0], r[0])
            calls = [y for y in hir_walk(a["body"]) if y.get("k") in ("mcall", "call", "bin") and hir_callee(y)]
            names = [c for y in calls for c in hir_callee(y)]
            good = any(c.endswith("PartialOrd::partial_cmp") for c in names)
            other = [c for c in names if c.rsplit("::", 1)[-1] in ("total_cmp", "cmp", "to_bits", "max", "min", "clamp")]
            if good and not other:
                res.append(ok("C19.C", key, f.loc(a.get("ln")), "compared with %s" % [c for c in names if c.endswith("partial_cmp")][-1]))
            else:
                res.append(bad("C19.C", key, f.loc(a.get("ln")),
                               "the (%s, %s) arm of PartialOrd for Value orders the payloads with %s instead of their own partial_cmp: the "
                               "ordering disagrees with `==` (f64::total_cmp puts -0.0 strictly before +0.0, which compare equal), so two equal "
                               "values are less/greater" % (l[0], r[0], [c.rsplit("::", 2)[-2] + "::" + c.rsplit("::", 1)[-1] for c in (other or names)][:2])))
    if n < 2:
        raise AnchorMissing("same-kind numeric arms in PartialOrd for Value (found %d)" % n)
    return res


def rule_o(F):
    res = []
    f = impl_fn(F, "cmp::PartialOrd", "vm::runtime::cao_lang_object::CaoLangObject", "partial_cmp")
    # Some(Equal) may only be produced by `<eq>.then_some(Equal)` / `if eq {Some(Equal)}`
    bad_sites = []
    good = False
    for x in hir_walk(f.hir["body"]):
        if x.get("k") == "mcall" and x["name"] == "then_some":
            recv = hir_strip(x["recv"])
            is_eq = recv.get("k") == "mcall" and recv["name"] == "eq" or (recv.get("k") == "bin" and recv["op"] == "Eq")
            arg = hir_strip(x["args"][0])
            is_equal = arg.get("k") == "path" and short(arg["path"]["res"].get("path", "")).endswith("Ordering::Equal")
            if is_equal and is_eq:
                good = True
            elif is_equal:
                bad_sites.append(x["ln"])
        if x.get("k") == "call" and any(n.endswith("::Some") for n in (hir_callee(x) + [short(hir_strip(x["f"]).get("path", {}).get("res", {}).get("path", ""))])):
            arg = hir_strip(x["args"][0])
            if arg.get("k") == "path" and short(arg["path"]["res"].get("path", "")).endswith("Ordering::Equal"):
                bad_sites.append(x["ln"])
        # `match res { Equal => None, _ => Some(res) }` : the Equal arm must not produce Some
        if x.get("k") == "match":
            for a in x["arms"]:
                names = [n for n, _s, _p in pat_variants(a["pat"])]
                if any(n.endswith("Ordering::Equal") for n in names):
                    b = hir_strip(a["body"])
                    if not (b.get("k") == "path" and short(b["path"]["res"].get("path", "")).endswith("::None")):
                        bad_sites.append(a.get("ln"))
                    else:
                        good = good or False
    if bad_sites:
        res.append(bad("C19.O", "C19/O/CaoLangObject/equal-only-when-eq", f.loc(bad_sites[0]), "partial_cmp can answer Some(Equal) for objects that eq considers different (equal length is not equality)"))
    elif good:
        res.append(ok("C19.O", "C19/O/CaoLangObject/equal-only-when-eq", f.loc(), "Some(Equal) is produced only by eq(..).then_some(Equal); equal-length unequal objects are incomparable"))
    else:
        res.append(undecided("C19.O", "C19/O/CaoLangObject/equal-only-when-eq", f.loc(), "shape of partial_cmp not recognised"))
    # Value::partial_cmp delegates objects to CaoLangObject::partial_cmp
    g = impl_fn(F, "cmp::PartialOrd", "value::Value", "partial_cmp")
    deleg = False
    for x in hir_walk(g.hir["body"]):
        if x.get("k") == "mcall" and x["name"] == "partial_cmp":
            c = x.get("callee", {})
            if "CaoLangObject" in " ".join((c.get("resolved_args") or []) + (c.get("args") or []) + [c.get("resolved", "")]):
                deleg = True
    if deleg:
        res.append(ok("C19.O", "C19/O/Value/objects-delegate", g.loc(), "Value::partial_cmp compares two objects with CaoLangObject::partial_cmp"))
    else:
        res.append(bad("C19.O", "C19/O/Value/objects-delegate", g.loc(), "Value::partial_cmp does not delegate object pairs to CaoLangObject::partial_cmp"))
    return res


def rule_z(F):
    from rules.c12 import rule_z as z12
    return [R("C19.Z", r["key"].replace("C12/Z", "C19/Z"), r["status"], r["loc"], r["msg"], **r["data"]) for r in z12(F)]


RULES = [
    Rule("C19.H", rule_h, 6, "hash never finer than eq (no pointer identity in the hasher)"),
    Rule("C19.T", rule_t, 1, "table equality and hash agree on row order"),
    Rule("C19.K", rule_k, 1, "a table's hash is computed from its current rows"),
    Rule("C19.N", rule_n, 1, "mixed integer/real ordering is exact (no i64 -> f64 rounding)"),
    Rule("C19.X", rule_x, 2, "equality of numbers is the payloads' exact =="),
    Rule("C19.C", rule_c, 2, "numbers are ordered by their payload's own PartialOrd (consistent with ==)"),
    Rule("C19.E", rule_e, 6, "eq answers true only for same-kind pairs"),
    Rule("C19.O", rule_o, 2, "ordering of objects never contradicts equality"),
    Rule("C19.Z", rule_z, 1, "hash 0 mapped away (shared with C12.Z)"),
]
