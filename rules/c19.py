"""C19 — Value equality, hashing and ordering are mutually coherent.

The algebraic laws quantify over values and are NOT decided in general. Claimed, as necessary structural conditions:

  C19.H  hash is never finer than eq: for every kind of value for which eq can be true (nil, integers, reals, strings,
         tables) the Hash impl feeds the hasher only with what eq compares; in particular no pointer identity (NonNull,
         raw pointer, as_ptr) reaches the hasher, and Value::hash of an object hashes the pointee, not the pointer.
  C19.E  eq arms are symmetric: the match on (self, other) can only answer true for same-kind pairs.
  C19.O  ordering never contradicts equality for objects: CaoLangObject::partial_cmp answers Some(Equal) only on the
         eq == true edge (decided by enumerating the paths of its HIR with the answer of eq(self, other) as the one
         tracked fact, whatever idiom the paths are written in).
  C19.N  mixed Integer/Real pairs are ordered by a comparator that converts neither side lossily: no `i64 as f64`, and
         `f64 as i64` only where a value-range analysis of its MIR proves the real non-NaN and inside [-2^63, 2^63).
  C19.Z  hash value 0 is mapped away (= C12.Z), so any value can be a table key.
"""
from cao.facts import (AnchorMissing, callee_names, short, hir_walk, hir_callee, hir_strip, hir_local_id, pat_variants, pat_bindings)
from cao.rules import Rule, ok, bad, undecided, note, R
from cao import hirutil as hu

EXPLANATION = (
    "Equal values must hash equally or table lookups miss. eq compares strings and tables by content, so the Hash impls "
    "must not let identity leak in. The rule walks the HIR of `impl Hash for Value` and `impl Hash for CaoLangObject`: in "
    "every arm whose kind eq can answer true for, each receiver of `.hash(state)` must have a non-pointer type and be "
    "derived from the content accessors eq uses (as_str, iter items, the scalar / to_bits); the Object arm of Value must "
    "dereference before hashing. C19.E reads the tuple patterns of the two PartialEq impls: an arm that can produce true "
    "must pair a variant with itself. C19.O checks that partial_cmp of objects builds Some(Equal) only from eq. The laws "
    "themselves (transitivity, antisymmetry over all value triples, NaN/signed-zero exceptions) are behavioural."
)
ASSUMPTIONS = ["str, i64 and u64 hash/eq coherently in std", "CaoLangTable::iter yields entries in insertion order for both operands (eq is order-sensitive by design)"]

POINTERISH = ("*mut ", "*const ", "std::ptr::NonNull<", "&std::ptr::NonNull<")


def impl_fn(F, trait_suffix, self_ty, method):
    for f in F.fns:
        r = f.raw
        if f.hir and not f.is_closure and f.name == method and short(r.get("impl_trait", "")).endswith(trait_suffix) and short(r.get("impl_self", "")) == self_ty:
            return f
    raise AnchorMissing("impl %s for %s" % (trait_suffix, self_ty))


def walk_with_helpers(F, root, stop=lambda name: False, depth=3):
    """pre-order walk over the HIR below `root` that also enters the bodies of the private helpers it calls: free functions
    and inherent methods of the crate (never trait impls - those are the operations the rules reason about - and never a
    callee `stop` names, the API a rule treats as primitive). Yields (node, line of the call in `root` it was reached
    through or the node's own line)."""
    seen = set()

    def rec(e, top, d):
        for x in hir_walk(e):
            ln = top if top is not None else x.get("ln")
            yield x, ln
            if d <= 0 or x.get("k") not in ("call", "mcall"):
                continue
            for n_ in hir_callee(x):
                if stop(n_):
                    break
                g = F.fn(n_, required=False)
                if g is None or not g.hir or g.is_closure or short(g.raw.get("impl_trait", "") or "") or g.short in seen:
                    continue
                seen.add(g.short)
                for y in rec(g.hir["body"], ln, d - 1):
                    yield y
    return rec(root, None, depth)


def table_api(name):
    return any(t in name for t in ("CaoLangTable::", "CaoHashMap::", "HandleTable::"))


def match_arms(f):
    """the principal match of an impl body: the user-written match with the most arms (a pre-match that peels off a special
    case, an if-let, or a `?` does not count)"""
    best = None
    for x in hir_walk(f.hir["body"]):
        if x.get("k") == "match" and not x.get("exp") and not (x.get("source") or "").startswith(("TryDesugar", "ForLoop", "IfLet", "WhileLet")):
            score = (sum(1 for a in x["arms"] if a["pat"].get("k") != "wild" and not a.get("guard")), len(x["arms"]))
            if best is None or score > best[0]:
                best = (score, x)
    return best[1] if best else None


EQ_TRUE_KINDS = {"value::Value": {"Nil", "Integer", "Real", "Object"},
                 "vm::runtime::cao_lang_object::CaoLangObject": {"Table", "String"}}


def rule_h(F):
    res = []
    for ty in ("value::Value", "vm::runtime::cao_lang_object::CaoLangObject"):
        f = impl_fn(F, "hash::Hash", ty, "hash")
        m = match_arms(f)
        if m is None:
            raise AnchorMissing("match in Hash for %s" % ty)
        tname = ty.rsplit("::", 1)[-1]
        for a in m["arms"]:
            kinds = [n.rsplit("::", 1)[-1] for n, _s, _p in pat_variants(a["pat"]) if "::" in n]
            for kind in kinds:
                if kind not in EQ_TRUE_KINDS[ty]:
                    continue
                key = "C19/H/%s::%s/hash-not-finer-than-eq" % (tname, kind)
                hashed = []
                for y, _ln in walk_with_helpers(F, a["body"], table_api):
                    if y.get("k") == "mcall" and y["name"] == "hash" and any(n.endswith("Hash::hash") for n in hir_callee(y)):
                        r = hir_strip(y["recv"])
                        hashed.append((r.get("ty", ""), r, y["ln"]))
                if not hashed and kind not in ("Nil",):
                    res.append(bad("C19.H", key, f.loc(a.get("ln")), "the %s arm of Hash for %s feeds nothing to the hasher" % (kind, tname)))
                    continue
                ptr = [(t, ln) for t, _r, ln in hashed if t.startswith(POINTERISH) or any(p in t for p in ("NonNull<", "*mut", "*const"))]
                via_as_ptr = any(z.get("k") == "mcall" and z["name"] in ("as_ptr", "addr", "as_mut_ptr") for _t, r, _ln in hashed for z in hir_walk(r))
                if ptr or via_as_ptr:
                    t0 = ptr[0] if ptr else ("as_ptr()", hashed[0][2])
                    res.append(bad("C19.H", key, f.loc(t0[1]),
                                   "Hash for %s hashes a pointer (%s) in the %s arm while eq compares contents: two equal %s values "
                                   "(e.g. two strings with the same text) hash differently, so a table lookup through an equal key misses" % (tname, t0[0], kind, kind.lower())))
                else:
                    res.append(ok("C19.H", key, f.loc(a.get("ln")), "hashes %s" % ", ".join(sorted(set(t for t, _r, _ln in hashed))) if hashed else "constant"))
    return res


def all_variant_names(p, out=None):
    """names of all enum variants mentioned anywhere in a pattern (tuple / reference patterns included)"""
    if out is None:
        out = []
    if isinstance(p, dict):
        if p.get("k") in ("tuple_struct", "struct", "path") and isinstance(p.get("path"), dict):
            r = p["path"].get("res", {})
            nm = short(r.get("path", "") or r.get("ctor_of", ""))
            if "::" in nm and (str(r.get("def_kind", "")).startswith(("Ctor", "Variant")) or r.get("ctor_of")):
                out.append(nm.rsplit("::", 1)[-1])
        for v in p.values():
            all_variant_names(v, out)
    elif isinstance(p, list):
        for v in p:
            all_variant_names(v, out)
    return out


def is_row_view(y):
    return y.get("k") == "mcall" and y["name"] in ("iter", "iter_mut", "keys", "values", "into_iter") and any(table_api(n_) for n_ in hir_callee(y))


def lockstep_walk(nodes):
    """a hand-written zip: a loop that advances two row iterators of the tables once per round - a `for` over one table's
    rows (or a `loop` / `while let`) whose body calls Iterator::next on a row iterator that was created *outside* the loop
    (one created inside would restart every round: a nested scan, not a pairwise walk). Returns the loop node or None."""
    iters = {}      # local id -> the let's init expression
    for x in nodes:
        if x.get("k") == "block":
            for st in x["block"]["stmts"]:
                if st["k"] == "let" and st.get("init") is not None and st["pat"].get("k") == "bind" and any(is_row_view(z) for z in hir_walk(st["init"])):
                    iters[st["pat"]["id"]] = st["init"]

    def advanced(loop):
        inside = list(hir_walk(loop))
        ids = set(id(z) for z in inside)
        out = set()
        for z in inside:
            if z.get("k") in ("mcall", "call") and any(n_.endswith("Iterator::next") for n_ in hir_callee(z)):
                recv = z["recv"] if z["k"] == "mcall" else (z["args"][0] if z["args"] else None)
                r = hir_strip(recv) if recv is not None else None
                while r is not None and r.get("k") == "addr_of":
                    r = hir_strip(r["e"])
                lid = hir_local_id(r) if r is not None else None
                if lid in iters and id(iters[lid]) not in ids:
                    out.add(lid)
        return out
    for x in nodes:
        if x.get("k") == "match" and x.get("source") == "ForLoopDesugar" and any(is_row_view(z) for z in hir_walk(x["scrut"])):
            for lp in hir_walk(x):
                if lp.get("k") == "loop" and advanced(lp):
                    return lp
        if x.get("k") == "loop" and len(advanced(x)) >= 2:
            return x
    return None


def rule_t(F):
    """tables: equality and hash treat the row order alike. Eq that compares the rows position by position (zip of the two
    iterators) is order-sensitive, eq that looks each row of one table up in the other is order-insensitive; a Hash that
    feeds the rows to one sequential hasher is order-sensitive. Order-insensitive eq with an order-sensitive hash makes
    equal tables hash differently."""
    res = []
    ty = "vm::runtime::cao_lang_object::CaoLangObject"
    key = "C19/T/CaoLangObject::Table/eq-and-hash-agree-on-row-order"
    fe = impl_fn(F, "cmp::PartialEq", ty, "eq")
    fh = impl_fn(F, "hash::Hash", ty, "hash")

    def table_arm(f):
        m = match_arms(f)
        if m is None:
            return None
        for a in m["arms"]:
            kinds = all_variant_names(a["pat"])
            if kinds and all(k == "Table" for k in kinds):
                return a
        return None
    ae, ah = table_arm(fe), table_arm(fh)
    if ae is None or ah is None:
        raise AnchorMissing("Table arms of PartialEq / Hash for CaoLangObject")
    eq_nodes = [y for y, _ln in walk_with_helpers(F, ae["body"], table_api)]
    hash_nodes = [y for y, _ln in walk_with_helpers(F, ah["body"], table_api)]
    zips = [y for y in eq_nodes if y.get("k") == "mcall" and y["name"] in ("zip", "eq", "cmp", "partial_cmp")
            and any(n.startswith("std::iter::Iterator::") for n in hir_callee(y))]
    lookups = [y for y in eq_nodes if y.get("k") == "mcall" and y["name"] in ("get", "get_mut", "contains", "contains_key")
               and any("CaoLangTable::" in n or "CaoHashMap::" in n for n in hir_callee(y))]
    lockstep = lockstep_walk(eq_nodes)
    if lookups:
        eq_kind = "order-insensitive (rows of one table are looked up in the other, line %s)" % lookups[0].get("ln")
        eq_ordered = False
    elif zips or lockstep:
        eq_kind = "order-sensitive (rows compared position by position)"
        eq_ordered = True
    else:
        return [undecided("C19.T", key, fe.loc(ae.get("ln")), "how table equality walks the rows was not recognised")]
    # hash: rows fed to the single hasher `state` inside a loop over iter()
    seq = False
    commut = False
    for y in hash_nodes:
        if y.get("k") == "mcall" and y["name"] == "hash" and any(n.endswith("Hash::hash") for n in hir_callee(y)):
            seq = True
        if y.get("k") in ("bin", "assign_op") and y.get("op") in ("BitXor", "BitXorAssign") or \
                (y.get("k") == "mcall" and y["name"] in ("wrapping_add", "wrapping_mul")):
            commut = True
    if commut:
        return [undecided("C19.T", key, fh.loc(ah.get("ln")), "the table hash combines per-row values; order sensitivity not decided")]
    if not seq:
        return [undecided("C19.T", key, fh.loc(ah.get("ln")), "the table hash feeds nothing recognisable to the hasher")]
    # both walk the same view of the rows: a position-by-position eq over the insertion-ordered iterator and a sequential
    # hash over the hash part's bucket order disagree as soon as two equal tables have different capacities
    def row_views(nodes):
        out = set()
        for y in nodes:
            if y.get("k") == "mcall" and y["name"] in ("iter", "iter_mut", "keys", "values", "into_iter"):
                for n_ in hir_callee(y):
                    if "CaoLangTable::" in n_ or "CaoHashMap::" in n_ or "HandleTable::" in n_:
                        out.add(n_.rsplit("<", 1)[0])
        return out
    ve, vh = row_views(eq_nodes), row_views(hash_nodes)
    if eq_ordered and ve and vh and not (vh <= ve):
        return [bad("C19.T", key, fh.loc(ah.get("ln")),
                    "table equality compares the rows in the order of %s, the table hash feeds them to the hasher in the order of %s: "
                    "the bucket order of the hash part depends on the table's capacity history, which is not part of its value, so two "
                    "tables that compare equal hash differently (a row stored under one is not found under the other)"
                    % (sorted(x.rsplit("::", 2)[-2] + "::" + x.rsplit("::", 1)[-1] for x in ve), sorted(x.rsplit("::", 2)[-2] + "::" + x.rsplit("::", 1)[-1] for x in vh)))]
    if eq_ordered:
        res.append(ok("C19.T", key, fe.loc(ae.get("ln")), "eq is %s, the hash feeds the rows in the same order to one hasher" % eq_kind))
    else:
        res.append(bad("C19.T", key, fe.loc(ae.get("ln")),
                       "table equality is %s but Hash for CaoLangObject feeds the rows to one sequential hasher in insertion order: two "
                       "tables with the same rows inserted in a different order compare equal and hash differently, so one does not find "
                       "the row stored under the other as a table key" % eq_kind))
    return res


def rule_e(F):
    res = []
    for ty in ("value::Value", "vm::runtime::cao_lang_object::CaoLangObject"):
        f = impl_fn(F, "cmp::PartialEq", ty, "eq")
        m = match_arms(f)
        tname = ty.rsplit("::", 1)[-1]
        if m is None:
            raise AnchorMissing("match in PartialEq for %s" % ty)
        n = 0
        for a in m["arms"]:
            body = hir_strip(a["body"])
            is_false = body.get("k") == "lit" and body["lit"].get("v") is False
            alts = a["pat"]["pats"] if a["pat"].get("k") == "or" else [a["pat"]]
            for p in alts:
                if p.get("k") == "tuple" and len(p["pats"]) == 2:
                    l = [x[0].rsplit("::", 1)[-1] for x in pat_variants(p["pats"][0])]
                    r = [x[0].rsplit("::", 1)[-1] for x in pat_variants(p["pats"][1])]
                    n += 1
                    key = "C19/E/%s/(%s,%s)" % (tname, "|".join(l), "|".join(r))
                    if is_false or l == r:
                        res.append(ok("C19.E", key, f.loc(a.get("ln")), "same-kind arm" if l == r else "answers false"))
                    else:
                        res.append(bad("C19.E", key, f.loc(a.get("ln")),
                                       "eq can answer true for a (%s, %s) pair, but Hash for %s feeds each kind to the hasher in its own "
                                       "representation: two values that compare equal hash differently (a row stored under one is not found "
                                       "under the other), and a comparison through a lossy conversion is not transitive" % (l, r, tname)))
                elif p.get("k") == "wild":
                    key = "C19/E/%s/otherwise" % tname
                    if is_false:
                        res.append(ok("C19.E", key, f.loc(a.get("ln")), "all mixed-kind pairs are unequal"))
                    else:
                        res.append(bad("C19.E", key, f.loc(a.get("ln")), "the catch-all arm of eq does not answer false"))
        if n < 2:
            raise AnchorMissing("tuple arms in PartialEq for %s" % ty)
    return res


def rule_k(F):
    """C19.K: a table's hash is a function of its *current* contents, all the way down. The Table arm of
    `Hash for CaoLangObject` walks the rows (a loop over the table's row iterator) and feeds every key and every value to
    the hasher at the time of the call. A hash taken from a stored field / memo of the table goes stale when a table nested
    inside it changes (the outer table is not touched by that), so two tables that compare equal hash differently."""
    res = []
    ty = "vm::runtime::cao_lang_object::CaoLangObject"
    key = "C19/K/CaoLangObject::Table/hash-walks-the-current-rows"
    fh = impl_fn(F, "hash::Hash", ty, "hash")
    m = match_arms(fh)
    arm = None
    for a in (m["arms"] if m else []):
        kinds = all_variant_names(a["pat"])
        if kinds and all(k_ == "Table" for k_ in kinds):
            arm = a
    if arm is None:
        raise AnchorMissing("Table arm of Hash for CaoLangObject")
    nodes = [y for y, _ln in walk_with_helpers(F, arm["body"], table_api)]
    loops = [y for y in nodes if y.get("k") == "match" and y.get("source") == "ForLoopDesugar"]
    walked = False
    for lp in loops:
        head = lp.get("e") or lp.get("scrut") or {}
        over_rows = any(z.get("k") == "mcall" and z["name"] in ("iter", "keys", "values") and
                        any("CaoLangTable::" in n_ or "CaoHashMap::" in n_ for n_ in hir_callee(z)) for z in hir_walk(head))
        hashes = [z for z in hir_walk(lp) if z.get("k") == "mcall" and z["name"] == "hash" and any(n_.endswith("Hash::hash") for n_ in hir_callee(z))]
        if over_rows and len(hashes) >= 2:
            walked = True
    memo = [z for z in nodes if z.get("k") == "mcall" and any("CaoLangTable::" in n_ for n_ in hir_callee(z))
            and z["name"] not in ("iter", "keys", "values", "len", "is_empty")]
    if walked and not memo:
        res.append(ok("C19.K", key, fh.loc(arm.get("ln")), "the rows are walked and every key and value is hashed at call time"))
    else:
        res.append(bad("C19.K", key, fh.loc(arm.get("ln")),
                       "the Table arm of Hash for CaoLangObject does not walk the rows at the time of the call (it feeds %s to the hasher): a "
                       "stored / memoised content hash is not reset when a table nested inside this one changes, so after such a change the "
                       "table hashes differently from an equal table built afresh - equal values no longer hash equally"
                       % (("the result of CaoLangTable::%s" % memo[0]["name"]) if memo else "something else than the rows")))
    return res


class _RGiveUp(Exception):
    pass


INT_RANGES = {"i8": (-2.0 ** 7, 2.0 ** 7), "i16": (-2.0 ** 15, 2.0 ** 15), "i32": (-2.0 ** 31, 2.0 ** 31), "i64": (-2.0 ** 63, 2.0 ** 63),
              "i128": (-2.0 ** 127, 2.0 ** 127), "isize": (-2.0 ** 63, 2.0 ** 63),
              "u8": (-1.0, 2.0 ** 8), "u16": (-1.0, 2.0 ** 16), "u32": (-1.0, 2.0 ** 32), "u64": (-1.0, 2.0 ** 64), "usize": (-1.0, 2.0 ** 64),
              "u128": (-1.0, 2.0 ** 128)}
F64_ROUNDERS = {"trunc", "floor", "ceil", "round", "round_ties_even"}


def _fmt_f(x):
    import math
    if math.isinf(x):
        return "-inf" if x < 0 else "+inf"
    for e in (63, 64, 53, 31, 32):
        for sg in (1, -1):
            if x == sg * 2.0 ** e:
                return "%s2^%d" % ("-" if sg < 0 else "", e)
            if x == math.nextafter(sg * 2.0 ** e, 0.0):
                return "%s2^%d (exclusive)" % ("-" if sg < 0 else "", e)
    return repr(x)


class _FloatRange:
    """Path-sensitive value-range analysis of the float operands of a small comparison helper, on its MIR.

    Every local holds a symbolic term over the arguments: ("arg", n), ("c", float), ("op", trunc|floor|..|neg|abs, t),
    ("cmp", Lt|Le|Gt|Ge|Eq|Ne, a, b), ("isnan", t), ("not", t), ("unk", n). References are transparent. A path carries
    closed float intervals + a may-be-NaN bit for the terms it has tested (`r >= C`, `!(r < C)`, `r.is_nan()`, `r != r`,
    `r.abs() < C` ...), refined at every `switch`. Local callees are inlined. At every float -> int cast the range of the
    operand on that path is compared with the range in which the cast is exact (it saturates outside, NaN becomes 0).
    Terms the analysis does not understand are 'approximate': a failure that rests on one is reported as undecided."""

    def __init__(self, F):
        import math
        self.F = F
        self.math = math
        self.sites = {}     # (fn short path, block, stmt) -> list of (verdict ok|bad|approx, line, text)
        self.unk = 0
        self.paths = 0

    # ---- intervals: (lo, hi, may_nan, exact)
    TOP = (float("-inf"), float("inf"), True, True)

    def fresh(self):
        self.unk += 1
        return ("unk", self.unk)

    def interval(self, t, cons):
        base = self._interval(t, cons)
        c = cons.get(t)
        if c is None:
            return base
        # a bound established by a test is real, but a term the analysis does not model stays approximate whatever was tested
        return (max(base[0], c[0]), min(base[1], c[1]), base[2] and c[2], base[3])

    def _interval(self, t, cons):
        m = self.math
        k = t[0]
        if k == "c":
            if t[1] != t[1]:
                return (float("inf"), float("-inf"), True, True)
            return (t[1], t[1], False, True)
        if k == "arg":
            return self.TOP
        if k == "op":
            lo, hi, nan, ex = self.interval(t[2], cons)
            f = t[1]
            if lo > hi:
                return (lo, hi, nan, ex)
            if f in F64_ROUNDERS:
                g = {"trunc": m.trunc, "floor": m.floor, "ceil": m.ceil}.get(f)

                def app(x):
                    if m.isinf(x):
                        return x
                    if g is not None:
                        return float(g(x))
                    return float(m.floor(x)) if x < 0 else float(m.ceil(x))  # round*: at most one unit outwards
                if f in ("round", "round_ties_even"):
                    return (float(m.floor(lo)) if not m.isinf(lo) else lo, float(m.ceil(hi)) if not m.isinf(hi) else hi, nan, ex)
                return (app(lo), app(hi), nan, ex)
            if f == "neg":
                return (-hi, -lo, nan, ex)
            if f == "abs":
                if lo >= 0:
                    return (lo, hi, nan, ex)
                if hi <= 0:
                    return (-hi, -lo, nan, ex)
                return (0.0, max(-lo, hi), nan, ex)
        if k == "minmax":
            a, b = self.interval(t[2], cons), self.interval(t[3], cons)
            # f64::min / max ignore a NaN operand
            if t[1] == "min":
                return (min(a[0], b[0]), min(a[1], b[1]) if not (a[2] or b[2]) else max(a[1], b[1]), a[2] and b[2], a[3] and b[3])
            return (max(a[0], b[0]) if not (a[2] or b[2]) else min(a[0], b[0]), max(a[1], b[1]), a[2] and b[2], a[3] and b[3])
        return (float("-inf"), float("inf"), True, False)

    def refine(self, t, lo, hi, nan, cons):
        """intersect the range of term t with [lo, hi] / NaN-ness; None if the path is infeasible. Simple inverse images
        are propagated to the operand (neg, abs upper bounds, rounding functions with integral bounds)."""
        cur = self.interval(t, cons)
        nlo, nhi, nnan = max(cur[0], lo), min(cur[1], hi), cur[2] and nan
        if nlo > nhi and not nnan:
            return None
        cons = dict(cons)
        cons[t] = (nlo, nhi, nnan, True)
        if t[0] == "op":
            f, x = t[1], t[2]
            if f == "neg":
                return self.refine(x, -hi, -lo, nan, cons)
            if f == "abs":
                return self.refine(x, -hi, hi, nan, cons)
            if f in F64_ROUNDERS and not nan:
                return self.refine(x, float("-inf"), float("inf"), False, cons)
        return cons

    def assume(self, t, truth, cons):
        """-> (cons or None if infeasible, understood)"""
        m = self.math
        inf = float("inf")
        k = t[0]
        if k == "cb":
            return (cons if bool(t[1]) == truth else None), True
        if k == "not":
            return self.assume(t[1], not truth, cons)
        if k == "isnan":
            if truth:
                return self.refine(t[1], inf, -inf, True, cons), True
            return self.refine(t[1], -inf, inf, False, cons), True
        if k == "cmp":
            op, a, b = t[1], t[2], t[3]
            if a == b:
                if op in ("Lt", "Gt"):      # x < x is never true
                    return (None if truth else cons), True
                number = truth == (op in ("Eq", "Le", "Ge"))    # x == x / x <= x  <=>  x is not NaN;  x != x  <=>  NaN
                return (self.refine(a, -inf, inf, False, cons) if number else self.refine(a, inf, -inf, True, cons)), True
            ia, ib = self.interval(a, cons), self.interval(b, cons)
            if ib[0] == ib[1] and not ib[2] and ib[3]:
                x, c = a, ib[0]
            elif ia[0] == ia[1] and not ia[2] and ia[3]:
                x, c = b, ia[0]
                op = {"Lt": "Gt", "Le": "Ge", "Gt": "Lt", "Ge": "Le"}.get(op, op)
            else:
                return cons, False
            if not truth:
                if op in ("Eq", "Ne"):
                    op = {"Eq": "Ne", "Ne": "Eq"}[op]
                    nan_ok = op == "Ne"
                else:
                    op = {"Lt": "Ge", "Le": "Gt", "Gt": "Le", "Ge": "Lt"}[op]
                    nan_ok = True       # !(x < c) also holds for NaN
            else:
                nan_ok = op == "Ne"
            if op == "Lt":
                return self.refine(x, -inf, m.nextafter(c, -inf), nan_ok, cons), True
            if op == "Le":
                return self.refine(x, -inf, c, nan_ok, cons), True
            if op == "Gt":
                return self.refine(x, m.nextafter(c, inf), inf, nan_ok, cons), True
            if op == "Ge":
                return self.refine(x, c, inf, nan_ok, cons), True
            if op == "Eq":
                return self.refine(x, c, c, nan_ok, cons), True
            return cons, True   # x != c: no interval information
        return cons, False

    # ---- execution
    def operand(self, op, loc):
        k = op.get("k")
        if k == "const":
            if "fval" in op:
                return ("c", float(op["fval"]))
            if op.get("ty") == "bool" and "val" in op:
                return ("cb", bool(op["val"]))
            if isinstance(op.get("val"), int):
                return ("ci", op["val"])
            return self.fresh()
        pl = op.get("place")
        if pl is None:
            return self.fresh()
        if any(e["k"] != "deref" for e in pl["p"]):
            return self.fresh()
        return loc.get(pl["l"]) or self.fresh()

    def is_float_ty(self, ty):
        return ty in ("f64", "f32")

    def rvalue(self, fn, bi, si, st, loc, cons, approx):
        rv = st["rv"]
        k = rv["k"]
        if k == "use":
            return self.operand(rv["op"], loc)
        if k in ("ref", "rawptr"):
            pl = rv["place"]
            if any(e["k"] != "deref" for e in pl["p"]):
                return self.fresh()
            return loc.get(pl["l"]) or self.fresh()
        if k == "cast":
            x = self.operand(rv["op"], loc)
            self.consume(x, cons, approx)
            if rv.get("kind") == "FloatToInt":
                # judged where the converted value is consumed: on a path that leaves without looking at it the cast is harmless
                self.sites.setdefault((fn.short, bi, si), []).append(("seen", st.get("ln"), ""))
                return ("castfi", x, rv.get("ty", ""), (fn.short, bi, si), st.get("ln"))
            if rv.get("kind") == "FloatToFloat" and rv.get("ty") == "f64":
                return x
            return self.fresh()
        if k == "bin":
            a, b = self.operand(rv["l"], loc), self.operand(rv["r"], loc)
            self.consume(a, cons, approx)
            self.consume(b, cons, approx)
            if rv["op"] in ("Lt", "Le", "Gt", "Ge", "Eq", "Ne"):
                return ("cmp", rv["op"], a, b)
            return self.fresh()
        if k == "un":
            x = self.operand(rv["x"], loc)
            self.consume(x, cons, approx)
            if rv["op"] == "Neg":
                if x[0] == "c":
                    return ("c", -x[1])
                return ("op", "neg", x)
            if rv["op"] == "Not":
                return ("not", x)
        for o in (rv.get("ops") or []):
            self.consume(self.operand(o, loc), cons, approx)
        return self.fresh()

    def consume(self, t, cons, approx):
        """the value of term t is looked at here (compared, computed with, passed on, returned)"""
        if t[0] == "castfi":
            self.check_cast(t[3], t[4], t[1], t[2], cons, approx)

    def check_cast(self, key, ln, x, ty, cons, approx):
        rng = INT_RANGES.get(ty)
        lo, hi, nan, exact = self.interval(x, cons)
        if rng is None:
            self.sites.setdefault(key, []).append(("approx", ln, "cast to %s" % ty))
            return
        if lo > hi and not nan:
            return
        problems = []
        if lo <= hi and hi >= rng[1]:
            problems.append("values >= %s saturate to %s::MAX" % (_fmt_f(rng[1]), ty))
        if lo <= hi and lo < rng[0] and not (ty.startswith("u") and lo > -1.0):
            problems.append("values < %s saturate to %s::MIN" % (_fmt_f(rng[0]) if not ty.startswith("u") else "0", ty))
        if nan:
            problems.append("NaN becomes 0")
        if not problems:
            self.sites.setdefault(key, []).append(("ok", ln, "operand within [%s, %s]" % (_fmt_f(lo), _fmt_f(hi))))
        else:
            txt = "the operand of `as %s` can be anywhere in [%s, %s]%s: %s" % (ty, _fmt_f(lo), _fmt_f(hi), " or NaN" if nan else "", "; ".join(problems))
            self.sites.setdefault(key, []).append(("bad" if exact and not approx else "approx", ln, txt))

    def run_fn(self, fn, args, cons, approx, depth, stack=()):
        """-> list of (return term, cons, approx)"""
        if fn.mir is None:
            raise _RGiveUp("no MIR for %s" % fn.short)
        loc0 = {}
        for n, a in enumerate(args):
            loc0[n + 1] = a
        outs = []
        work = [(0, loc0, cons, approx, frozenset())]
        while work:
            bi, loc, cons, approx, seen = work.pop()
            self.paths += 1
            if self.paths > 5000:
                raise _RGiveUp("too many paths")
            if bi in seen:
                raise _RGiveUp("loop in %s" % fn.short)
            seen = seen | {bi}
            b = fn.blocks[bi]
            loc = dict(loc)
            for si, st in enumerate(b["stmts"]):
                if st["k"] != "assign":
                    continue
                v = self.rvalue(fn, bi, si, st, loc, cons, approx)
                if not st["place"]["p"]:
                    loc[st["place"]["l"]] = v
                else:
                    self.consume(v, cons, approx)       # stored into a part of something: not followed further
                    loc[st["place"]["l"]] = self.fresh()
            t = b["term"]
            k = t["k"]
            if k == "return":
                if depth == 0 and loc.get(0):
                    self.consume(loc[0], cons, approx)
                outs.append((loc.get(0) or self.fresh(), cons, approx))
            elif k == "goto":
                work.append((t["target"], loc, cons, approx, seen))
            elif k in ("drop", "assert"):
                work.append((t["target"], loc, cons, approx, seen))
            elif k == "switch":
                d = self.operand(t["discr"], loc)
                self.consume(d, cons, approx)
                isbool = t.get("discr_ty") == "bool"
                listed = []
                for v, bb in t["targets"]:
                    if isbool:
                        c2, und = self.assume(d, bool(v), cons)
                        if c2 is not None:
                            work.append((bb, loc, c2, approx or not und, seen))
                        listed.append(bool(v))
                    else:
                        work.append((bb, loc, cons, True, seen))
                if isbool and len(set(listed)) == 1:
                    c2, und = self.assume(d, not listed[0], cons)
                    if c2 is not None:
                        work.append((t["otherwise"], loc, c2, approx or not und, seen))
                elif not (isbool and len(set(listed)) == 2):
                    work.append((t["otherwise"], loc, cons, True, seen))
            elif k == "call":
                names = callee_names(t["func"])
                argv = [self.operand(a, loc) for a in t["args"]]
                if t.get("target") is None:
                    continue
                for v, c2, ap2 in self.call(names, argv, t, cons, approx, depth, stack + (fn.short,)):
                    l2 = dict(loc)
                    if not t["dest"]["p"]:
                        l2[t["dest"]["l"]] = v
                    work.append((t["target"], l2, c2, ap2, seen))
            elif k in ("unreachable", "resume", "abort"):
                continue
            else:
                raise _RGiveUp("terminator %s in %s" % (k, fn.short))
        return outs

    def call(self, names, argv, t, cons, approx, depth, stack):
        inl = None
        for n in names:
            g = self.F.fn(n, required=False)
            if g is not None and g.mir is not None and not g.is_closure:
                inl = g
        if inl is None:     # an inlined callee consumes (or not) on its own paths
            for a in argv:
                self.consume(a, cons, approx)
        last = set(n.rsplit("::", 1)[-1] for n in names)
        is_f = any(n.startswith(("core::f64::", "std::f64::", "core::f32::", "std::f32::")) for n in names)
        if is_f and len(argv) == 1:
            if "is_nan" in last:
                return [(("isnan", argv[0]), cons, approx)]
            for f in F64_ROUNDERS | {"abs"}:
                if f in last:
                    return [(("op", f, argv[0]), cons, approx)]
        if is_f and len(argv) == 2 and last & {"min", "max"}:
            return [(("minmax", "min" if "min" in last else "max", argv[0], argv[1]), cons, approx)]
        if is_f and len(argv) == 3 and "clamp" in last:
            return [(("minmax", "min", ("minmax", "max", argv[0], argv[1]), argv[2]), cons, approx)]
        for n in names:
            g = self.F.fn(n, required=False)
            if g is not None and g.mir is not None and not g.is_closure:
                if depth >= 3 or g.short in stack:
                    raise _RGiveUp("call depth at %s" % g.short)
                return self.run_fn(g, argv, cons, approx, depth + 1, stack)
        return [(self.fresh(), cons, approx)]


def rule_n(F):
    """C19.N: integers and reals are ordered by numeric value. An i64 converted to f64 is rounded beyond 2^53, so a mixed
    comparison that converts the integer side is wrong there (2^53+1 compares Equal to 2^53.0); an f64 converted to i64
    saturates outside [-2^63, 2^63) and turns NaN into 0, so a mixed comparison that converts the real side is wrong there
    unless those reals were decided before the conversion (i64::MAX would compare Equal to 1e19). In `PartialOrd for Value`
    the mixed pairs (a Real on exactly one side) are decided before the common-type cast, by a comparator that takes the
    integer as an integer, never converts it to a float, and converts the real to an integer only on paths where the
    value-range of the real (established by the tests that dominate the cast) makes the cast exact."""
    from cao.facts import DefUse
    res = []
    f = impl_fn(F, "cmp::PartialOrd", "value::Value", "partial_cmp")
    key = "C19/N/Value/mixed-integer-real-order-is-exact"
    exact = []
    top_line = {}

    def is_comparator(n_):
        g = F.fn(n_, required=False)
        return g is not None and g.hir and g.mir and sorted(p_.get("ty") or "" for p_ in g.hir.get("params", [])) == ["f64", "i64"]
    # the comparator may be called from partial_cmp itself, from a closure in it or from a private helper it delegates the
    # mixed pairs to; `top_line` is the line in partial_cmp through which a site is reached
    reached = list(walk_with_helpers(F, f.hir["body"], lambda n_: is_comparator(n_) or n_.endswith("try_cast_match")))
    for y, ln in reached:
        if y.get("k") in ("call", "mcall"):
            for n_ in hir_callee(y):
                if is_comparator(n_):
                    exact.append((y, F.fn(n_)))
                    top_line[id(y)] = ln
                    break
    if not exact:
        return [bad("C19.N", key, f.loc(), "PartialOrd for Value decides mixed Integer/Real pairs only after converting both operands to a common "
                    "type: the integer side goes through `as f64`, which rounds beyond 2^53, so Integer(2^53+1) compares Equal to Real(2^53) - "
                    "the two kinds are not ordered by numeric value")]
    # both orders handled, before the cast
    casts = [ln for y, ln in reached if y.get("k") in ("call", "mcall") and any(n_.endswith("try_cast_match") for n_ in hir_callee(y))]
    before = all((top_line[id(y)] or 0) < (c or 10 ** 9) for y, _g in exact for c in casts)
    g = exact[0][1]
    lossy = False
    ipar = next((i + 1 for i, p_ in enumerate(g.hir["params"]) if p_.get("ty") == "i64"), None)
    du = DefUse(g)
    for b in g.blocks:
        for st in b["stmts"]:
            if st["k"] == "assign" and st["rv"]["k"] == "cast" and st["rv"].get("kind") == "IntToFloat":
                l = op_local_(st["rv"]["op"])
                kind, payload = du.trace_back(l) if l is not None else (None, None)
                if (kind == "arg" and payload == ipar) or l == ipar:
                    lossy = True
    if len(exact) >= 2 and before and not lossy:
        res.append(ok("C19.N", key, f.loc(top_line[id(exact[0][0])]), "both mixed orders go to %s(i64, f64) before the common-type cast; it never converts the integer to a float" % g.name))
    else:
        res.append(bad("C19.N", key, f.loc(top_line[id(exact[0][0])]), "mixed Integer/Real pairs are not all decided by an exact comparison before the common-type "
                       "cast (sites: %d, before the cast: %s, integer converted to float inside: %s): beyond 2^53 the order of an integer and a "
                       "real is not the order of their numeric values" % (len(exact), before, lossy)))
    # the real side: every float -> int cast the comparator performs (itself or in the local functions it calls) is exact
    done = set()
    for _y, g in exact:
        if g.short in done:
            continue
        done.add(g.short)
        res.append(real_side_exact(F, g))
    return res


def _float_to_int_sites(fn):
    out = []
    for bi, b in enumerate(fn.blocks):
        for si, st in enumerate(b["stmts"]):
            if st["k"] == "assign" and st["rv"]["k"] == "cast" and st["rv"].get("kind") == "FloatToInt":
                out.append((fn.short, bi, si, st.get("ln")))
    return out


def real_side_exact(F, g):
    """one result for comparator g(i64, f64): all float -> int casts reachable from it are performed on in-range operands"""
    key = "C19/N/%s/real-converted-to-integer-only-where-exact" % g.name
    # every cast site that can run on behalf of g: g, its closures, the local functions reachable from it
    fns = {g.short: g}
    for n_ in F.callgraph.reach(g.short):
        h = F.fn(n_, required=False)
        if h is not None and h.mir is not None:
            fns[h.short] = h
    for h in F.fns:
        if h.is_closure and h.mir is not None and (h.root in fns or h.parent in fns):
            fns[h.short] = h
    want = [s_ for h in fns.values() for s_ in _float_to_int_sites(h)]
    an = _FloatRange(F)
    try:
        an.run_fn(g, [("arg", n + 1) for n in range(g.mir["arg_count"])], {}, False, 0)
    except _RGiveUp as ex:
        return undecided("C19.N", key, g.loc(), "value-range analysis of %s gave up: %s" % (g.name, ex))
    verdicts = []
    for (fs, bi, si, ln) in want:
        v = an.sites.get((fs, bi, si))
        if not v:
            verdicts.append(("approx", ln, "the float -> int cast at %s line %s is not on a path the analysis followed" % (fs, ln)))
        elif all(x[0] == "seen" for x in v):
            verdicts.append(("ok", ln, "the converted value is never looked at"))
        else:
            verdicts.extend(x for x in v if x[0] != "seen")
    badv = [v for v in verdicts if v[0] == "bad"]
    apx = [v for v in verdicts if v[0] == "approx"]
    if badv:
        v = badv[0]
        why = []
        if "saturate" in v[2]:
            why.append("a real outside the i64 range then lands ON the extreme integer instead of beyond it: Integer(i64::MAX) compares Equal to "
                       "Real(2^63), Real(1e19), Real(1e30) (and is incomparable with +inf) instead of Less, likewise i64::MIN against reals "
                       "below -2^63 - integers and reals are not ordered by numeric value, and i64::MAX is order-Equal to both of 1e19 < 1e30")
        if "NaN becomes 0" in v[2]:
            why.append("NaN is compared as if it were 0: Integer(1) is ordered Greater than Real(NaN)")
        return bad("C19.N", key, g.loc(v[1]), "%s(i64, f64) converts the real to an integer where the conversion is not exact: %s. %s"
                   % (g.name, v[2], "; ".join(why)))
    if apx:
        v = apx[0]
        return undecided("C19.N", key, g.loc(v[1]), "exactness of a float -> int conversion in %s not established: %s" % (g.name, v[2]))
    if not want:
        return ok("C19.N", key, g.loc(), "%s performs no float -> int conversion" % g.name)
    oks = [v for v in verdicts if v[0] == "ok"]
    return ok("C19.N", key, g.loc(oks[0][1] if oks else None), "%d float -> int cast(s), each dominated by range tests that make it exact (%s)" % (len(want), oks[0][2] if oks else ""))


def op_local_(op):
    from cao.facts import op_local
    return op_local(op)


def rule_x(F):
    """C19.X: equality of numbers is exact. In `PartialEq for Value` the (Integer, Integer) and (Real, Real) arms are the
    payloads' own `==` on the two bound values and nothing else. A tolerance (|a - b| < eps) is not transitive - not an
    equivalence relation - makes inf != inf, and disagrees with Hash, which feeds the exact bits."""
    res = []
    f = impl_fn(F, "cmp::PartialEq", "value::Value", "eq")
    m = match_arms(f)
    if m is None:
        raise AnchorMissing("match in PartialEq for Value")
    n = 0
    for a in m["arms"]:
        alts = a["pat"]["pats"] if a["pat"].get("k") == "or" else [a["pat"]]
        for p in alts:
            if not (p.get("k") == "tuple" and len(p["pats"]) == 2):
                continue
            l = [x[0].rsplit("::", 1)[-1] for x in pat_variants(p["pats"][0])]
            r = [x[0].rsplit("::", 1)[-1] for x in pat_variants(p["pats"][1])]
            if l != r or l not in (["Integer"], ["Real"]):
                continue
            n += 1
            key = "C19/X/Value/(%s,%s)/exact-equality" % (l[0], r[0])
            binds = [i for i, _n in pat_bindings(p)]
            body = hir_strip(a["body"])
            while body is not None and body.get("k") == "block" and not body["block"]["stmts"] and body["block"].get("expr") is not None:
                body = hir_strip(body["block"]["expr"])

            def operand_local(e):
                e = hir_strip(e)
                while e is not None and e.get("k") in ("un", "addr_of", "cast") and (e.get("k") != "un" or e.get("op") == "Deref"):
                    e = hir_strip(e["e"])
                return hir_local_id(e) if e is not None else None
            good = False
            if body is not None and body.get("k") == "bin" and body.get("op") == "Eq":
                good = sorted([str(operand_local(body["l"])), str(operand_local(body["r"]))]) == sorted(map(str, binds))
            elif body is not None and body.get("k") == "mcall" and body.get("name") == "eq":
                good = sorted([str(operand_local(body["recv"])), str(operand_local(body["args"][0]))]) == sorted(map(str, binds))
            if good:
                res.append(ok("C19.X", key, f.loc(a.get("ln")), "payloads compared with =="))
            else:
                res.append(bad("C19.X", key, f.loc(a.get("ln")),
                               "the (%s, %s) arm of PartialEq for Value is not the payloads' own `==`: a tolerance or converted comparison is not "
                               "transitive (0.1+0.2 == 0.3 and 0.3 == 0.3+eps but not 0.1+0.2 == 0.3+eps), makes inf unequal to itself and "
                               "disagrees with Hash; Equals / NotEquals cards and table keys change their meaning" % (l[0], r[0])))
    if n < 2:
        raise AnchorMissing("same-kind numeric arms in PartialEq for Value (found %d)" % n)
    return res


def rule_c(F):
    """same-kind arms of `PartialOrd for Value` compare with the payload's own PartialOrd (the relation `==` of the same
    payload type is consistent with): Integer with i64::partial_cmp, Real with f64::partial_cmp. `total_cmp` orders -0.0
    before +0.0 and NaN after everything, while PartialEq says -0.0 == +0.0: equal values would be less/greater."""
    res = []
    f = impl_fn(F, "cmp::PartialOrd", "value::Value", "partial_cmp")
    m = match_arms(f)
    if m is None:
        raise AnchorMissing("match in PartialOrd for Value")
    n = 0
    for a in m["arms"]:
        alts = a["pat"]["pats"] if a["pat"].get("k") == "or" else [a["pat"]]
        for p in alts:
            if not (p.get("k") == "tuple" and len(p["pats"]) == 2):
                continue
            l = [x[0].rsplit("::", 1)[-1] for x in pat_variants(p["pats"][0])]
            r = [x[0].rsplit("::", 1)[-1] for x in pat_variants(p["pats"][1])]
            if l != r or l not in (["Integer"], ["Real"]):
                continue
            n += 1
            key = "C19/C/Value/(%s,%s)/ordered-by-the-payload-PartialOrd" % (l[0], r[0])
            calls = [y for y in hir_walk(a["body"]) if y.get("k") in ("mcall", "call", "bin") and hir_callee(y)]
            names = [c for y in calls for c in hir_callee(y)]
            good = any(c.endswith("PartialOrd::partial_cmp") for c in names)
            other = [c for c in names if c.rsplit("::", 1)[-1] in ("total_cmp", "cmp", "to_bits", "max", "min", "clamp")]
            if good and not other:
                res.append(ok("C19.C", key, f.loc(a.get("ln")), "compared with %s" % [c for c in names if c.endswith("partial_cmp")][-1]))
            else:
                res.append(bad("C19.C", key, f.loc(a.get("ln")),
                               "the (%s, %s) arm of PartialOrd for Value orders the payloads with %s instead of their own partial_cmp: the "
                               "ordering disagrees with `==` (f64::total_cmp puts -0.0 strictly before +0.0, which compare equal), so two equal "
                               "values are less/greater" % (l[0], r[0], [c.rsplit("::", 2)[-2] + "::" + c.rsplit("::", 1)[-1] for c in (other or names)][:2])))
    if n < 2:
        raise AnchorMissing("same-kind numeric arms in PartialOrd for Value (found %d)" % n)
    return res


class _OUndecided(Exception):
    pass


ORD_ATOMS = ("Less", "Equal", "Greater")
ORD_TY = "std::cmp::Ordering"
OPT_ORD_TY = "std::option::Option<std::cmp::Ordering>"


class _OSt:
    """one path of the abstract evaluation of partial_cmp: the local environment, what the path knows about
    `eq(self, other)` (True / False / None = not consulted yet) and whether an un-modelled value was enumerated on it"""
    __slots__ = ("env", "k", "opq")

    def __init__(self, env, k, opq):
        self.env, self.k, self.opq = env, k, opq

    def bind(self, i, v):
        e = dict(self.env)
        e[i] = v
        return _OSt(e, self.k, self.opq)

    def know(self, k):
        return _OSt(self.env, k, self.opq)

    def opaque(self):
        return _OSt(self.env, self.k, True)


class _OEval:
    """Path-enumerating abstract evaluator for the HIR of an ordering function of two operands. Values: True/False,
    the three Ordering atoms, ("None",) / ("Some", atom), ("P", n) = the n-th operand (references are transparent),
    ("T", [..]) tuples, ("C", closure node), ("U",) anything else. The only fact tracked across a path is the answer of
    `eq` on the two operands (either operand order; `==`, `!=`, `ne` included; an operand token always stands for the
    whole operand, so PartialEq on two of them is the operand type's own eq), which is a pure function of them.
    Any two-operand comparison other than that eq (cmp, partial_cmp, <, ...) may answer anything. Calls to local helper
    functions and closures are inlined; what is not modelled is enumerated by type and marks the path `opq`."""

    def __init__(self, F, f, eq_self_ty):
        self.F = F
        self.eq_ty = eq_self_ty
        self.rets = []
        self.depth = 0
        self.steps = 0
        self.f = f

    # -- entry
    def run(self):
        env = {}
        for n, p_ in enumerate(self.f.hir.get("params", [])):
            if p_.get("k") != "bind":
                raise _OUndecided("parameter pattern")
            env[p_["id"]] = ("P", n)
        outs = self.ev(self.f.hir["body"], _OSt(env, None, False))
        return self.rets + outs

    # -- helpers
    def by_type(self, e, st):
        ty = e.get("ty", "")
        for x in hir_walk(e):
            if x.get("k") in ("ret", "break", "loop", "assign", "assign_op") and x is not e:
                raise _OUndecided("control flow / mutation inside an un-modelled expression (line %s)" % x.get("ln"))
        return self.by_type_call(e, st)

    @staticmethod
    def concrete(v):
        return isinstance(v, bool) or v in ORD_ATOMS or v == ("None",) or (isinstance(v, tuple) and len(v) == 2 and v[0] == "Some" and v[1] in ORD_ATOMS)

    @staticmethod
    def scalars(operands):
        tys = [(hir_strip(o).get("ty") or "").lstrip("&").replace("mut ", "").strip() for o in operands]
        return all(t_ in INT_RANGES or t_ in ("f64", "f32", "bool", "char") for t_ in tys)

    def is_eq_callee(self, e):
        return any(n.endswith("PartialEq::eq") or n.endswith("PartialEq::ne") or n.endswith("PartialEq>::eq") or n.endswith("PartialEq>::ne") for n in hir_callee(e))

    def eq_outcomes(self, a, b, st, negate):
        """a == b on two evaluated operands"""
        if a[0] == "P" and b[0] == "P" and a[1] != b[1]:
            ks = [st.k] if st.k is not None else [True, False]
            return [((not k) if negate else k, st.know(k)) for k in ks]
        return None

    def ev_seq(self, exprs, st):
        """evaluate expressions left to right: list of ([vals], st)"""
        outs = [([], st)]
        for x in exprs:
            nxt = []
            for vs, s in outs:
                for v, s2 in self.ev(x, s):
                    nxt.append((vs + [v], s2))
            outs = nxt
        return outs

    def call_closure(self, c, args, st):
        node = c[1]
        ps = node.get("params", [])
        if len(ps) != len(args):
            raise _OUndecided("closure arity")
        sts = [st]
        for p_, a in zip(ps, args):
            nxt = []
            for s in sts:
                for verdict, s2 in self.pm(p_, a, s):
                    if verdict != "no":
                        nxt.append(s2)
            sts = nxt
        out = []
        for s in sts:
            out.extend(self.ev(node["body"], s))
        return out

    def apply(self, fv, args, st, e):
        """call a function value (closure, or path to Some / a unit-like fn) with evaluated args"""
        if isinstance(fv, tuple) and fv[0] == "C":
            return self.call_closure(fv, args, st)
        if fv == ("F", "Some") and len(args) == 1:
            return self.mk_some(args[0], st, e)
        raise _OUndecided("call of an unknown function value (line %s)" % e.get("ln"))

    def mk_some(self, a, st, e):
        if a in ORD_ATOMS:
            return [(("Some", a), st)]
        if a == ("U",) and e.get("ty") == OPT_ORD_TY:
            st = st.opaque()
            return [(("Some", x), st) for x in ORD_ATOMS]
        return [(("U",), st)]

    def inline_fn(self, g, args, st, e):
        if self.depth >= 3 or not g.hir or g.is_closure:
            return None
        ps = g.hir.get("params", [])
        if len(ps) != len(args) or any(p_.get("k") != "bind" for p_ in ps):
            return None
        sub = _OEval(self.F, g, self.eq_ty)
        sub.depth = self.depth + 1
        env = dict((p_["id"], a) for p_, a in zip(ps, args))
        outs = sub.ev(g.hir["body"], _OSt(env, st.k, st.opq))
        outs = sub.rets + outs
        # the callee's environment does not leak back
        return [(v, _OSt(st.env, s.k, s.opq)) for v, s in outs]

    # -- patterns: list of (verdict in yes/no/maybe, st with bindings)
    def pm(self, p, v, st):
        k = p.get("k")
        if k == "wild":
            return [("yes", st)]
        if k == "bind":
            st2 = st.bind(p["id"], v)
            if "sub" in p and p["sub"]:
                return self.pm(p["sub"], v, st2)
            return [("yes", st2)]
        if k in ("ref", "deref", "box"):
            return self.pm(p["pat"], v, st)
        if k == "or":
            out = []
            rest = [st]
            for alt in p["pats"]:
                nxt = []
                for s in rest:
                    for verdict, s2 in self.pm(alt, v, s):
                        if verdict in ("yes", "maybe"):
                            out.append((verdict, s2))
                        if verdict in ("no", "maybe"):
                            nxt.append(s)
                rest = nxt
            out.extend(("no", s) for s in rest)
            return out
        if k == "expr":
            if "lit" in p:
                lv = p["lit"].get("v")
                if isinstance(v, bool) and isinstance(lv, bool):
                    return [("yes" if v == lv else "no", st)]
                return [("maybe", st.opaque())]
            nm = short(p["path"]["res"].get("ctor_of") or p["path"]["res"].get("path", "")).rsplit("::", 1)[-1]
            return self.pm_variant(nm, [], v, st)
        if k in ("tuple_struct", "path", "struct"):
            r = p["path"]["res"]
            nm = short(r.get("ctor_of") or r.get("path", "")).rsplit("::", 1)[-1]
            subs = p.get("pats", []) if k == "tuple_struct" else []
            if k == "struct":
                return [("maybe", st.opaque())] if v == ("U",) else [("maybe", st.opaque())]
            return self.pm_variant(nm, subs, v, st)
        if k == "tuple":
            if isinstance(v, tuple) and v[0] == "T" and len(v[1]) == len(p["pats"]):
                outs = [("yes", st)]
                for sp, sv in zip(p["pats"], v[1]):
                    nxt = []
                    for verdict, s in outs:
                        if verdict == "no":
                            nxt.append((verdict, s))
                            continue
                        for v2, s2 in self.pm(sp, sv, s):
                            nxt.append(("no" if v2 == "no" else ("maybe" if "maybe" in (verdict, v2) else "yes"), s2))
                    outs = nxt
                return outs
            s = st.opaque()
            for i, _n in pat_bindings(p):
                s = s.bind(i, ("U",))
            return [("maybe", s)]
        raise _OUndecided("pattern kind %s (line %s)" % (k, p.get("ln")))

    def pm_variant(self, nm, subs, v, st):
        if v in ORD_ATOMS:
            return [("yes" if v == nm else "no", st)]
        if isinstance(v, tuple) and v[0] in ("None", "Some"):
            if v[0] != nm:
                return [("no", st)]
            if nm == "Some" and subs:
                return self.pm(subs[0], v[1], st)
            return [("yes", st)]
        s = st.opaque()
        for sp in subs:
            for i, _n in pat_bindings(sp):
                s = s.bind(i, ("U",))
        return [("maybe", s)]

    def ev_match(self, scrut_outs, arms, st_unused):
        out = []
        for v, st in scrut_outs:
            pending = [st]
            for a in arms:
                nxt = []
                for s in pending:
                    for verdict, s2 in self.pm(a["pat"], v, s):
                        if verdict == "no":
                            nxt.append(s)
                            continue
                        if verdict == "maybe":
                            nxt.append(s.opaque())
                        if a.get("guard"):
                            for gv, s3 in self.ev(a["guard"], s2):
                                if gv is True:
                                    out.extend(self.ev(a["body"], s3))
                                elif gv is False:
                                    nxt.append(_OSt(s.env, s3.k, s3.opq))
                                else:
                                    raise _OUndecided("guard value")
                        else:
                            out.extend(self.ev(a["body"], s2))
                pending = nxt
            # a `match` is exhaustive: whatever is still pending cannot happen for the concrete value
        return out

    # -- expressions: list of (value, st)
    def ev(self, e, st):
        self.steps += 1
        if self.steps > 20000:
            raise _OUndecided("too many paths")
        e = hir_strip(e)
        if e is None:
            return [(("U",), st)]
        k = e.get("k")
        if k == "lit":
            v = e["lit"].get("v")
            return [(v if isinstance(v, bool) else ("U",), st)]
        if k == "path":
            r = e["path"]["res"]
            if r["k"] == "local":
                if r["id"] in st.env:
                    return [(st.env[r["id"]], st)]
                return self.by_type(e, st)
            nm = short(r.get("ctor_of") or r.get("path", ""))
            last = nm.rsplit("::", 1)[-1]
            if nm.endswith("cmp::Ordering::" + last) and last in ORD_ATOMS:
                return [(last, st)]
            if last == "None" and e.get("ty", "").startswith("std::option::Option<"):
                return [(("None",), st)]
            if last == "Some":
                return [(("F", "Some"), st)]
            return self.by_type(e, st)
        if k in ("addr_of", "cast") or (k == "un" and e.get("op") == "Deref"):
            if k == "cast":
                return self.by_type(e, st)
            return self.ev(e["e"], st)
        if k == "un" and e.get("op") == "Not" and e.get("ty") == "bool":
            return [((not v) if isinstance(v, bool) else v, s) for v, s in self.ev(e["e"], st)]
        if k == "tup":
            return [(("T", vs), s) for vs, s in self.ev_seq(e["elems"], st)]
        if k == "closure":
            return [(("C", e), st)]
        if k == "block":
            return self.ev_block(e["block"], st)
        if k == "ret":
            if e.get("e") is None:
                raise _OUndecided("bare return")
            self.rets.extend(self.ev(e["e"], st))
            return []
        if k == "if":
            out = []
            for v, s in self.ev_cond(e["cond"], st):
                if v is True:
                    out.extend(self.ev(e["then"], s))
                elif v is False:
                    out.extend(self.ev(e["else"], s) if e.get("else") else [(("U",), s)])
                else:
                    raise _OUndecided("condition value (line %s)" % e.get("ln"))
            return out
        if k == "match":
            if (e.get("source") or "").startswith(("ForLoop", "WhileLet", "TryDesugar", "Await")):
                if e.get("source", "").startswith("TryDesugar") and e.get("ty") in (ORD_TY,):
                    # `opt?` on an Option<Ordering>: None returns None, Some(x) yields x
                    inner = hir_strip(e["scrut"])
                    arg = inner["args"][0] if inner.get("k") == "call" and inner.get("args") else None
                    if arg is not None and hir_strip(arg).get("ty") == OPT_ORD_TY:
                        out = []
                        for v, s in self.ev(arg, st):
                            if v == ("None",):
                                self.rets.append((v, s))
                            elif isinstance(v, tuple) and v[0] == "Some":
                                out.append((v[1], s))
                            else:
                                raise _OUndecided("`?` operand")
                        return out
                raise _OUndecided("loop / `?` (line %s)" % e.get("ln"))
            return self.ev_match(self.ev(e["scrut"], st), e["arms"], st)
        if k == "bin":
            op = e.get("op")
            if op in ("And", "Or"):
                out = []
                for v, s in self.ev(e["l"], st):
                    if not isinstance(v, bool):
                        raise _OUndecided("operand of && / ||")
                    if v is (op == "Or"):
                        out.append((v, s))
                    else:
                        out.extend(self.ev(e["r"], s))
                return out
            if op in ("Eq", "Ne") and self.is_eq_callee(e):
                out = []
                for (a, b), s in self.ev_seq([e["l"], e["r"]], st):
                    r = self.eq_outcomes(a, b, s, op == "Ne")
                    if r is not None:
                        out.extend(r)
                    elif self.concrete(a) and self.concrete(b):
                        out.append(((a == b) == (op == "Eq"), s))
                    elif self.scalars([e["l"], e["r"]]):
                        out.extend([(True, s), (False, s)])
                    else:
                        out.extend([(True, s.opaque()), (False, s.opaque())])
                return out
            out = []
            for _vs, s in self.ev_seq([e["l"], e["r"]], st):
                if e.get("ty") == "bool" and op in ("Eq", "Ne", "Lt", "Le", "Gt", "Ge") and self.scalars([e["l"], e["r"]]):
                    out.extend([(True, s), (False, s)])     # a test on scalar summaries of the operands: either answer, whatever eq says
                else:
                    out.extend(self.by_type_call(e, s))
            return out
        if k == "call":
            f_ = hir_strip(e["f"])
            names = hir_callee(e)
            if f_.get("k") == "path" and f_["path"]["res"].get("k") == "def":
                last = short(f_["path"]["res"].get("ctor_of") or f_["path"]["res"].get("path", "")).rsplit("::", 1)[-1]
                if last == "Some" and len(e["args"]) == 1 and str(f_["path"]["res"].get("def_kind", "")).startswith("Ctor"):
                    out = []
                    for v, s in self.ev(e["args"][0], st):
                        out.extend(self.mk_some(v, s, e))
                    return out
            out = []
            for vs, s in self.ev_seq(e["args"], st):
                r = self.model_call(e, names, None, vs, s)
                if r is None and f_.get("k") == "path" and f_["path"]["res"].get("k") == "local":
                    fv = s.env.get(f_["path"]["res"]["id"])
                    if fv is not None:
                        r = self.apply(fv, vs, s, e)
                out.extend(r if r is not None else self.by_type_call(e, s))
            return out
        if k == "mcall":
            names = hir_callee(e)
            out = []
            for vs, s in self.ev_seq([e["recv"]] + e["args"], st):
                r = self.model_call(e, names, e["name"], vs, s)
                out.extend(r if r is not None else self.by_type_call(e, s))
            return out
        if k in ("assign",):
            lid = hir_local_id(e["l"])
            if lid is None:
                raise _OUndecided("assignment to a non-local (line %s)" % e.get("ln"))
            return [(("U",), s.bind(lid, v)) for v, s in self.ev(e["r"], st)]
        if k in ("loop", "break", "continue", "assign_op", "let"):
            raise _OUndecided("%s (line %s)" % (k, e.get("ln")))
        # field, index, struct, array, ...: evaluate nothing, enumerate by type
        return self.by_type(e, st)

    def by_type_call(self, e, st):
        ty = e.get("ty", "")
        st2 = st.opaque()
        if ty == "bool":
            return [(True, st2), (False, st2)]
        if ty == ORD_TY:
            return [(a, st2) for a in ORD_ATOMS]
        if ty == OPT_ORD_TY:
            return [(("None",), st2)] + [(("Some", a), st2) for a in ORD_ATOMS]
        return [(("U",), st)]

    def ev_cond(self, c, st):
        c = hir_strip(c)
        if c.get("k") == "let":
            out = []
            for v, s in self.ev(c["init"], st):
                for verdict, s2 in self.pm(c["pat"], v, s):
                    if verdict in ("yes", "maybe"):
                        out.append((True, s2))
                    if verdict in ("no", "maybe"):
                        out.append((False, s.opaque() if verdict == "maybe" else s))
            return out
        if c.get("k") == "bin" and c.get("op") == "And":
            out = []
            for v, s in self.ev_cond(c["l"], st):
                if v is True:
                    out.extend(self.ev_cond(c["r"], s))
                else:
                    out.append((v, s))
            return out
        return self.ev(c, st)

    def ev_block(self, bl, st):
        sts = [st]
        for stmt in bl["stmts"]:
            nxt = []
            for s in sts:
                if stmt["k"] == "item":
                    nxt.append(s)
                elif stmt["k"] == "let":
                    if stmt.get("init") is None:
                        nxt.append(s)
                        continue
                    for v, s2 in self.ev(stmt["init"], s):
                        for verdict, s3 in self.pm(stmt["pat"], v, s2):
                            if verdict in ("yes", "maybe"):
                                nxt.append(s3)
                            if verdict in ("no", "maybe") and stmt.get("els"):
                                if self.ev_block(stmt["els"], s2.opaque() if verdict == "maybe" else s2):
                                    raise _OUndecided("let-else that does not diverge")
                elif stmt["k"] in ("expr", "semi"):
                    nxt.extend(s2 for _v, s2 in self.ev(stmt["e"], s))
                else:
                    raise _OUndecided("statement %s" % stmt["k"])
            sts = nxt
        out = []
        for s in sts:
            if bl.get("expr") is not None:
                out.extend(self.ev(bl["expr"], s))
            else:
                out.append((("U",), s))
        return out

    def model_call(self, e, names, mname, vs, st):
        """std combinators on bool / Ordering / Option<Ordering>, comparisons, local helpers. None = not modelled"""
        def is_(suffix):
            return any(n == suffix or n.endswith("::" + suffix) for n in names)
        a0 = vs[0] if vs else None
        # eq / ne of the two operands
        if (is_("PartialEq::eq") or is_("PartialEq::ne")) and len(vs) == 2:
            r = self.eq_outcomes(vs[0], vs[1], st, is_("PartialEq::ne"))
            if r is not None:
                return r
            if self.concrete(vs[0]) and self.concrete(vs[1]):
                return [((vs[0] == vs[1]) != is_("PartialEq::ne"), st)]
            return None
        if (is_("Ord::cmp") or is_("PartialOrd::partial_cmp")) and len(vs) == 2:
            # comparing two scalars derived from the operands (lengths, ...) can answer anything whatever eq says: a scalar
            # summary does not determine the contents. A comparison of structured parts is not modelled (enumerated, opaque)
            if not self.scalars(([e["recv"]] if e.get("k") == "mcall" else []) + e["args"]):
                return None
            if is_("Ord::cmp"):
                return [(a, st) for a in ORD_ATOMS]
            return [(("None",), st)] + [(("Some", a), st) for a in ORD_ATOMS]
        if is_("bool::then_some") and len(vs) == 2 and isinstance(a0, bool):
            return self.mk_some(vs[1], st, e) if a0 else [(("None",), st)]
        if is_("bool::then") and len(vs) == 2 and isinstance(a0, bool):
            if not a0:
                return [(("None",), st)]
            out = []
            for v, s in self.apply(vs[1], [], st, e):
                out.extend(self.mk_some(v, s, e))
            return out
        isopt = isinstance(a0, tuple) and a0 and a0[0] in ("None", "Some")
        if isopt and any(n.startswith("std::option::Option::") for n in names):
            m = mname or names[0].rsplit("::", 1)[-1]
            if m == "or_else" and len(vs) == 2:
                return [(a0, st)] if a0[0] == "Some" else self.apply(vs[1], [], st, e)
            if m == "or" and len(vs) == 2:
                return [(a0 if a0[0] == "Some" else vs[1], st)]
            if m == "map" and len(vs) == 2:
                if a0[0] == "None":
                    return [(("None",), st)]
                out = []
                for v, s in self.apply(vs[1], [a0[1]], st, e):
                    out.extend(self.mk_some(v, s, e))
                return out
            if m == "and_then" and len(vs) == 2:
                return [(("None",), st)] if a0[0] == "None" else self.apply(vs[1], [a0[1]], st, e)
            if m == "filter" and len(vs) == 2:
                if a0[0] == "None":
                    return [(a0, st)]
                return [(a0 if v is True else ("None",), s) for v, s in self.apply(vs[1], [a0[1]], st, e)]
            if m == "unwrap_or" and len(vs) == 2:
                return [(a0[1] if a0[0] == "Some" else vs[1], st)]
            if m == "unwrap_or_else" and len(vs) == 2:
                return [(a0[1], st)] if a0[0] == "Some" else self.apply(vs[1], [], st, e)
            if m in ("is_some", "is_none") and len(vs) == 1:
                return [((a0[0] == "Some") == (m == "is_some"), st)]
            return None
        if a0 in ORD_ATOMS and any(n.startswith("std::cmp::Ordering::") for n in names):
            m = mname or names[0].rsplit("::", 1)[-1]
            if m == "reverse":
                return [({"Less": "Greater", "Greater": "Less", "Equal": "Equal"}[a0], st)]
            if m == "then" and len(vs) == 2:
                return [(a0 if a0 != "Equal" else vs[1], st)]
            if m == "then_with" and len(vs) == 2:
                return [(a0, st)] if a0 != "Equal" else self.apply(vs[1], [], st, e)
            tests = {"is_eq": ("Equal",), "is_ne": ("Less", "Greater"), "is_lt": ("Less",), "is_gt": ("Greater",), "is_le": ("Less", "Equal"), "is_ge": ("Greater", "Equal")}
            if m in tests and len(vs) == 1:
                return [(a0 in tests[m], st)]
            return None
        # local helper with a body that answers a truth value / an ordering: inline it
        for n in (names if e.get("ty") in ("bool", ORD_TY, OPT_ORD_TY) else []):
            g = self.F.fn(n, required=False)
            if g is not None and g.hir and not g.is_closure and not short(g.raw.get("impl_trait", "") or ""):
                r = self.inline_fn(g, vs, st, e)
                if r is not None:
                    return r
        return None


def rule_o(F):
    """C19.O: `partial_cmp` of objects never contradicts `eq`. Decided by enumerating the paths of the function body with
    one tracked fact, the answer of eq(self, other): every path that returns Some(Equal) has eq == true on it, and no path
    on which eq == true returns Some(Less) / Some(Greater). How the paths are written (then_some / or_else, early return,
    match, a helper) does not matter."""
    res = []
    f = impl_fn(F, "cmp::PartialOrd", "vm::runtime::cao_lang_object::CaoLangObject", "partial_cmp")
    key = "C19/O/CaoLangObject/equal-only-when-eq"
    try:
        outs = _OEval(F, f, "CaoLangObject").run()
        wrong = [(v, s) for v, s in outs if not (isinstance(v, tuple) and v and v[0] in ("None", "Some"))]
        if wrong or not outs:
            raise _OUndecided("a return value of partial_cmp was not understood")
        eq_unguarded = [(v, s) for v, s in outs if v == ("Some", "Equal") and s.k is not True]
        contradict = [(v, s) for v, s in outs if v[0] == "Some" and v[1] != "Equal" and s.k is True]
        refl = [(v, s) for v, s in outs if v == ("Some", "Equal") and s.k is True]
        if any(not s.opq for _v, s in eq_unguarded):
            res.append(bad("C19.O", key, f.loc(), "partial_cmp can answer Some(Equal) for objects that eq considers different (equal length is not equality)"))
        elif any(not s.opq for _v, s in contradict):
            res.append(bad("C19.O", key, f.loc(), "partial_cmp can answer Some(Less) / Some(Greater) for two objects that eq considers equal: equal values are less/greater"))
        elif eq_unguarded or contradict:
            res.append(undecided("C19.O", key, f.loc(), "partial_cmp depends on values the rule does not model; Some(Equal) only under eq not established"))
        elif not refl:
            res.append(undecided("C19.O", key, f.loc(), "no path of partial_cmp answers Some(Equal) under eq == true: shape of partial_cmp not recognised"))
        else:
            res.append(ok("C19.O", key, f.loc(), "Some(Equal) is produced only on the eq(self, other) == true edge (%d paths); equal-length unequal objects are incomparable" % len(outs)))
    except _OUndecided as ex:
        res.append(undecided("C19.O", key, f.loc(), "shape of partial_cmp not recognised: %s" % ex))
    # Value::partial_cmp delegates objects to CaoLangObject::partial_cmp
    g = impl_fn(F, "cmp::PartialOrd", "value::Value", "partial_cmp")
    deleg = False
    for x in hir_walk(g.hir["body"]):
        if x.get("k") == "mcall" and x["name"] == "partial_cmp":
            c = x.get("callee", {})
            if "CaoLangObject" in " ".join((c.get("resolved_args") or []) + (c.get("args") or []) + [c.get("resolved", "")]):
                deleg = True
    if deleg:
        res.append(ok("C19.O", "C19/O/Value/objects-delegate", g.loc(), "Value::partial_cmp compares two objects with CaoLangObject::partial_cmp"))
    else:
        res.append(bad("C19.O", "C19/O/Value/objects-delegate", g.loc(), "Value::partial_cmp does not delegate object pairs to CaoLangObject::partial_cmp"))
    return res


def rule_z(F):
    from rules.c12 import rule_z as z12
    return [R("C19.Z", r["key"].replace("C12/Z", "C19/Z"), r["status"], r["loc"], r["msg"], **r["data"]) for r in z12(F)]


RULES = [
    Rule("C19.H", rule_h, 6, "hash never finer than eq (no pointer identity in the hasher)"),
    Rule("C19.T", rule_t, 1, "table equality and hash agree on row order"),
    Rule("C19.K", rule_k, 1, "a table's hash is computed from its current rows"),
    Rule("C19.N", rule_n, 2, "mixed integer/real ordering is exact (no i64 -> f64 rounding, no saturating f64 -> i64 cast)"),
    Rule("C19.X", rule_x, 2, "equality of numbers is the payloads' exact =="),
    Rule("C19.C", rule_c, 2, "numbers are ordered by their payload's own PartialOrd (consistent with ==)"),
    Rule("C19.E", rule_e, 6, "eq answers true only for same-kind pairs"),
    Rule("C19.O", rule_o, 2, "ordering of objects never contradicts equality"),
    Rule("C19.Z", rule_z, 1, "hash 0 mapped away (shared with C12.Z)"),
]
