"""C11 — Serialization round-trips preserve programs and values.

Round-trip equality is behavioural and NOT decided. Claimed, as necessary structural conditions:

  C11.S  nothing is dropped by the derived impls: every field of every serde-derived struct of the crate is written by its
         derived Serialize impl, except the documented Card.id; no enum variant is refused.
  C11.M  the hand-written map impls (CaoHashMap, HandleTable) are symmetric: Serialize announces self.len() and emits one
         serialize_entry per self.iter() item; the visitor inserts every next_entry through insert() into a table built by
         the checked constructor and returns it.
"""
from cao.facts import (AnchorMissing, callee_names, short, hir_walk, hir_callee, hir_strip, hir_local_id, pat_bindings, pat_variants)
from cao.rules import Rule, ok, bad, undecided, note, shared
import rules.c12 as _c12
import rules.c13 as _c13
from cao import hirutil as hu

EXPLANATION = (
    "serde's derive drops a field silently when it carries skip/skip_serializing(_if); rustc discards those helper "
    "attributes before HIR, so the rule reads the *effect*: in the HIR of each derived `Serialize::serialize` the set of "
    "`self.<field>` expressions must cover the struct's fields from rustc's type facts (Card.id is the one documented "
    "exception), and no arm of an enum's serialize refuses its variant. For the two hand-written map impls the rule checks "
    "the writer/reader symmetry structurally (length announced = len(), one entry per iter() item, every read entry "
    "inserted, result returned). Equality after a round trip for every program, format and size is behavioural and is "
    "NOT decided; it additionally relies on C12/C13 (len == number of entries, insert keeps every key)."
)
ASSUMPTIONS = ["serde's derive generates Deserialize symmetric to Serialize for the fields it serializes", "C12.R / C13.C (len() is the number of entries)"]

ALLOWED_SKIPS = {("compiler::card::Card", "id"): "card ids are regenerated on load (documented: serde(skip, default = random_id))"}


def derived_serialize_fns(F):
    out = []
    for f in F.fns:
        r = f.raw
        if f.hir and not f.is_closure and f.name == "serialize" and r.get("impl_trait") and short(r["impl_trait"]).endswith("Serialize") and r.get("from_expansion"):
            out.append(f)
    return out


def rule_s(F):
    res = []
    fns = derived_serialize_fns(F)
    if len(fns) < 10:
        raise AnchorMissing("derived Serialize impls (found %d; is the serde feature on?)" % len(fns))
    for f in sorted(fns, key=lambda f: f.raw.get("impl_self", "")):
        ty = short(f.raw.get("impl_self", ""))
        adt = F.adts.get(ty)
        if adt is None:
            continue
        tname = ty.rsplit("::", 1)[-1]
        if adt["kind"] == "Struct":
            fields = [fl["name"] for fl in adt["variants"][0]["fields"]]
            used = set()
            conditional = set()
            anc = hu.control_ancestors(f.hir["body"])
            for x in hir_walk(f.hir["body"]):
                if x.get("k") == "field":
                    inner = hir_strip(x["e"])
                    if inner.get("k") == "path" and inner["path"]["res"].get("name") == "self":
                        used.add(x["name"])
            # the write itself must be unconditional (skip_serializing_if puts it under an `if`)
            for x in hir_walk(f.hir["body"]):
                if x.get("k") in ("call", "mcall") and any(n.endswith("::serialize_field") or n.endswith("::serialize_element")
                                                              or n.endswith("::serialize_newtype_struct") for n in hir_callee(x)):
                    names = set(y["name"] for y in hir_walk(x) if y.get("k") == "field" and hir_strip(y["e"]).get("k") == "path"
                                and hir_strip(y["e"])["path"]["res"].get("name") == "self")
                    if any(k in ("then", "else") or k.startswith("arm") for k, _i in anc.get(id(x), ())):
                        conditional |= names
            for fl in fields:
                key = "C11/S/%s.%s/serialized" % (tname, fl)
                if fl in conditional:
                    res.append(bad("C11.S", key, "%s:%s" % (adt["file"], adt["line"]),
                                   "field %s.%s is written by the derived Serialize impl only under a condition (serde skip_serializing_if): "
                                   "formats that store struct fields by position (bincode) then read the following bytes as this field, a "
                                   "round trip changes or loses data" % (tname, fl)))
                elif fl in used:
                    res.append(ok("C11.S", key, "%s:%s" % (adt["file"], adt["line"]), "written by the derived Serialize impl"))
                elif (ty, fl) in ALLOWED_SKIPS:
                    res.append(ok("C11.S", key, "%s:%s" % (adt["file"], adt["line"]), "skipped on purpose: " + ALLOWED_SKIPS[(ty, fl)], skipped=True))
                else:
                    res.append(bad("C11.S", key, "%s:%s" % (adt["file"], adt["line"]),
                                   "field %s.%s is not written by the derived Serialize impl (serde skip attribute): a round trip silently drops it" % (tname, fl)))
        elif adt["kind"] == "Enum":
            variants = [v["name"] for v in adt["variants"]]
            covered = set()
            refused = []
            for x in hir_walk(f.hir["body"]):
                if x.get("k") == "match" and not x.get("source", "").startswith("TryDesugar"):
                    for a in x["arms"]:
                        for n, _s, _p in pat_variants(a["pat"]):
                            vn = n.rsplit("::", 1)[-1]
                            if vn in variants:
                                covered.add(vn)
                                if any(y.get("k") == "call" and any(c.endswith("Error::custom") for c in hir_callee(y)) for y in hir_walk(a["body"])):
                                    refused.append(vn)
            # tagged representation: every arm announces its variant (serialize_*_variant); `#[serde(untagged)]` makes the arms
            # serialize the payload alone, which only self-describing formats can read back
            untagged = []
            for x in hir_walk(f.hir["body"]):
                if x.get("k") == "match" and not x.get("source", "").startswith("TryDesugar"):
                    for a in x["arms"]:
                        vns = [n.rsplit("::", 1)[-1] for n, _s, _p in pat_variants(a["pat"]) if n.rsplit("::", 1)[-1] in variants]
                        if not vns:
                            continue
                        calls = [c for y in hir_walk(a["body"]) if y.get("k") in ("call", "mcall") for c in hir_callee(y)]
                        if not any("_variant" in c.rsplit("::", 1)[-1] for c in calls):
                            untagged += vns
            key = "C11/S/%s/variants-serialized" % tname
            if untagged and not (missing_placeholder := None):
                res.append(bad("C11.S", "C11/S/%s/variants-tagged" % tname, "%s:%s" % (adt["file"], adt["line"]),
                               "enum %s is serialized without variant tags (%s): the derived Deserialize has to guess the variant from the "
                               "data, which formats that are not self-describing (bincode) cannot do - a saved value no longer loads"
                               % (tname, sorted(set(untagged)))))
            else:
                res.append(ok("C11.S", "C11/S/%s/variants-tagged" % tname, "%s:%s" % (adt["file"], adt["line"]), "every variant is written with its tag"))
            missing = [v for v in variants if v not in covered]
            if missing or refused:
                res.append(bad("C11.S", key, "%s:%s" % (adt["file"], adt["line"]), "enum %s: variants not serializable: %s" % (tname, missing + refused)))
            else:
                res.append(ok("C11.S", key, "%s:%s" % (adt["file"], adt["line"]), "all %d variants are serialized" % len(variants)))
    return res


def loop_over_self_iter(f):
    """for-loops over self.iter(): returns list of (loop match node, bound ids)"""
    out = []
    for x in hir_walk(f.hir["body"]):
        if x.get("k") == "match" and x.get("source", "").startswith("ForLoopDesugar"):
            it = hir_strip(x["scrut"])
            it = hir_strip(it["args"][0]) if it.get("k") == "call" and it["args"] else it
            if it.get("k") == "mcall" and it["name"] == "iter" and hir_strip(it["recv"]).get("k") == "path" and hir_strip(it["recv"])["path"]["res"].get("name") == "self":
                ids = set()
                for y in hir_walk(x):
                    if y.get("k") == "match":
                        for a in y["arms"]:
                            for bid, _n in pat_bindings(a["pat"]):
                                ids.add(bid)
                out.append((x, ids))
    return out


def rule_m(F):
    res = []
    for mod, tname in (("collections::hash_map", "CaoHashMap"), ("collections::handle_table", "HandleTable")):
        ser = [f for f in F.fns if f.hir and f.name == "serialize" and short(f.raw.get("impl_trait", "")).endswith("Serialize")
               and short(f.raw.get("impl_self", "")).startswith(mod + "::" + tname) and not f.raw.get("from_expansion")]
        vis = [f for f in F.fns if f.hir and f.name == "visit_map" and mod in f.short]
        if not ser or not vis:
            raise AnchorMissing("hand-written serde impls of %s" % tname)
        s_, v = ser[0], vis[0]
        # serializer: serialize_map(Some(self.len())) ; one serialize_entry per iter item ; end()
        announced = False
        for x in hir_walk(s_.hir["body"]):
            if x.get("k") == "mcall" and x["name"] == "serialize_map":
                for y in hir_walk(x["args"][0]):
                    if y.get("k") == "mcall" and y["name"] == "len" and hir_strip(y["recv"]).get("k") == "path" and hir_strip(y["recv"])["path"]["res"].get("name") == "self":
                        announced = True
        loops = loop_over_self_iter(s_)
        entry_in_loop = False
        for lp, ids in loops:
            for y in hir_walk(lp):
                if y.get("k") == "mcall" and y["name"] == "serialize_entry":
                    args_ids = [hir_local_id(hu.strip_all(a)) for a in y["args"]]
                    if all(a in ids for a in args_ids):
                        entry_in_loop = True
        ended = any(y.get("k") == "mcall" and y["name"] == "end" for y in hir_walk(s_.hir["body"]))
        key = "C11/M/%s/serialize" % tname
        if announced and entry_in_loop and ended:
            res.append(ok("C11.M", key, s_.loc(), "announces self.len(), emits one serialize_entry(k, v) per self.iter() item, ends the map"))
        else:
            res.append(bad("C11.M", key, s_.loc(), "%s::serialize must announce self.len() (%s), emit every iter() item with serialize_entry (%s) and end the map (%s)" % (tname, announced, entry_in_loop, ended)))
        # visitor: loop over next_entry, insert(k, v) of the bound pair, return the table
        entries = [y for y in hir_walk(v.hir["body"]) if y.get("k") == "mcall" and y["name"] == "next_entry"]
        inserts = []
        for y in hir_walk(v.hir["body"]):
            if y.get("k") == "mcall" and y["name"] in ("insert",) and any(n.startswith(mod + "::" + tname) for n in hir_callee(y)):
                inserts.append(y)
        in_loop = False
        anc = hu.control_ancestors(v.hir["body"])
        for ins in inserts:
            if any(c[0] == "loop" for c in anc.get(id(ins), ())):
                in_loop = True
        ctor = [y for y in hir_walk(v.hir["body"]) if y.get("k") == "call" and any(n.startswith(mod + "::" + tname + "::with_capacity") for n in hir_callee(y))]
        key = "C11/M/%s/visit_map" % tname
        if entries and inserts and in_loop and ctor:
            res.append(ok("C11.M", key, v.loc(), "every next_entry() pair is inserted through insert() into a table built by %s" % (hir_callee(ctor[0])[0].rsplit("::", 1)[-1])))
        else:
            res.append(bad("C11.M", key, v.loc(), "%s's visitor must insert every next_entry() through the checked insert (entries=%d inserts=%d in_loop=%s ctor=%d)" % (tname, len(entries), len(inserts), in_loop, len(ctor))))
    return res


def rule_i(F):
    """C11.I: inserting an owned value builds what the owned value says. In Vm::insert_value (and its helpers) every result
    of the String case is the object returned by `init_string` on that very string, and every Integer / Real result is built
    from the payload. A shortcut that hands back an object found through a 32-bit hash of the text (a Handle-keyed cache)
    merges different strings whose hashes collide ("costarring" / "liquid"): the inserted value is no longer deeply equal
    to the saved one."""
    res = []
    fns = [f for f in F.fns if f.hir and not f.is_closure and f.short.startswith("vm::Vm::insert_value")]
    if not fns:
        raise AnchorMissing("Vm::insert_value")
    n = 0

    def leaves(e):
        """value-producing leaf expressions of e"""
        e = hu.strip_all(e)
        if e is None:
            return []
        k = e.get("k")
        if k == "block":
            return leaves(e["block"].get("expr")) if e["block"].get("expr") is not None else []
        if k == "match":
            if (e.get("source") or "").startswith("TryDesugar"):
                return [e]
            out = []
            for a in e["arms"]:
                out += leaves(a["body"])
            return out
        if k == "if":
            return leaves(e["then"]) + (leaves(e["else"]) if e.get("else") is not None else [])
        return [e]
    for f in fns:
        inits = hu.let_inits(f)
        for m in hir_walk(f.hir["body"]):
            if m.get("k") != "match" or m.get("exp"):
                continue
            for a in m["arms"]:
                kinds = [v[0].rsplit("::", 1)[-1] for v in pat_variants(a["pat"]) if "OwnedValue" in v[0]]
                if kinds != ["String"]:
                    continue
                sbind = [i for i, _n in pat_bindings(a["pat"])]
                n += 1
                key = "C11/I/%s/string-is-allocated-from-its-text" % f.name
                badleaf = None
                for lf in leaves(a["body"]):
                    good = False
                    if lf.get("k") == "call" and any(n_.endswith("Value::Object") for n_ in hir_callee(lf)) and lf.get("args"):
                        for z in hir_walk(lf["args"][0]):
                            lid = hir_local_id(z) if z.get("k") == "path" else None
                            for init in inits.get(lid, []) if lid is not None else []:
                                for w in hir_walk(init):
                                    if w.get("k") == "mcall" and w["name"] == "init_string" and \
                                            any(hir_local_id(q) in sbind for q in hir_walk(w["args"][0]) if q.get("k") == "path"):
                                        good = True
                    if not good:
                        badleaf = lf
                if badleaf is None:
                    res.append(ok("C11.I", key, f.loc(a.get("ln")), "every result of the String case is Value::Object(init_string(s))"))
                else:
                    res.append(bad("C11.I", key, f.loc(badleaf.get("ln")),
                                   "%s can answer the String case with an object that was not allocated from this string's text (a cached or "
                                   "looked-up object): a cache keyed by a 32-bit hash of the text hands the first of two colliding strings "
                                   "back for the second, so the inserted value is not deeply equal to the one that was saved" % f.name))
    if n < 1:
        raise AnchorMissing("String case of Vm::insert_value")
    return res


def rule_v(F):
    """C11.V: converting a runtime value to its owned form fails only for values that cannot be saved. If the conversion
    carries a set of tables 'being converted' to refuse self-containing tables, that set must be scoped to the current path:
    every push onto it is matched by a pop (or truncate) on every non-error path of the same function. A set that only grows
    holds every table seen so far, and an acyclic value in which one table is referenced twice (a DAG) is refused."""
    from cao.facts import DefUse, callee_names, op_local
    from cao import mirutil as mu
    from cao import framebal as fb
    res = []
    fns = _owned_conversion_fns(F, closures=False)
    if not fns:
        raise AnchorMissing("conversion functions of OwnedValue in value.rs")
    n = 0
    for f in fns:
        du = DefUse(f)
        cfg = f.cfg
        pushes, pops = [], set()
        for bi, t in mu.calls(f):
            nm = callee_names(t["func"])
            if not t["args"]:
                continue
            a0 = op_local(t["args"][0])
            if a0 is None:
                continue
            kind, payload = du.trace_back(a0)
            is_param = (kind == "arg") or (kind == "place" and 1 <= payload["l"] <= f.mir["arg_count"] and not [e for e in payload["p"] if e["k"] != "deref"])
            if not is_param:
                continue
            if any(x.endswith("Vec::push") or x.endswith("::insert") for x in nm):
                pushes.append((bi, t))
            if any(x.endswith("Vec::pop") or x.endswith("Vec::truncate") or x.endswith("::remove") or x.endswith("Vec::swap_remove") for x in nm):
                pops.add(bi)
        for k, (bi, t) in enumerate(pushes):
            n += 1
            key = "C11/V/%s/visited-set-is-path-scoped%s" % (f.name, "" if k == 0 else "#%d" % k)
            oks = [b for b in cfg.return_blocks()]
            # success exits: returns reached without passing an error block
            leak = False
            if t.get("target") is not None:
                stack, seen = [t["target"]], set()
                while stack:
                    b = stack.pop()
                    if b in seen or b in pops or fb._error_block(f, b):
                        continue
                    seen.add(b)
                    if f.blocks[b]["term"]["k"] == "return":
                        leak = True
                        break
                    stack.extend(s_ for s_ in cfg.succ[b])
            if leak:
                res.append(bad("C11.V", key, f.loc(t.get("ln")),
                               "%s records the table it is converting in the caller's set and can return successfully without taking it out "
                               "again: the set holds every table seen so far, not the tables on the current path, so a value in which the same "
                               "table is reachable twice without a cycle (res.spawn = home; res.target = home) is refused as if it contained itself"
                               % f.name))
            else:
                res.append(ok("C11.V", key, f.loc(t.get("ln")), "the entry is removed again on every successful path"))
    if n == 0:
        res.append(ok("C11.V", "C11/V/no-visited-set", fns[0].loc(), "the conversion keeps no set of visited tables (self-containing tables: known finding C04/R)"))
    return res

def _owned_conversion_fns(F, closures=True):
    """the hand-written functions of value.rs that build or take apart the owned form (the serde derives are not among them)"""
    return [f for f in F.fns if f.mir and (closures or not f.is_closure) and str(f.raw.get("file", "")).endswith("value.rs")
            and ("OwnedValue" in f.path or "OwnedEntry" in f.path or "owned" in f.path.lower()) and "_serde" not in f.path]


LOSSY_ADAPTORS = ("filter", "filter_map", "skip", "skip_while", "take", "take_while", "step_by", "flat_map", "flatten", "dedup",
                  "dedup_by", "dedup_by_key", "retain", "truncate", "find", "find_map", "nth", "last", "next_back")


def _iteration_can_skip(f, du, err, call_block):
    """call_block sits in a loop driven by Iterator::next; can one full iteration (next -> ... -> next) complete on a
    non-error path without executing call_block?  Returns None when no driving `next` call is found."""
    from cao.facts import callee_names
    from cao import mirutil as mu
    cfg = f.cfg
    nexts = [bi for bi, t in mu.calls(f) if any(n.endswith("Iterator::next") or n.endswith("::next") for n in callee_names(t["func"]))
             and cfg.dominates(bi, call_block) and bi in cfg.reachable_from(call_block)]
    if not nexts:
        return None
    # innermost: the `next` closest to the call (dominated by all the others)
    nb = [b for b in nexts if all(cfg.dominates(o, b) for o in nexts)][0]
    t = f.blocks[nb]["term"]
    if t.get("target") is None:
        return None
    seen = cfg.reachable_from(t["target"], avoid=set(err) | {call_block})
    return nb in seen


def rule_r(F):
    """C11.R: every row of a table takes part in the round trip. (1) In the conversion of a runtime table to its owned form,
    every row the iteration yields becomes exactly one OwnedEntry: each iteration of the loop over the rows reaches the push
    of the entry on every non-error path (no `continue`, no filter) - or the entries are collected from an iterator chain
    without a lossy adaptor. (2) In Vm::insert_value every OwnedEntry of an owned table is inserted: each iteration of the
    loop over the entries reaches the table insertion. A row that is dropped on either side (say, rows whose value is nil)
    is visible to the script: it counts in Len, is visited by ForEach and shifts the row numbers of everything after it."""
    from cao.facts import DefUse, callee_names, op_local
    from cao import mirutil as mu
    res = []
    # (1) Value -> OwnedValue
    fns = _owned_conversion_fns(F)
    if not fns:
        raise AnchorMissing("conversion functions of OwnedValue in value.rs")
    n = 0
    for f in fns:
        du = DefUse(f)
        err = mu.error_exit_blocks(f)
        for bi, t in mu.calls(f):
            nm = callee_names(t["func"])
            if not any(x.endswith("Vec::push") or x.endswith("VecDeque::push_back") for x in nm) or len(t["args"]) < 2:
                continue
            if "OwnedEntry" not in (f.local_ty(op_local(t["args"][1])) or "") if op_local(t["args"][1]) is not None else True:
                continue
            key = "C11/R/%s/every-row-becomes-an-entry" % f.name
            skip = _iteration_can_skip(f, du, err, bi)
            if skip is None:
                res.append(undecided("C11.R", key, f.loc(t.get("ln")), "the push of an OwnedEntry is not inside a loop driven by Iterator::next"))
                continue
            n += 1
            if skip:
                res.append(bad("C11.R", key, f.loc(t.get("ln")),
                               "%s can finish an iteration over the table's rows without pushing an entry for the row: the owned form "
                               "leaves rows out (e.g. rows whose value is nil), so after a round trip the table is shorter, later rows "
                               "move up and the restored value is not deeply equal to the original" % f.name))
            else:
                res.append(ok("C11.R", key, f.loc(t.get("ln")), "every iteration over the rows reaches the push of its OwnedEntry on every non-error path"))
        # iterator-chain form: entries collected from the rows
        if f.hir is not None:
            for x in hir_walk(f.hir["body"]):
                if x.get("k") == "mcall" and x["name"] in ("collect", "extend", "try_collect") and "OwnedEntry" in str(x.get("ty", "")):
                    chain, cur = [], x
                    while cur is not None and cur.get("k") == "mcall":
                        chain.append(cur["name"])
                        cur = hir_strip(cur["recv"])
                    lossy = [c for c in chain if c in LOSSY_ADAPTORS]
                    key = "C11/R/%s/every-row-becomes-an-entry" % f.name
                    n += 1
                    if lossy:
                        res.append(bad("C11.R", key, f.loc(x.get("ln")), "%s collects the entries through %s: rows can be left out of the owned form"
                                       % (f.name, "/".join(lossy))))
                    else:
                        res.append(ok("C11.R", key, f.loc(x.get("ln")), "entries are collected from the rows through %s" % "/".join(reversed(chain))))
    if n == 0:
        raise AnchorMissing("the place where a table's rows become OwnedEntry values (value.rs)")
    # (2) OwnedValue -> Value: the functions and closures under Vm::insert_value that put an entry into the new table
    m = 0
    cg = F.callgraph
    start = F.fn("vm::Vm::insert_value")
    under = cg.reach(start.short, stop=lambda nm: not nm.startswith("vm::Vm::insert_"))
    PER_ITEM = ("try_for_each", "for_each", "try_fold", "fold", "map", "all", "any")
    for f in [f for f in F.fns if f.mir and (f.short in under or (f.is_closure and short(f.raw.get("root") or "") in under))]:
        du = DefUse(f)
        err = mu.error_exit_blocks(f)
        cfg = f.cfg
        for bi, t in mu.calls(f):
            nm = callee_names(t["func"])
            if not any(x.endswith("CaoLangTable::insert") or x.endswith("CaoLangTable::append") for x in nm):
                continue
            key = "C11/R/%s/every-entry-is-inserted" % (short(f.raw.get("root") or "").rsplit("::", 1)[-1] if f.is_closure else f.name)
            if f.is_closure:
                # the closure is the per-item body of an iterator adaptor of its parent: every non-error path through it inserts,
                # and the chain it is handed to has no lossy adaptor
                parent = F.fn(short(f.raw.get("root")), required=False)
                lossy, driven = [], False
                if parent is not None and parent.hir is not None:
                    for x in hir_walk(parent.hir["body"]):
                        if x.get("k") == "mcall" and x["name"] in PER_ITEM and any(hir_strip(a).get("k") == "closure" for a in x.get("args", [])):
                            driven = True
                            cur = hir_strip(x["recv"])
                            while cur is not None and cur.get("k") == "mcall":
                                if cur["name"] in LOSSY_ADAPTORS:
                                    lossy.append(cur["name"])
                                cur = hir_strip(cur["recv"])
                if not driven:
                    continue
                m += 1
                seen = cfg.reachable_from(0, avoid=set(err) | {bi})
                skip = any(b in seen for b in cfg.return_blocks()) or bool(lossy)
            else:
                skip = _iteration_can_skip(f, du, err, bi)
                if skip is None:
                    continue
                m += 1
            if skip:
                res.append(bad("C11.R", key, f.loc(t.get("ln")), "%s can finish an iteration over the owned entries without inserting the entry "
                               "into the new table: the inserted value has fewer rows than the saved one" % f.name))
            else:
                res.append(ok("C11.R", key, f.loc(t.get("ln")), "every iteration over the entries reaches the insertion on every non-error path"))
    if m == 0:
        raise AnchorMissing("loop over the entries of an owned table in Vm::insert_value")
    return res


RULES = [
    Rule("C11.S", rule_s, 30, "derived Serialize impls write every field (Card.id excepted)", configs=("default", "release")),
    Rule("C11.I", rule_i, 1, "insert_value allocates every string from its own text", configs=("default", "release")),
    Rule("C11.V", rule_v, 1, "the conversion to the owned form refuses only what cannot be saved (visited sets are path-scoped)", configs=("default", "release")),
    Rule("C11.R", rule_r, 2, "every row of a table becomes an entry of the owned form and every entry is inserted back", configs=("default", "release")),
    Rule("C11.M", rule_m, 4, "hand-written map impls are symmetric", configs=("default", "release")),
    Rule("C11.K", shared(_c13.rule_k, "C13.K", "C11.K"), 2, "decoded HandleTables keep a free slot (shared with C13.K)", configs=("default", "release")),
    Rule("C11.L", shared(_c12.rule_k, "C12.K", "C11.L"), 2, "decoded CaoHashMaps keep a free slot (shared with C12.K)", configs=("default", "release")),
]
