"""C06 — Closures capture variables by reference with correct identity and lifetime.

  C06.O  captured slots are frame-relative: in vm::instr_execution every value-stack index that derives from an operand
         decoded from the bytecode (or from a handler's parameter) includes a term derived from the current frame's
         stack_offset — as read_local_var / write_local_var do.
  C06.L  closure labels are program-unique: the handle under which a closure body is stored in the label table depends
         on something that identifies the enclosing function program-wide, not only on the module-local CardIndex.
  C06.R  close before truncate: instr_return closes upvalues before it truncates the value stack, and the range of slots it
         closes is the range it truncates: both start at the RETURNING frame's stack_offset (the popped frame's, or the
         current frame's read before the pop - not the frame that is current after the pop, which is the caller's);
         scope_end emits CloseUpvalue for captured locals and Pop for the others.
  C06.V  a closure captures the innermost binding of a name: resolve_upvalue (or the helper it calls) scans the enclosing
         function's locals so that the last declared match wins, with a front-based index (as resolve_var does, C01.V).
  C06.D  upvalue descriptors are de-duplicated on their full identity: the early return of add_upvalue compares every
         field of the descriptor it would otherwise push ((is_local, index) - a local slot and a parent upvalue with the
         same number are different variables).
  C06.N  the list of open upvalues stays linked: where register_upvalue puts a new upvalue into the list, the new
         node's `next` receives the successor the search stopped at, and its predecessor (or the list head) receives
         the new node. The walk over the list may be in register_upvalue or in a helper that is handed the list head and
         returns the cursor (and the predecessor) it stopped at.
  C06.X  the components xor-ed into a closure label cannot cancel: Handle's `+` is xor, so two components produced by
         the same hash from run-of-the-mill indices (e.g. from_u64(module-local function index) and
         from_u64(program-wide function index)) cancel whenever the indices are equal and the label no longer depends
         on either.
  C06.I  (= C01.L, shared) each loop iteration captures a distinct variable: the script-visible loop variable is a local of
         the body scope written once per iteration; the slot the loop code itself reads is unnameable, so no closure can
         capture the running counter.
  C06.W  upvalue indices are per function: when resolve_upvalue finds the variable as an upvalue of the enclosing function it
         registers an upvalue of its own (add_upvalue(.., false, function_id)) and returns THAT index; the enclosing
         function's index is never handed to the inner function (every `Variable::Upvalue(i)` built in resolve_upvalue takes
         i from add_upvalue, and the branch / match arm that saw an Upvalue from the recursive call yields its own index; in
         the iterative form the returned index is the last link of the chain add_upvalue(.., X), add_upvalue(.., X+1) ..
         add_upvalue(.., function_id)).
  C06.U  scope / compile brackets balanced (= C01.S, shared).
"""
from cao.facts import (AnchorMissing, callee_names, short, op_local, op_place, DefUse, hir_walk, hir_callee, hir_strip, hir_local_id,
                       iter_stmts, rvalue_operands, rvalue_places)
from cao.rules import Rule, ok, bad, undecided, note, shared
from cao import mirutil as mu
from cao import hirutil as hu

EXPLANATION = (
    "C06.O: compile-time local indices are frame-relative, so every run-time access to the value stack by such an index "
    "must add the frame's stack_offset. The rule takes every index operand of ValueStack::get/set and of indexing into "
    "ValueStack::as_slice() in vm::instr_execution, slices it backwards (MIR def-use, through helper parameters to their "
    "call sites) to its leaves and requires a leaf derived from stack_offset whenever a leaf is a decoded operand. C06.L: "
    "backward slice (HIR) of the key under which the Closure arm of process_card inserts the closure body into the label "
    "table; if it depends only on current_index, whose `function` component is FunctionIr.function_index — assigned from a "
    "per-module enumerate() in flatten_module — two closures at the same card position of same-numbered functions in "
    "different modules share a label. C06.R: dominance of _close_upvalues over clear_until in instr_return, and the "
    "captured/not-captured branch of scope_end. Decides the two addressing conventions closures depend on, for all "
    "programs; not sharing/lifetime semantics as such."
)
ASSUMPTIONS = ["C10 (operands decode to what the compiler wrote)", "C01.S (scopes balanced, so compile-time slots equal run-time slots)"]

IE = "vm::instr_execution::"


def leaves_of_index(F, f, du, op, depth=0, seen=None):
    """leaf kinds of an index expression: 'decoded', 'offset', 'param:<n>', 'len', 'const', 'other'"""
    out = set()
    if op.get("k") == "const":
        return {"const"}
    p = op_place(op)
    if p is None:
        return {"other"}
    if seen is None:
        seen = set()
    if p["p"]:
        names = [e["name"] for e in p["p"] if e["k"] == "field"]
        if "stack_offset" in names:
            return {"offset"}
        if all(e["k"] == "field" and e["name"] in ("0", "1") for e in p["p"]):
            pass
        else:
            return {"other"}
    l = p["l"]
    if l in seen or depth > 14:
        return {"other"}
    seen.add(l)
    ds = du.defs.get(l, [])
    if not ds:
        if 1 <= l <= f.mir["arg_count"]:
            return {"param:%d" % l}
        return {"other"}
    for (bi, si, kind, payload) in ds:
        if kind == "call":
            nm = callee_names(payload["func"])
            if any(n == IE + "decode_value" for n in nm):
                out.add("decoded")
            elif any(n == IE + "stack_offset" for n in nm):
                out.add("offset")
            elif _summary_leaves(F, nm, depth) is not None:
                # a crate helper: what its return value is made of, its parameters replaced by the arguments of this call
                for lf in _summary_leaves(F, nm, depth):
                    if lf.startswith("param:"):
                        n_ = int(lf.split(":")[1])
                        if n_ - 1 < len(payload["args"]):
                            out |= leaves_of_index(F, f, du, payload["args"][n_ - 1], depth + 1, seen)
                        else:
                            out.add("other")
                    else:
                        out.add(lf)
            elif any(n.rsplit("::", 1)[-1] in ("len",) for n in nm):
                out.add("len")
            elif any(n.rsplit("::", 1)[-1] in ("checked_sub", "checked_add", "saturating_sub", "min", "max", "unwrap", "ok_or", "branch", "into", "try_from", "from") for n in nm):
                for a in payload["args"]:
                    out |= leaves_of_index(F, f, du, a, depth + 1, seen)
            else:
                out.add("other")
            continue
        rv = payload["rv"]
        k = rv["k"]
        if k in ("use", "cast"):
            out |= leaves_of_index(F, f, du, rv["op"], depth + 1, seen)
        elif k == "bin":
            out |= leaves_of_index(F, f, du, rv["l"], depth + 1, seen)
            out |= leaves_of_index(F, f, du, rv["r"], depth + 1, seen)
        else:
            out.add("other")
    return out


def _summary_leaves(F, names, depth):
    """leaves of the value a crate function of vm:: returns (e.g. a helper that reads the current frame's stack_offset under
    any name), None when the callee has no body in the facts or is not an integer-valued helper"""
    if depth > 6:
        return None
    for n in names:
        g = F.fn(n, required=False)
        if g is None or not g.mir or g.is_closure or not g.short.startswith("vm::"):
            continue
        if g.local_ty(0) not in ("usize", "u32", "u64", "isize", "i32", "i64"):
            continue
        cache = F.__dict__.setdefault("_c06_ret_leaves", {})
        if g.short not in cache:
            cache[g.short] = None   # recursion guard
            cache[g.short] = leaves_of_index(F, g, DefUse(g), {"k": "copy", "place": {"l": 0, "p": []}}, depth + 1)
        return cache[g.short]
    return None


def param_leaves_at_callers(F, f, param, depth=0):
    """what a helper's parameter is at its call sites"""
    out = set()
    callers = 0
    for g in F.fns:
        if not g.mir:
            continue
        du = None
        for bi, t in mu.calls(g):
            if f.short in callee_names(t["func"]) and len(t["args"]) >= param:
                callers += 1
                if du is None:
                    du = DefUse(g)
                lv = leaves_of_index(F, g, du, t["args"][param - 1])
                for x in list(lv):
                    if x.startswith("param:") and depth < 3:
                        lv.discard(x)
                        lv |= param_leaves_at_callers(F, g, int(x.split(":")[1]), depth + 1)
                out |= lv
    if callers == 0:
        out.add("param-unresolved")
    return out


def rule_o(F):
    res = []
    fns = [f for f in F.fns if f.mir and (f.root or f.short).startswith(IE)]
    n = 0
    counters = {}
    for f in fns:
        du = DefUse(f)
        sites = []
        for bi, t in mu.calls(f):
            nm = callee_names(t["func"])
            if any(x in ("collections::value_stack::ValueStack::get", "collections::value_stack::ValueStack::set") for x in nm):
                sites.append((t.get("ln"), t["args"][1], nm[0].rsplit("::", 1)[-1]))
        # indexing into as_slice()
        slice_locals = set()
        for bi, t in mu.calls(f):
            if "collections::value_stack::ValueStack::as_slice" in callee_names(t["func"]):
                slice_locals.add(t["dest"]["l"])
        # as_slice().get(i) / get_mut(i): the checked form of the same access
        for bi, t in mu.calls(f):
            nm = callee_names(t["func"])
            if any(x.rsplit("::", 1)[-1] in ("get", "get_mut", "get_unchecked", "get_unchecked_mut") and "slice" in x for x in nm) and len(t["args"]) == 2:
                r = op_local(t["args"][0])
                seen_r = set()
                while r is not None and r not in slice_locals and r not in seen_r:
                    seen_r.add(r)
                    d = du.sole_def(r)
                    if d is None or d[2] != "assign" or d[3]["rv"]["k"] not in ("use", "cast", "ref"):
                        break
                    pl_ = d[3]["rv"].get("place") or op_place(d[3]["rv"].get("op"))
                    r = pl_["l"] if pl_ is not None else None
                if r in slice_locals:
                    sites.append((t.get("ln"), t["args"][1], "as_slice().get(..)"))
        for b in f.blocks:
            for st in b["stmts"]:
                if st["k"] != "assign":
                    continue
                from cao.facts import rvalue_places
                for p in rvalue_places(st["rv"]) + [st["place"]]:
                    if p["l"] in slice_locals:
                        for e in p["p"]:
                            if e["k"] == "index":
                                sites.append((st.get("ln"), {"k": "copy", "place": {"l": e["local"], "p": []}}, "as_slice()[..]"))
        for ln, idx, how in sites:
            n += 1
            fname = (f.root or f.short).rsplit("::", 1)[-1]
            c = counters.get(fname, 0)
            counters[fname] = c + 1
            key = "C06/O/%s/stack-index#%d" % (fname, c)
            lv = leaves_of_index(F, f, du, idx)
            for x in list(lv):
                if x.startswith("param:"):
                    lv.discard(x)
                    lv |= param_leaves_at_callers(F, f, int(x.split(":")[1]))
            if "decoded" in lv and "offset" not in lv:
                res.append(bad("C06.O", key, f.loc(ln),
                               "%s addresses the value stack with an operand decoded from the bytecode (%s) without adding the current frame's "
                               "stack_offset: compile-time slot numbers are frame-relative, so in any frame with a non-zero offset (a function "
                               "called with arguments) this is another frame's slot" % (fname, how), leaves=sorted(lv)))
            elif "decoded" in lv:
                res.append(ok("C06.O", key, f.loc(ln), "decoded slot number is added to the frame's stack_offset", leaves=sorted(lv)))
            elif "other" in lv or "param-unresolved" in lv:
                res.append(undecided("C06.O", key, f.loc(ln), "index expression not resolved: %s" % sorted(lv)))
            else:
                res.append(ok("C06.O", key, f.loc(ln), "index does not come from the bytecode (%s)" % sorted(lv)))
    if n < 3:
        raise AnchorMissing("value-stack index sites in vm::instr_execution (found %d)" % n)
    return res


# ---------------------------------------------------------------------------------------------------
# C06.L
# ---------------------------------------------------------------------------------------------------

def expr_leaves(f, e, depth=0, seen=None):
    """leaf descriptions of a HIR expression: field chains rooted at self, constants, calls"""
    if seen is None:
        seen = set()
    e = hu.strip_casts(e)
    if e is None:
        return set()
    k = e.get("k")
    if k == "lit":
        return {"const"}
    fc = hu.field_chain(e)
    if fc is not None and fc[1]:
        return {"field:" + ".".join(fc[1])}
    if k == "path":
        r = e["path"]["res"]
        if r["k"] == "local":
            if r["id"] in seen or depth > 8:
                return {"local:" + r["name"]}
            seen.add(r["id"])
            inits = hu.let_inits(f).get(r["id"], [])
            if not inits:
                return {"local:" + r["name"]}
            out = set()
            for i in inits:
                out |= expr_leaves(f, i, depth + 1, seen)
            return out
        return {"const"}
    if k in ("call", "mcall"):
        out = set()
        subs = ([e["recv"]] if k == "mcall" else []) + list(e["args"])
        for a in subs:
            out |= expr_leaves(f, a, depth + 1, seen)
        return out or {"const"}
    if k == "bin":
        return expr_leaves(f, e["l"], depth + 1, seen) | expr_leaves(f, e["r"], depth + 1, seen)
    if k in ("addr_of", "un", "field"):
        return expr_leaves(f, e["e"], depth + 1, seen)
    return {"other:" + str(k)}


def function_index_is_module_local(F):
    """FunctionIr.function_index is assigned from an enumerate() that restarts for every module (flatten_module)."""
    g = F.fn("compiler::module::function_to_function_ir")
    params = [p.get("id") for p in g.hir["params"]]
    src_param = None
    handle_param = None
    for x in hir_walk(g.hir["body"]):
        if x.get("k") == "struct" and short(x["path"]["res"].get("path", "")).endswith("FunctionIr"):
            for fld in x["fields"]:
                lv = expr_leaves(g, fld["e"])
                ids = [hir_local_id(hu.strip_casts(fld["e"]))]
                if fld["name"] == "function_index" and ids[0] in params:
                    src_param = params.index(ids[0])
                if fld["name"] == "handle":
                    for y in hir_walk(fld["e"]):
                        lid = hir_local_id(y) if y.get("k") == "path" else None
                        if lid in params:
                            handle_param = params.index(lid)
    fm = F.fn("compiler::module::flatten_module")
    local = None
    for x in hir_walk(fm.hir["body"]):
        if x.get("k") == "call" and "compiler::module::function_to_function_ir" in hir_callee(x) and src_param is not None:
            a = hu.strip_casts(x["args"][src_param])
            # is it the index variable of `module.functions.iter().enumerate()` ?
            lid = hir_local_id(a)
            for y in hir_walk(fm.hir["body"]):
                if y.get("k") == "match" and y.get("source", "").startswith("ForLoopDesugar"):
                    it = hir_strip(y["scrut"])
                    it = hir_strip(it["args"][0]) if it.get("k") == "call" and it["args"] else it
                    if it.get("k") == "mcall" and it["name"] == "enumerate":
                        base = hu.field_chain(hir_strip(hir_strip(it["recv"]).get("recv", it["recv"])))
                        from cao.facts import pat_bindings
                        for z in hir_walk(y):
                            if z.get("k") == "match":
                                for arm in z["arms"]:
                                    for bid, nm in pat_bindings(arm["pat"]):
                                        if bid == lid and base and base[1][-1:] == ["functions"] and base[2] == "module":
                                            local = True
    return local, src_param, handle_param


def closure_label_inserts(F):
    """the insertions into the label table made on behalf of a Closure card: `<..>.labels.0.insert(key, ..)` calls in the
    Closure arm of process_card or in the Compiler methods that arm calls (the arm may be a one-line call of a private
    method; process_card / compile_subexpr - the compilation of child cards - are not entered). -> [(function, call node)]"""
    from rules.c10 import arm_labels
    f = F.fn("compiler::Compiler::process_card")
    labels = arm_labels(f)
    out = []
    seen = {f.short, "compiler::Compiler::compile_subexpr"}
    # work items: (function, its nodes, the call that entered it: (caller function, call node) | None)
    work = [(f, [x for x in hir_walk(f.hir["body"]) if labels.get(id(x)) == "Closure"], None)]
    while work:
        g, nodes, via = work.pop(0)
        for x in nodes:
            if x.get("k") == "mcall" and x["name"] == "insert":
                fc = hu.field_chain(x["recv"])
                if fc and fc[1][-2:] == ["labels", "0"]:
                    kf, key = g, x["args"][0]
                    # the key is a parameter of a helper (`label_next_instruction(handle)`): it stands for the argument of the
                    # call through which the Closure arm reached the helper
                    lid = hir_local_id(hu.strip_all(key))
                    if via is not None and lid is not None and not hu.let_inits(g).get(lid):
                        cf, cn = via
                        args = ([cn["recv"]] if cn.get("k") == "mcall" else []) + list(cn["args"])
                        for a_, p_ in zip(args, g.hir.get("params", [])):
                            if p_.get("k") == "bind" and p_["id"] == lid:
                                kf, key = cf, a_
                    out.append((kf, x, key))
            if x.get("k") in ("call", "mcall"):
                for n in hir_callee(x):
                    h = F.fn(n, required=False)
                    if h is not None and h.hir is not None and not h.is_closure and n.startswith("compiler::Compiler::") and n not in seen:
                        seen.add(n)
                        work.append((h, list(hir_walk(h.hir["body"])), (g, x)))
    if not out:
        raise AnchorMissing("label insertion in the Closure arm of process_card")
    return out


def rule_l(F):
    res = []
    inserts = closure_label_inserts(F)
    local, _sp, _hp = function_index_is_module_local(F)
    for n, (f, x, key_expr) in enumerate(inserts):
        lv = expr_leaves(f, key_expr)
        key = "C06/L/process_card[Closure]/label-key-is-program-unique"
        wide = [l for l in lv if any(w in l for w in ("handle", "namespace", "current_function", "function_handle", "next_closure"))
                and "current_index" not in l]
        if wide:
            res.append(ok("C06.L", key, f.loc(x["ln"]), "the closure label depends on %s" % sorted(wide), leaves=sorted(lv)))
        elif local:
            res.append(bad("C06.L", key, f.loc(x["ln"]),
                           "the closure body is stored in the label table under a key that depends only on current_index (%s); its `function` "
                           "component is FunctionIr.function_index, the position of the function inside its own module: two closures at the same "
                           "card position of same-numbered functions in different modules get the same label and one runs the other's body"
                           % sorted(lv), leaves=sorted(lv)))
        else:
            res.append(undecided("C06.L", key, f.loc(x["ln"]), "could not establish whether CardIndex.function is program-wide (%s)" % sorted(lv)))
    return res


# ---------------------------------------------------------------------------------------------------
# C06.R
# ---------------------------------------------------------------------------------------------------

UNWRAPS = ("unwrap", "expect", "unwrap_unchecked", "as_ref", "as_mut", "deref", "deref_mut", "borrow", "borrow_mut", "clone", "into", "from",
           "try_from", "try_into", "branch", "ok_or", "ok_or_else", "ok", "copied", "cloned")


def _address_helper_index_param(F, names, depth=0):
    """for a crate function that returns `<base pointer>.add(i)` / `&slice[i]` with i one of its parameters: the number of
    that parameter (MIR local), else None"""
    for n in names:
        g = F.fn(n, required=False)
        if g is None or not g.mir or g.is_closure or not g.local_ty(0).lstrip().startswith(("*const", "*mut", "&")) or depth > 2:
            continue
        du = DefUse(g)
        cur = 0
        for _ in range(10):
            d = du.sole_def(cur)
            if d is None:
                break
            if d[2] == "call":
                nm = callee_names(d[3]["func"])
                last = [x.rsplit("::", 1)[-1] for x in nm]
                if any(x in ("add", "offset", "wrapping_add", "get_unchecked", "get_unchecked_mut") for x in last) and len(d[3]["args"]) == 2:
                    l = op_local(d[3]["args"][1])
                    k, payload = du.trace_back(l) if l is not None else (None, None)
                    return payload if k == "arg" else None
                if d[3]["args"] and op_local(d[3]["args"][0]) is not None and any(x in ("cast", "cast_mut", "cast_const") + UNWRAPS for x in last):
                    cur = op_local(d[3]["args"][0])
                    continue
                break
            rv = d[3]["rv"]
            if rv["k"] in ("ref", "rawptr"):
                idx = [e for e in rv["place"]["p"] if e["k"] == "index"]
                if len(idx) == 1:
                    k, payload = du.trace_back(idx[0]["local"])
                    return payload if k == "arg" else None
                if not idx and all(e["k"] == "deref" for e in rv["place"]["p"]):
                    cur = rv["place"]["l"]
                    continue
                break
            if rv["k"] in ("use", "cast") and op_local(rv["op"]) is not None:
                cur = op_local(rv["op"])
                continue
            break
    return None


def _return_ranges_coincide(F, f, closer):
    """C06.R, third clause: when a frame returns, the range of stack slots whose upvalues are closed and the range that is
    truncated are the same range - both start at the RETURNING frame's stack_offset. The start of the close range is the
    index the address handed to the upvalue-closing loop is computed from (`as_ptr().add(i)`, `&slice[i]`), the truncation
    height is the argument of clear_until. Each is traced (MIR, copies / casts / unwrapping calls / integer helpers) to a read
    of some call frame's `stack_offset`: the frame popped off the call stack, or the frame that is current at the point of the
    read - which is the returning frame before the pop and the CALLER's frame after it."""
    cfg = f.cfg
    du = DefUse(f)
    key = "C06/R/instr_return/close-range-is-the-truncated-range"

    def on_call_stack(op):
        l = op_local(op)
        if l is None:
            return False
        kind, payload = du.trace_back(l)
        return kind == "place" and "call_stack" in [e["name"] for e in payload["p"] if e["k"] == "field"]
    pops = [bi for bi, t in mu.calls(f) if any(n.rsplit("::", 1)[-1] in ("pop", "pop_back") for n in callee_names(t["func"])) and t["args"] and on_call_stack(t["args"][0])]

    def current_at(bi):
        """a read of the current frame in block bi: which frame is that?"""
        if len(pops) != 1:
            return ("unknown", "the frame pop was not found")
        pb = pops[0]
        if bi != pb and cfg.dominates(pb, bi):
            return ("caller", "read after the returning frame was popped")
        if bi != pb and cfg.dominates(bi, pb):
            return ("returning", "read before the frame is popped")
        return ("unknown", "position of the read relative to the pop")

    def frame_of(l, depth=0, seen=None):
        """which call frame does the frame value / reference in local l denote?"""
        seen = seen if seen is not None else set()
        if depth > 12 or l in seen:
            return ("unknown", "cyclic")
        seen.add(l)
        ds = _whole_defs(du, l)
        out = set()
        for bi, _si, kind, d in ds:
            if kind == "call":
                nm = callee_names(d["func"])
                last = [n.rsplit("::", 1)[-1] for n in nm]
                if d["args"] and on_call_stack(d["args"][0]) and any(x in ("pop", "pop_back") for x in last):
                    out.add(("returning", "the popped frame"))
                elif d["args"] and on_call_stack(d["args"][0]) and any(x in ("last", "last_mut", "peek", "top") for x in last):
                    out.add(current_at(bi))
                elif d["args"] and any(x in UNWRAPS for x in last) and op_local(d["args"][0]) is not None:
                    out.add(frame_of(op_local(d["args"][0]), depth + 1, seen))
                else:
                    out.add(("unknown", "call %s" % nm[:1]))
            else:
                rv = d["rv"]
                pls = rvalue_places(rv) if rv["k"] in ("use", "cast", "ref", "rawptr") else []
                if len(pls) == 1 and all(e["k"] in ("deref", "downcast") or (e["k"] == "field" and e["name"] == "0") for e in pls[0]["p"]):
                    out.add(frame_of(pls[0]["l"], depth + 1, seen))
                else:
                    out.add(("unknown", "definition of the frame value"))
        if len(out) == 1:
            return out.pop()
        return ("unknown", "frame value has %d definitions" % len(ds))

    def base_of(op, depth=0, seen=None):
        """which frame's stack_offset is this integer?"""
        seen = seen if seen is not None else set()
        p = op_place(op)
        if p is None:
            return ("unknown", "constant")
        if p["p"]:
            if [e["name"] for e in p["p"] if e["k"] == "field"][-1:] == ["stack_offset"]:
                return frame_of(p["l"])
            return ("unknown", "projection")
        l = p["l"]
        if depth > 12 or l in seen:
            return ("unknown", "cyclic")
        seen.add(l)
        ds = _whole_defs(du, l)
        out = set()
        for bi, _si, kind, d in ds:
            if kind == "call":
                nm = callee_names(d["func"])
                last = [n.rsplit("::", 1)[-1] for n in nm]
                if nm and nm[0] == IE + "stack_offset" or _summary_leaves(F, nm, 0) == {"offset"}:
                    out.add(current_at(bi))
                elif d["args"] and any(x in UNWRAPS for x in last):
                    out.add(base_of(d["args"][0], depth + 1, seen))
                else:
                    out.add(("unknown", "call %s" % nm[:1]))
            elif d["rv"]["k"] in ("use", "cast"):
                out.add(base_of(d["rv"]["op"], depth + 1, seen))
            else:
                out.add(("unknown", "arithmetic on the frame base"))
        if len(out) == 1:
            return out.pop()
        return ("unknown", "%d definitions" % len(ds))

    def index_of_address(op, depth=0):
        """the slot index an address into the value stack is computed from"""
        l = op_local(op)
        if l is None or depth > 8:
            return None
        d = du.sole_def(l)
        if d is None:
            return None
        if d[2] == "call":
            nm = callee_names(d[3]["func"])
            last = [n.rsplit("::", 1)[-1] for n in nm]
            if any(x in ("add", "offset", "wrapping_add", "get_unchecked", "get_unchecked_mut") for x in last) and len(d[3]["args"]) == 2:
                return d[3]["args"][1]
            if any(x in ("cast", "cast_mut", "cast_const", "as_ptr", "as_mut_ptr", "from_ref", "from_mut") + UNWRAPS for x in last) and d[3]["args"]:
                return index_of_address(d[3]["args"][0], depth + 1)
            # a crate helper that computes the address of slot <parameter> (`stack_slot_location(vm, index)`)
            pi = _address_helper_index_param(F, nm)
            if pi is not None and pi - 1 < len(d[3]["args"]):
                return d[3]["args"][pi - 1]
            return None
        rv = d[3]["rv"]
        if rv["k"] in ("ref", "rawptr"):
            idx = [e for e in rv["place"]["p"] if e["k"] == "index"]
            if len(idx) == 1:
                return {"k": "copy", "place": {"l": idx[0]["local"], "p": []}}
            if not idx and all(e["k"] == "deref" for e in rv["place"]["p"]):
                return index_of_address({"k": "copy", "place": {"l": rv["place"]["l"], "p": []}}, depth + 1)
            return None
        if rv["k"] in ("use", "cast"):
            return index_of_address(rv["op"], depth + 1)
        return None

    res = []
    close_calls = [(bi, t) for bi, t in mu.calls(f) if closer in callee_names(t["func"])]
    trunc_calls = [(bi, t) for bi, t in mu.calls(f) if "collections::value_stack::ValueStack::clear_until" in callee_names(t["func"])]
    if not close_calls or not trunc_calls:
        return [undecided("C06.R", key, f.loc(), "no call of the upvalue-closing loop / clear_until in instr_return")]
    found = []
    for what, calls_ in (("close", close_calls), ("truncate", trunc_calls)):
        for bi, t in calls_:
            if what == "close":
                ptr_args = [a for a in t["args"] if op_local(a) is not None and f.local_ty(op_local(a)).lstrip().startswith(("*const", "*mut"))]
                idx = index_of_address(ptr_args[0]) if len(ptr_args) == 1 else None
                if idx is None:
                    found.append((what, t, ("unknown", "the address passed to the closing loop is not `stack base + index`")))
                    continue
            else:
                idx = t["args"][1]
            found.append((what, t, base_of(idx)))
    unknown = [(w, t, b) for w, t, b in found if b[0] == "unknown"]
    wrong = [(w, t, b) for w, t, b in found if b[0] == "caller"]
    if wrong:
        w, t, b = wrong[0]
        if w == "close":
            res.append(bad("C06.R", key, f.loc(t.get("ln")),
                           "instr_return closes the open upvalues from the stack_offset of the frame that is current AFTER the returning frame "
                           "was popped - the caller's frame base - while the value stack is truncated at the returning frame's: every Return "
                           "also closes the upvalues of the caller's captured locals, so after any call returns the caller and its closures no "
                           "longer share the variable (`let x; let f = || x; g(); x = 1; f()` sees the old x)", frames=[(w_, b_[0]) for w_, _t, b_ in found]))
        else:
            res.append(bad("C06.R", key, f.loc(t.get("ln")),
                           "instr_return truncates the value stack at the stack_offset of the frame that is current AFTER the returning frame was "
                           "popped (the caller's frame base): the truncated range is not the range whose upvalues were closed, the caller's "
                           "locals are dropped with open upvalues still pointing at them", frames=[(w_, b_[0]) for w_, _t, b_ in found]))
    elif unknown:
        w, t, b = unknown[0]
        res.append(undecided("C06.R", key, f.loc(t.get("ln")), "start of the %s range not traced to a call frame's stack_offset (%s)" % (w, b[1])))
    else:
        res.append(ok("C06.R", key, f.loc(close_calls[0][1].get("ln")),
                      "upvalues are closed from, and the value stack is truncated at, the returning frame's stack_offset"))
    return res



def rule_r(F):
    res = []
    f = F.fn(IE + "instr_return")
    cfg = f.cfg
    closer = mu.upvalue_closer(F).short
    close = [bi for bi, t in mu.calls(f) if closer in callee_names(t["func"])]
    trunc = [bi for bi, t in mu.calls(f) if "collections::value_stack::ValueStack::clear_until" in callee_names(t["func"])]
    if not trunc:
        raise AnchorMissing("clear_until in instr_return")
    if close and all(any(cfg.dominates(c, tb) and c != tb for c in close) for tb in trunc):
        res.append(ok("C06.R", "C06/R/instr_return/close-before-truncate", f.loc(), "_close_upvalues dominates the truncation of the value stack"))
    else:
        res.append(bad("C06.R", "C06/R/instr_return/close-before-truncate", f.loc(),
                       "instr_return truncates the value stack without first closing the upvalues that point into the frame: closures "
                       "that outlive the call read slots that are reused by later frames"))
    res += _return_ranges_coincide(F, f, closer)
    # CloseUpvalue releases the slot it closed (scope_end emits exactly one instruction per local leaving the scope)
    cu = F.fn(IE + "close_upvalues")
    ccfg = cu.cfg
    closes = [bi for bi, t in mu.calls(cu) if closer in callee_names(t["func"])]
    pops = set(bi for bi, t in mu.calls(cu) if any(n in ("collections::value_stack::ValueStack::pop", "vm::Vm::stack_pop",
                                                         "collections::value_stack::ValueStack::pop_n") for n in callee_names(t["func"])))
    if not closes:
        raise AnchorMissing("call of the upvalue-closing loop in close_upvalues")
    err = mu.error_exit_blocks(cu)
    rets = set(ccfg.return_blocks())
    t0 = cu.blocks[closes[0]]["term"]["target"]
    leak = ccfg.reachable_from(t0, avoid=pops | err) & rets if t0 is not None else rets
    if pops and not leak:
        res.append(ok("C06.R", "C06/R/close_upvalues/releases-the-slot", cu.loc(), "CloseUpvalue closes the top slot's upvalues and pops the slot on every Ok path"))
    else:
        res.append(bad("C06.R", "C06/R/close_upvalues/releases-the-slot", cu.loc(),
                       "CloseUpvalue closes the upvalues of the top slot but leaves the slot on the stack: when two captured locals leave a "
                       "scope together the second CloseUpvalue still sees the first slot on top, the second local's upvalue stays open and "
                       "its closure later reads a reused stack slot"))
    # scope_end: if var.captured { CloseUpvalue } else { Pop } - the two instructions are emitted in the branches, or the
    # branches select the instruction that one emission after them pushes (`let i = if captured {A} else {B}; push(i)`)
    g = F.fn("compiler::Compiler::scope_end")
    from rules.c10 import instr_ctor

    def is_emit(y):
        nm = hir_callee(y)
        if y.get("k") in ("call", "mcall") and "compiler::Compiler::push_instruction" in nm:
            return True
        return y.get("k") == "mcall" and any(n.endswith("::push") for n in nm) and bool(y["args"]) and isinstance(instr_ctor(y["args"][0]), (str, tuple))

    def emitted(e):
        out = []
        for y in hir_walk(e):
            if y.get("k") in ("call", "mcall") and is_emit(y):
                v = instr_ctor(y["args"][0])
                if v:
                    out.append(v)
        return out

    def value_ctor(e):
        e = hir_strip(e)
        while e is not None and e.get("k") == "block" and e["block"].get("expr") is not None:
            e = hir_strip(e["block"]["expr"])
        v = instr_ctor(e) if e is not None else None
        return v if isinstance(v, str) else None

    def derives_captured(fn_, e, depth=0):
        """the expression is the `captured` flag of a Local: the field itself, or a local whose single initialiser yields it on
        every path that continues (`match last() { Some(v) if .. => v.captured, _ => break }`)"""
        e = hu.strip_casts(e)
        if e is None or depth > 4:
            return False
        k = e.get("k")
        if k == "field":
            return e["name"] == "captured"
        if k == "path" and e["path"]["res"].get("k") == "local":
            inits = hu.let_inits(fn_).get(e["path"]["res"]["id"], [])
            return len(inits) == 1 and derives_captured(fn_, inits[0], depth + 1)
        if k == "block" and e["block"].get("expr") is not None:
            return derives_captured(fn_, e["block"]["expr"], depth + 1)
        if k in ("match", "if"):
            outs = [a["body"] for a in e["arms"]] if k == "match" else [e["then"], e.get("else")]
            live = [o for o in outs if o is not None and hir_strip(o).get("ty") != "!"]
            return bool(live) and all(derives_captured(fn_, o, depth + 1) for o in live)
        return False

    def captured_test(fn_, c, cap_params=()):
        """(is a test of Local.captured, negated); cap_params: parameters of a helper that receive the flag at every call"""
        c = hu.strip_casts(c)
        neg = False
        while c is not None and c.get("k") == "un" and c["op"] == "Not":
            neg = not neg
            c = hu.strip_casts(c["e"])
        if c is not None and hir_local_id(c) in cap_params:
            return True, neg
        return derives_captured(fn_, c), neg

    def selects_emitted_instruction(node):
        """the value of `node` is what a push_instruction pushes: directly, or through a local initialised once with it"""
        inits = hu.let_inits(g)
        carriers = set(lid for lid, es in inits.items() if len(es) == 1 and hir_strip(es[0]) is node)
        for y in hir_walk(g.hir["body"]):
            if y.get("k") in ("call", "mcall") and is_emit(y):
                a0 = hir_strip(y["args"][0])
                if a0 is node or hir_local_id(a0) in carriers:
                    return True
        return False

    def returns_value_of(h, node):
        """`node` is the value the helper h returns (tail expression of its body)"""
        e = hir_strip(h.hir["body"])
        while e is not None and e.get("k") == "block" and e["block"].get("expr") is not None:
            if e is node:
                return True
            e = hir_strip(e["block"]["expr"])
        return e is node

    # where to look: scope_end itself, and helpers it calls that are handed the flag (`Self::drop_instruction(captured)`)
    places = [(g, (), None)]
    for y in hir_walk(g.hir["body"]):
        if y.get("k") not in ("call", "mcall"):
            continue
        for n in hir_callee(y):
            h = F.fn(n, required=False)
            if h is None or h.hir is None or h.is_closure or h is g or not n.startswith("compiler::Compiler::"):
                continue
            args = ([y["recv"]] if y.get("k") == "mcall" else []) + list(y["args"])
            cap = []
            for a_, p_ in zip(args, h.hir.get("params", [])):
                if p_.get("k") == "bind" and derives_captured(g, a_):
                    cap.append(p_["id"])
            if cap:
                places.append((h, tuple(cap), y))
    found = None
    for h, cap_params, call_site in places:
        for x in hir_walk(h.hir["body"]):
            branches = None
            if x.get("k") == "if":
                is_cap, neg = captured_test(h, x["cond"], cap_params)
                if is_cap:
                    branches = (x["then"], x.get("else")) if not neg else (x.get("else"), x["then"])
            elif x.get("k") == "match" and not str(x.get("source", "")).startswith(("TryDesugar", "ForLoopDesugar")) \
                    and captured_test(h, x["scrut"], cap_params) == (True, False):
                yes = no = None
                for a in x["arms"]:
                    lit = a["pat"].get("lit", {}).get("v") if a["pat"].get("k") == "expr" else None
                    if lit is True:
                        yes = a["body"]
                    elif lit is False or a["pat"].get("k") in ("wild", "bind"):
                        no = a["body"] if no is None else no
                if yes is not None:
                    branches = (yes, no)
            if branches is None:
                continue
            t, e = branches
            em = (emitted(t) if t is not None else [], emitted(e) if e is not None else [])
            if not em[0] and not em[1] and t is not None and e is not None and value_ctor(t) and value_ctor(e):
                if (h is g and selects_emitted_instruction(x)) or \
                        (h is not g and returns_value_of(h, x) and selects_emitted_instruction(call_site)):
                    em = ([value_ctor(t)], [value_ctor(e)])
            found = em
    if found is None:
        res.append(undecided("C06.R", "C06/R/scope_end/captured-locals-are-closed", g.loc(), "branch on Local.captured not found"))
    elif found[0] == ["CloseUpvalue"] and found[1] == ["Pop"]:
        res.append(ok("C06.R", "C06/R/scope_end/captured-locals-are-closed", g.loc(), "captured locals emit CloseUpvalue, the others Pop"))
    else:
        res.append(bad("C06.R", "C06/R/scope_end/captured-locals-are-closed", g.loc(),
                       "scope_end must emit CloseUpvalue for captured locals and Pop for the others (emits %s / %s)" % found))
    return res


# ---------------------------------------------------------------------------------------------------
# C06.V, C06.D
# ---------------------------------------------------------------------------------------------------

def rule_v(F):
    from cao import scoping as sc
    return sc.rule_innermost(F, "C06.V", "compiler::Compiler::resolve_upvalue", "locals", "C06/V/resolve_upvalue")


def rule_d(F):
    from cao import scoping as sc
    res = []
    f = F.fn("compiler::Compiler::add_upvalue")
    key = "C06/D/add_upvalue/dedup-compares-whole-descriptor"
    # the descriptor that is pushed when no existing one matches
    lit = None
    for x in hir_walk(f.hir["body"]):
        if x.get("k") == "struct" and short(x["path"]["res"].get("path", "")).endswith("Upvalue"):
            lit = x
    if lit is None:
        raise AnchorMissing("Upvalue { .. } literal in add_upvalue")
    want = {}
    for fld in lit["fields"]:
        lid = hir_local_id(hu.strip_casts(fld["e"]))
        if lid is None:
            return [undecided("C06.D", key, f.loc(lit["ln"]), "descriptor field `%s` is not initialised from a parameter" % fld["name"])]
        want[fld["name"]] = lid
    adt = F.adt("compiler::Upvalue")
    all_fields = [fl["name"] for fl in adt["variants"][0]["fields"]]
    ss = [s for s in sc.searches(f) if "upvalues" in s["base_fields"] and s["first_hit"]]
    if not ss:
        return [note("C06.D", key, f.loc(), "add_upvalue does not look for an existing descriptor (no de-duplication: nothing to conflate)")]
    for s in ss:
        eqs = []
        pure = True
        for c in s["conds"]:
            e = sc.conj_eqs(c)
            if e is None:
                pure = False
            else:
                eqs += e
        if not pure:
            res.append(undecided("C06.D", key, f.loc(s["ln"]), "the de-duplication condition is not a conjunction of equalities"))
            continue
        have = set()
        for l, r in eqs:
            for a, b in ((l, r), (r, l)):
                if a.get("k") == "field" and hir_local_id(hu.strip_all(a["e"])) in s["elem_ids"]:
                    if hir_local_id(b) == want.get(a["name"]):
                        have.add(a["name"])
        missing = [n for n in all_fields if n not in have]
        if missing:
            res.append(bad("C06.D", key, f.loc(s["ln"]),
                           "add_upvalue returns an existing descriptor when only %s match; the descriptor it would push also has %s: "
                           "descriptors that differ in %s are conflated (e.g. local slot k of the parent and the parent's k-th upvalue are "
                           "two different variables), the closure then reads and writes the wrong variable"
                           % (sorted(have), missing, missing), compared=sorted(have), fields=all_fields))
        else:
            res.append(ok("C06.D", key, f.loc(s["ln"]), "the early return compares all descriptor fields %s" % all_fields, fields=all_fields))
    return res


# ---------------------------------------------------------------------------------------------------
# C06.X
# ---------------------------------------------------------------------------------------------------
HASH_CTORS = {"from_u64": "fnv-u64", "from_i64": "fnv-u64", "from_u32": "fnv-u32", "from_bytes": "fnv-bytes", "from_str": "fnv-bytes",
              "from_slice": "fnv-bytes", "from_bytes_iter": "fnv-bytes"}


def _is_const_expr(e):
    e = hu.strip_all(e)
    if e is None:
        return False
    if e.get("k") == "lit":
        return True
    if e.get("k") == "path":
        r = e["path"]["res"]
        return r["k"] == "def" and str(r.get("def_kind", "")).split(" ")[0] in ("Const", "AssocConst", "ConstParam")
    return False


def _param_field_binding(f, lid):
    """if local <lid> is bound by destructuring a struct-typed parameter: (adt path, field name)"""
    def rec(p, owner):
        if p is None:
            return None
        k = p.get("k")
        if k == "bind":
            if p["id"] == lid and owner is not None:
                return owner
            return rec(p.get("sub"), owner)
        if k == "struct":
            adt = short(p["path"]["res"].get("path", ""))
            for fl in p["fields"]:
                r = rec(fl["pat"], (adt, fl["name"]))
                if r:
                    return r
            return None
        if k in ("ref", "deref", "box"):
            return rec(p["pat"], owner)
        return None
    for p in f.hir["params"]:
        r = rec(p, None)
        if r:
            return r
    return None


def xor_leaves(F, f, e, depth=0, seen=None):
    """leaves of a tree of Handle `+` (xor): list of (hash kind | 'opaque', is_const, description)"""
    if seen is None:
        seen = set()
    e = hu.strip_all(e)
    if e is None or depth > 12:
        return [("opaque", False, "?")]
    k = e.get("k")
    if k == "bin" and e["op"] == "Add" and any(n.endswith("Handle::add") or n.endswith("Add::add") for n in hir_callee(e)):
        return xor_leaves(F, f, e["l"], depth + 1, seen) + xor_leaves(F, f, e["r"], depth + 1, seen)
    if k in ("call", "mcall"):
        names = hir_callee(e)
        for n in names:
            last = n.rsplit("::", 1)[-1]
            if "Handle" in n and last in HASH_CTORS:
                args = e["args"]
                return [(HASH_CTORS[last], all(_is_const_expr(a) for a in args), "%s(..) at %s" % (last, f.loc(e.get("ln"))))]
        # a crate function returning a Handle: expand its body
        for n in names:
            g = F.fns_by_short.get(n) if hasattr(F, "fns_by_short") else None
            try:
                g = F.fn(n)
            except Exception:
                g = None
            if g is not None and g.hir is not None and (n, "fn") not in seen:
                seen.add((n, "fn"))
                body = g.hir["body"]
                return xor_leaves(F, g, body, depth + 1, seen)
        return [("opaque", False, "call %s" % (names or e.get("name")))]
    if k == "block":
        bl = e["block"]
        if bl.get("expr") is not None:
            return xor_leaves(F, f, bl["expr"], depth + 1, seen)
        return [("opaque", False, "block")]
    if k == "path":
        r = e["path"]["res"]
        if r["k"] == "local":
            if (f.path, r["id"]) in seen:
                return [("opaque", False, "cyclic local " + r["name"])]
            seen.add((f.path, r["id"]))
            inits = hu.let_inits(f).get(r["id"], [])
            if len(inits) == 1:
                return xor_leaves(F, f, inits[0], depth + 1, seen)
            pf = _param_field_binding(f, r["id"])
            if pf is not None:
                return _field_sources(F, pf[0], pf[1], depth, seen)
            # a plain parameter: what the callers pass for it
            ppos = [k_ for k_, p_ in enumerate(f.hir.get("params", [])) if p_.get("k") == "bind" and p_.get("id") == r["id"]]
            if ppos and not inits and not f.is_closure:
                out = []
                for g in F.fns:
                    if g.hir is None or g.raw.get("from_expansion"):
                        continue
                    for y in hir_walk(g.hir["body"]):
                        if y.get("k") in ("call", "mcall") and f.short in hir_callee(y):
                            args = ([y["recv"]] if y.get("k") == "mcall" else []) + list(y["args"])
                            if ppos[0] < len(args):
                                out += xor_leaves(F, g, args[ppos[0]], depth + 1, seen)
                if out:
                    return out
            return [("opaque", False, "local " + r["name"])]
        if _is_const_expr(e):
            return [("const", True, "const")]
        return [("opaque", False, "path")]
    if k == "field":
        fc = hu.field_chain(e)
        if fc is not None and fc[1]:
            owner = short(hu.strip_all(e["e"]).get("ty", "")).split("<")[0].lstrip("&mut ").strip()
            return _field_sources(F, owner, fc[1][-1], depth, seen)
    return [("opaque", False, str(k))]


def _field_sources(F, owner, field, depth, seen):
    """all values stored into <owner>.<field> anywhere in the crate: assignments and struct literals"""
    if ("field", owner, field) in seen:
        return []
    seen.add(("field", owner, field))
    out = []
    oshort = owner.rsplit("::", 1)[-1]
    for g in F.fns:
        if g.hir is None or g.raw.get("from_expansion"):
            continue  # derived impls (Clone, Deserialize) only copy the field
        for x in hir_walk(g.hir["body"]):
            if x.get("k") == "assign":
                l = hir_strip(x["l"])
                if l.get("k") == "field" and l["name"] == field:
                    t = hu.strip_all(l["e"]).get("ty", "")
                    if oshort in t:
                        out += xor_leaves(F, g, x["r"], depth + 1, seen)
            elif x.get("k") == "struct" and short(x["path"]["res"].get("path", "")).rsplit("::", 1)[-1] == oshort:
                for fl in x["fields"]:
                    if fl["name"] == field:
                        if _is_const_expr(fl["e"]) or (hu.strip_all(fl["e"]).get("k") == "call" and not hu.strip_all(fl["e"])["args"]):
                            continue  # Default::default() placeholder of the constructor
                        out += xor_leaves(F, g, fl["e"], depth + 1, seen)
    return out or [("opaque", False, "%s.%s has no visible source" % (owner, field))]


def rule_x(F):
    res = []
    inserts = closure_label_inserts(F)
    for f, x, key_expr in inserts:
        key = "C06/X/process_card[Closure]/label-components-cannot-cancel"
        lv = xor_leaves(F, f, key_expr)
        groups = {}
        for kind, const, desc in lv:
            if kind not in ("opaque", "const") and not const:
                groups.setdefault(kind, []).append(desc)
        opaque = [d for kind, const, d in lv if kind == "opaque"]
        clash = {k: v for k, v in groups.items() if len(v) > 1}
        if clash:
            res.append(bad("C06.X", key, f.loc(x["ln"]),
                           "the closure label xors %s: components hashed alike cancel whenever their inputs are equal (e.g. the module-local "
                           "and the program-wide index of a function of the root module), closures at the same card position of different "
                           "functions then share one label and one runs the other's body" % clash, leaves=[list(l) for l in lv]))
        elif opaque:
            res.append(undecided("C06.X", key, f.loc(x["ln"]), "label components not understood: %s" % opaque))
        else:
            res.append(ok("C06.X", key, f.loc(x["ln"]), "xor-ed components use distinct hashes: %s" % {k: len(v) for k, v in groups.items()},
                          leaves=[list(l) for l in lv]))
    return res


# ---------------------------------------------------------------------------------------------------
# C06.N
# ---------------------------------------------------------------------------------------------------

def _whole_defs(du, l):
    return [d for d in du.defs.get(l, []) if not d[3].get("place", d[3].get("dest"))["p"]]


def _reads_field_chain(du, l, names, depth=0):
    """is local l (through single-definition copies / casts / borrows) a value read from a place with one of the fields?"""
    if depth > 5:
        return False
    for d in _whole_defs(du, l):
        if _def_reads_field(du, d, names, depth):
            return True
    return False


def _def_reads_field(du, d, names, depth=0):
    if d[2] != "assign" or depth > 5:
        return False
    for pl in rvalue_places(d[3]["rv"]):
        if any(e["k"] == "field" and e["name"] in names for e in pl["p"]):
            return True
        if not pl["p"]:
            ds = _whole_defs(du, pl["l"])
            if len(ds) == 1 and _def_reads_field(du, ds[0], names, depth + 1):
                return True
    return False


def _def_copies(du, d, targets, depth=0):
    """the definition is a plain copy (through single-definition temporaries) of one of the target locals"""
    if d[2] != "assign" or d[3]["rv"]["k"] != "use" or depth > 5:
        return False
    q = op_place(d[3]["rv"]["op"])
    if q is None or q["p"]:
        return False
    if q["l"] in targets:
        return True
    ds = _whole_defs(du, q["l"])
    return len(ds) == 1 and _def_copies(du, ds[0], targets, depth + 1)


class _SplitFn:
    """A view of a MIR body in which struct-typed locals that are built by a struct literal and then used field by field
    (`let mut cursor = Cursor { prev, current }; cursor.prev = ..`) are replaced by one virtual local per field, so that
    def-use reasoning sees `cursor.current` like a variable `current`. Whole-struct moves become struct aggregates of the
    virtual locals. Only `.blocks`, `.mir['arg_count']`, `.mir['locals']` are provided (what DefUse and the walk helpers read)."""

    def __init__(self, g):
        n = len(g.mir["locals"])
        fields_of = {}
        ok_ = {}
        for b in g.blocks:
            for st in b["stmts"]:
                if st["k"] != "assign":
                    continue
                pl, rv = st["place"], st["rv"]
                if not pl["p"]:
                    if rv["k"] == "agg" and rv["agg"].get("k") == "adt" and not rv["agg"].get("is_enum") and rv["agg"].get("fields"):
                        fields_of.setdefault(pl["l"], list(rv["agg"]["fields"]))
                        ok_.setdefault(pl["l"], True)
                    else:
                        ok_[pl["l"]] = False
            t = b["term"]
            if t["k"] == "call" and not t["dest"]["p"]:
                ok_[t["dest"]["l"]] = False
        split = {l: fs for l, fs in fields_of.items() if ok_.get(l) and l > g.mir["arg_count"]}
        # a split local may only occur as `L.field...` or as a whole-value move/copy
        def bad_use(place):
            return place["l"] in split and place["p"] and not (place["p"][0]["k"] == "field" and place["p"][0]["name"] in split[place["l"]])
        for b in g.blocks:
            for st in b["stmts"]:
                if st["k"] == "assign":
                    for q in [st["place"]] + rvalue_places(st["rv"]):
                        if bad_use(q):
                            split.pop(q["l"], None)
                    if st["rv"]["k"] in ("ref", "rawptr") and st["rv"]["place"]["l"] in split and not st["rv"]["place"]["p"]:
                        split.pop(st["rv"]["place"]["l"], None)
            t = b["term"]
            for a in (t.get("args") or []) if t["k"] == "call" else []:
                q = op_place(a)
                if q is not None and q["l"] in split and not q["p"]:
                    split.pop(q["l"], None)
        self.virt = {}
        locals_ = list(g.mir["locals"])
        for l, fs in split.items():
            for fname in fs:
                self.virt[(l, fname)] = len(locals_)
                locals_.append({"name": "%s.%s" % (g.local_name(l) or "_%d" % l, fname), "ty": "?"})
        self.mir = {"arg_count": g.mir["arg_count"], "locals": locals_}
        self.split = split

        def rp(place):
            if place["l"] in split and place["p"]:
                return {"l": self.virt[(place["l"], place["p"][0]["name"])], "p": place["p"][1:]}
            return place

        def rop(op):
            q = op_place(op)
            if q is None:
                return op
            if q["l"] in split and not q["p"]:
                return None       # whole-struct use: handled by the caller
            return {"k": op["k"], "place": rp(q)}

        def whole_agg(l):
            return {"k": "agg", "agg": {"k": "adt", "path": "", "variant": "", "is_enum": False, "fields": list(split[l])},
                    "ops": [{"k": "copy", "place": {"l": self.virt[(l, fname)], "p": []}} for fname in split[l]]}
        blocks = []
        for b in g.blocks:
            stmts = []
            for st in b["stmts"]:
                if st["k"] != "assign":
                    stmts.append(st)
                    continue
                pl, rv = st["place"], st["rv"]
                if pl["l"] in split and not pl["p"] and rv["k"] == "agg":
                    for fname, o in zip(split[pl["l"]], rv["ops"]):
                        stmts.append({"k": "assign", "place": {"l": self.virt[(pl["l"], fname)], "p": []}, "rv": {"k": "use", "op": rop(o) or o}, "ln": st.get("ln")})
                    continue
                nrv = dict(rv)
                if rv["k"] in ("use", "cast") and op_place(rv["op"]) is not None and op_place(rv["op"])["l"] in split and not op_place(rv["op"])["p"]:
                    nrv = whole_agg(op_place(rv["op"])["l"])
                else:
                    for key_ in ("op", "l", "r", "x"):
                        if key_ in nrv and isinstance(nrv[key_], dict) and nrv[key_].get("k") in ("copy", "move"):
                            nrv[key_] = rop(nrv[key_]) or nrv[key_]
                    if "ops" in nrv:
                        nrv["ops"] = [rop(o) or o for o in nrv["ops"]]
                    if "place" in nrv and isinstance(nrv["place"], dict) and "l" in nrv["place"]:
                        nrv["place"] = rp(nrv["place"])
                stmts.append({"k": "assign", "place": rp(pl), "rv": nrv, "ln": st.get("ln")})
            t = b["term"]
            if t["k"] == "call":
                t = dict(t)
                t["args"] = [rop(a) or a for a in t["args"]]
                t["dest"] = rp(t["dest"])
            blocks.append({"stmts": stmts, "term": t, "cleanup": b.get("cleanup")})
        self.blocks = blocks


def _list_walk_roles(g, head_params=()):
    """(cursor locals, predecessor locals) of a walk over the open-upvalue list in the MIR body g: the cursor is assigned
    the list head (a read of `open_upvalues`, or one of the parameters `head_params` that the caller fills with it) and is
    advanced through a node's `next`; a predecessor receives the cursor before it advances."""
    g = _split_view(g)
    du = DefUse(g)
    n = len(g.mir["locals"])
    heads = set(head_params)

    def reads_head(d):
        return _def_reads_field(du, d, ("open_upvalues",)) or (bool(heads) and _def_copies(du, d, heads))
    cursors = [l for l in range(n) if len(_whole_defs(du, l)) >= 2 and any(_def_reads_field(du, d, ("next",)) for d in _whole_defs(du, l))
               and any(reads_head(d) for d in _whole_defs(du, l))]
    if not cursors:
        return [], []
    cursor = cursors[0]
    preds = [l for l in range(n) if l != cursor and len(_whole_defs(du, l)) >= 2 and any(_def_copies(du, d, {cursor}) for d in _whole_defs(du, l))]
    return [cursor], preds


def _returned_roles(g, cursors, preds):
    """what a helper that walks the list hands back: {None: role} when it returns one value, {'0': role, '1': role} for a
    tuple; role is 'cursor' / 'pred' for plain copies of the walk's cursor / predecessor at the exit of the walk"""
    g = _split_view(g)
    du = DefUse(g)
    out = {}
    ds = _whole_defs(du, 0)
    if len(ds) != 1 or ds[0][2] != "assign":
        return out
    rv = ds[0][3]["rv"]

    def role_of(op):
        l = op_local(op)
        if l is None:
            return None
        seen = set()
        while l is not None and l not in seen:
            seen.add(l)
            if l in cursors:
                return "cursor"
            if l in preds:
                return "pred"
            d = _whole_defs(du, l)
            if len(d) != 1 or d[0][2] != "assign" or d[0][3]["rv"]["k"] != "use":
                return None
            l = op_local(d[0][3]["rv"]["op"])
        return None
    if rv["k"] == "use":
        r = role_of(rv["op"])
        if r:
            out[None] = r
    elif rv["k"] == "agg" and rv["agg"]["k"] == "tuple":
        for i, o in enumerate(rv["ops"]):
            r = role_of(o)
            if r:
                out[str(i)] = r
    elif rv["k"] == "agg" and rv["agg"]["k"] == "adt" and not rv["agg"].get("is_enum") and rv["agg"].get("fields"):
        # a small struct { prev, current }: the caller reads the roles by field name
        for fname, o in zip(rv["agg"]["fields"], rv["ops"]):
            r = role_of(o)
            if r:
                out[fname] = r
    return out


def _split_view(g):
    if isinstance(g, _SplitFn):
        return g
    v = getattr(g, "_c06_split", None)
    if v is None:
        v = _SplitFn(g)
        g._c06_split = v
    return v


def rule_n(F):
    """MIR: in register_upvalue, the block that writes `<prev>.next = new` or `open_upvalues = new` must be preceded on
    every path from the creation of the new node (init_upvalue) by a write of `<new>.next`."""
    res = []
    # the function that creates the new upvalue and links it in: register_upvalue itself, or the part of it that handles a
    # captured local (found by what it does: the function of vm::instr_execution that calls init_upvalue)
    f = F.fn(IE + "register_upvalue", required=False)
    makers = [g for g in F.fns if g.mir and not g.is_closure and g.short.startswith(IE)
              and any(any(n.endswith("init_upvalue") for n in callee_names(t["func"])) for _b, t in mu.calls(g))]
    if f is None or f not in makers:
        if len(makers) != 1:
            raise AnchorMissing("init_upvalue call in register_upvalue (found %d candidate functions)" % len(makers))
        f = makers[0]
    cfg = f.cfg
    inits = [bi for bi, t in mu.calls(f) if any(n.endswith("init_upvalue") for n in callee_names(t["func"]))]
    if not inits:
        raise AnchorMissing("init_upvalue call in register_upvalue")
    # writes of a `.next` field and of open_upvalues
    next_writes = []
    head_writes = []
    for bi, si, st in iter_stmts(f):
        names = [e["name"] for e in st["place"]["p"] if e["k"] == "field"]
        if names and names[-1] == "next":
            next_writes.append((bi, si, st))
        if names and names[-1] == "open_upvalues":
            head_writes.append((bi, si, st))
    du = DefUse(f)
    new_roots = set()
    for bi in inits:
        t = f.mir["blocks"][bi]["term"]
        d = t.get("dest")
        if d is not None:
            new_roots.add(d["l"])

    def from_new(op, depth=0):
        """does the operand derive (by moves, casts, field projections, as_ptr-like calls) from the init_upvalue result?"""
        p = op_place(op)
        if p is None:
            return False
        seen = set()
        work = [p["l"]]
        while work:
            l = work.pop()
            if l in seen:
                continue
            seen.add(l)
            if l in new_roots:
                return True
            for _b, _s, dk, d in du.defs.get(l, []):
                if d.get("place", d.get("dest"))["p"]:
                    continue  # a write through the local, not a definition of it
                if dk == "assign":
                    for pl in rvalue_places(d["rv"]):
                        work.append(pl["l"])
                elif dk == "call":
                    for a in d["args"]:
                        q = op_place(a)
                        if q is not None:
                            work.append(q["l"])
        return False

    def from_list(op):
        """does the operand derive from the list cursor (a value read from open_upvalues / some node's next)?"""
        p = op_place(op)
        if p is None:
            return False
        seen = set()
        work = [p["l"]]
        while work:
            l = work.pop()
            if l in seen:
                continue
            seen.add(l)
            for _b, _s, dk, d in du.defs.get(l, []):
                if d.get("place", d.get("dest"))["p"]:
                    continue
                if dk == "assign":
                    for pl in rvalue_places(d["rv"]):
                        if any(e["k"] == "field" and e["name"] in ("open_upvalues", "next") for e in pl["p"]):
                            return True
                        work.append(pl["l"])
        return False

    def base_from_new(place):
        return from_new({"k": "copy", "place": {"l": place["l"], "p": []}})

    # the search cursor: the local that starts at open_upvalues and is advanced through `.next` in the search loop; its
    # predecessor: the local that receives the cursor before it advances. The walk is either in this body or in a helper that
    # is handed the list head and returns where it stopped (the cursor, or a tuple with cursor and predecessor)
    def whole_defs(l):
        return [d for d in du.defs.get(l, []) if not d[3].get("place", d[3].get("dest"))["p"]]

    cursor_set, preds = _list_walk_roles(f)
    cursor_set, preds = set(cursor_set), list(preds)
    for bi, t in mu.calls(f):
        g = next((h for h in (F.fn(n, required=False) for n in callee_names(t["func"])) if h is not None and h.mir and not h.is_closure and h is not f), None)
        if g is None:
            continue
        head_params = [i + 1 for i, a in enumerate(t["args"]) if op_local(a) is not None and _reads_field_chain(du, op_local(a), ("open_upvalues",))]
        if not head_params:
            continue
        gc, gp = _list_walk_roles(g, head_params)
        if not gc:
            continue
        roles = _returned_roles(g, gc, gp)     # {None | tuple field name: 'cursor' | 'pred'}
        dest = t["dest"]
        if dest["p"]:
            continue
        for l in range(len(f.mir["locals"])):
            for d in whole_defs(l):
                if d[2] != "assign" or d[3]["rv"]["k"] != "use":
                    continue
                q = op_place(d[3]["rv"]["op"])
                if q is None or q["l"] != dest["l"]:
                    continue
                proj = [e["name"] for e in q["p"] if e["k"] == "field"]
                role = roles.get(proj[0] if proj else None) if len(proj) == len(q["p"]) and len(proj) <= 1 else None
                if role == "cursor":
                    cursor_set.add(l)
                elif role == "pred":
                    preds.append(l)
        if roles.get(None) == "cursor":
            cursor_set.add(dest["l"])
    if not cursor_set:
        raise AnchorMissing("search cursor over the open-upvalue list in register_upvalue")

    def derives_from_local(op, target, through_calls=True):
        p = op_place(op)
        if p is None:
            return False
        seen = set()
        work = [p["l"]]
        while work:
            l = work.pop()
            if l in seen:
                continue
            seen.add(l)
            if l == target:
                return True
            for d in whole_defs(l):
                if d[2] == "assign":
                    for pl in rvalue_places(d[3]["rv"]):
                        work.append(pl["l"])
                elif through_calls:
                    for a in d[3]["args"]:
                        q = op_place(a)
                        if q is not None:
                            work.append(q["l"])
        return False

    link_in = []   # writes that make the new node reachable from the list
    self_link = []  # writes of new.next with the search cursor (the successor the search stopped at)
    self_link_other = []
    for bi, si, st in next_writes:
        rv = st["rv"]
        ops = rvalue_operands(rv)
        if base_from_new(st["place"]):
            if any(derives_from_local(o, cursor, through_calls=False) for o in ops for cursor in cursor_set):
                self_link.append(bi)
            else:
                self_link_other.append(bi)
        elif any(from_new(o) for o in ops):
            link_in.append((bi, "predecessor.next"))
    for bi, si, st in head_writes:
        if any(from_new(o) for o in rvalue_operands(st["rv"])):
            link_in.append((bi, "open_upvalues"))
    if not link_in:
        raise AnchorMissing("insertion of the new upvalue into the open list in register_upvalue")
    for bi, what in link_in:
        key = "C06/N/register_upvalue/new-node-linked-before-%s" % what
        if any(cfg.dominates(sb, bi) for sb in self_link):
            res.append(ok("C06.N", key, f.loc(), "the new upvalue's `next` receives the successor the search stopped at before it becomes reachable through %s" % what))
        elif any(cfg.dominates(sb, bi) for sb in self_link_other):
            res.append(bad("C06.N", key, f.loc(),
                           "the new upvalue's `next` is not the entry the search over the open list stopped at (it is read from the list head or "
                           "elsewhere): the node is not inserted at its sorted position, the list is no longer ordered by stack slot, so a later "
                           "search stops early (a second upvalue is created for an already captured variable) and closing upvalues from the "
                           "head stops before higher slots that sit behind lower ones"))
        else:
            res.append(bad("C06.N", key, f.loc(),
                           "register_upvalue makes the new upvalue reachable through %s without ever writing its `next` (init_upvalue "
                           "creates it with next = null): every open upvalue of a lower stack slot drops out of the list, is never "
                           "closed, and its closure reads a dead stack slot after the function returned" % what))
    # the head is replaced only when the search found no predecessor
    for bi, what in link_in:
        if what != "open_upvalues":
            continue
        key = "C06/N/register_upvalue/head-replaced-only-without-predecessor"
        guarded = False
        for g in cfg.dom.get(bi, ()):
            t = f.blocks[g]["term"]
            if g == bi or t["k"] != "switch":
                continue
            if any(derives_from_local(t["discr"], pl) for pl in preds):
                # the edge into the head write must be one of the switch's edges that excludes the other link-in
                guarded = True
        if guarded:
            res.append(ok("C06.N", key, f.loc(), "the list head is replaced under a test of the search's predecessor"))
        else:
            res.append(bad("C06.N", key, f.loc(),
                           "register_upvalue makes the new upvalue the head of the open list regardless of where the search stopped: upvalues "
                           "are no longer kept in stack order"))
    return res


def pat_bindings_(p):
    from cao.facts import pat_bindings
    return pat_bindings(p)


def _iterative_upvalue_chain(F, f, ctors, key2):
    """resolve_upvalue without recursion: the index it returns for the requesting function (its integer parameter) must be
    the result of add_upvalue(.., <that function>). Accepted: every assignment of the returned index comes from
    add_upvalue(.., function_id); or the chain `u = add_upvalue(.., X); for inner in X+1 ..= function_id { u = add_upvalue(u, .., inner) }`
    whose last link is function_id itself (when the loop does not run, X == function_id). An exclusive range ending at
    function_id stops one function short."""
    res = []
    inits = hu.let_inits(f)
    au = F.fn("compiler::Compiler::add_upvalue")
    # which argument of add_upvalue is the function the upvalue list belongs to: the parameter that indexes self.upvalues
    fid_pos = None
    pids = [p_.get("id") for p_ in au.hir.get("params", [])]
    for x in hir_walk(au.hir["body"]):
        if x.get("k") == "index":
            fc = hu.field_chain(x["e"])
            lid = hir_local_id(hu.strip_all(x["idx"]))
            if fc and fc[1][-1:] == ["upvalues"] and lid in pids:
                fid_pos = pids.index(lid)
    me = [p_["id"] for p_ in f.hir.get("params", []) if p_.get("k") == "bind" and p_.get("ty") in ("usize", "u32", "u64")]
    if fid_pos is None or len(me) != 1:
        return [undecided("C06.W", key2, f.loc(), "could not identify the function-id arguments of add_upvalue / resolve_upvalue")]
    me = me[0]
    # loop variables of `for v in lo..hi` / `lo..=hi`
    ranges = {}
    for x in hir_walk(f.hir["body"]):
        if x.get("k") == "match" and str(x.get("source", "")).startswith("ForLoopDesugar"):
            sc = hir_strip(x["scrut"])
            it = hir_strip(sc["args"][0]) if sc.get("k") == "call" and sc["args"] else None
            if it is None:
                continue
            lo = hi = incl = None
            if it.get("k") == "call" and any(n.endswith("RangeInclusive::new") for n in hir_callee(it)) and len(it["args"]) == 2:
                lo, hi, incl = it["args"][0], it["args"][1], True
            elif it.get("k") == "struct" and short(it["path"]["res"].get("path", "")).endswith("Range"):
                fl = {q["name"]: q["e"] for q in it["fields"]}
                lo, hi, incl = fl.get("start"), fl.get("end"), False
            if lo is None:
                continue
            for y in hir_walk(x):
                if y is not x and y.get("k") == "match" and str(y.get("source", "")).startswith("ForLoopDesugar"):
                    for a_ in y["arms"]:
                        for bid, _n in pat_bindings_(a_["pat"]):
                            ranges[bid] = (lo, hi, incl)
                    break

    def fid_arg(e):
        """add_upvalue call behind an initialiser (through `?`) -> its function-id argument expression"""
        for y in hir_walk(e):
            if y.get("k") == "mcall" and any(n.endswith("Compiler::add_upvalue") for n in hir_callee(y)):
                args = [y["recv"]] + list(y["args"])
                return args[fid_pos] if fid_pos < len(args) else None
        return None
    verdict = "ok"
    why = ""
    for x, _good in ctors:
        lid = hir_local_id(hu.strip_all(x["args"][0])) if x.get("k") == "call" else None
        es = inits.get(lid, []) if lid is not None else []
        fids = [hu.strip_all(fid_arg(e)) if fid_arg(e) is not None else None for e in es]
        if not es or any(a_ is None for a_ in fids):
            verdict, why = "undecided", "the returned index is not assigned from add_upvalue calls only"
            break
        ids = [hir_local_id(a_) for a_ in fids]
        if all(i == me for i in ids):
            continue
        loopv = [i for i in ids if i in ranges]
        plain = [i for i in ids if i not in ranges]
        if len(loopv) == 1 and len(plain) == 1 and plain[0] is not None:
            lo, hi, incl = ranges[loopv[0]]
            lo_ = hu.strip_all(lo)
            starts_after = lo_.get("k") == "bin" and lo_["op"] == "Add" and hir_local_id(hu.strip_all(lo_["l"])) == plain[0] and \
                hu.is_int_lit(lo_["r"]) and hu.int_lit(lo_["r"]) == 1
            ends_at_me = hir_local_id(hu.strip_all(hi)) == me
            if starts_after and ends_at_me and incl:
                continue
            if starts_after and ends_at_me and not incl:
                verdict, why = "bad", "the chain of non-local upvalues stops one function short (`..function_id` excludes the requesting function)"
                break
        verdict, why = "undecided", "the function the returned upvalue index belongs to is not established"
        break
    if verdict == "ok":
        res.append(ok("C06.W", key2, f.loc(), "no recursive lookup: the returned index is add_upvalue's result for the requesting function "
                      "(chain of non-local upvalues up to and including function_id)"))
    elif verdict == "bad":
        res.append(bad("C06.W", key2, f.loc(), "resolve_upvalue returns an upvalue index of an ENCLOSING function: " + why +
                       "; the inner closure's ReadUpvalue/SetUpvalue operand indexes into the wrong upvalue list"))
    else:
        res.append(undecided("C06.W", key2, f.loc(), why))
    return res


def rule_w(F):
    res = []
    f = F.fn("compiler::Compiler::resolve_upvalue")
    inits = hu.let_inits(f)

    def from_add_upvalue(e, depth=0):
        e = hu.strip_all(e)
        if e is None or depth > 5:
            return False
        if any(y.get("k") == "mcall" and any(n.endswith("Compiler::add_upvalue") for n in hir_callee(y)) for y in hir_walk(e)):
            return True
        lid = hir_local_id(e)
        if lid is not None:
            return any(from_add_upvalue(i, depth + 1) for i in inits.get(lid, []))
        return False
    # 1. constructions of Variable::Upvalue
    ctors = []
    for x in hir_walk(f.hir["body"]):
        if x.get("k") == "call" and any(n.endswith("compiler::Variable::Upvalue") for n in hir_callee(x)) and x["args"]:
            ctors.append((x, from_add_upvalue(x["args"][0])))
        if x.get("k") == "mcall" and x["name"] == "map" and x["args"] and \
                short(hu.strip_all(x["args"][0]).get("path", {}).get("res", {}).get("path", "") if hu.strip_all(x["args"][0]).get("k") == "path" else "").endswith("Variable::Upvalue"):
            ctors.append((x, from_add_upvalue(x["recv"])))
    if not ctors:
        raise AnchorMissing("construction of Variable::Upvalue in resolve_upvalue")
    key = "C06/W/resolve_upvalue/upvalue-index-comes-from-add_upvalue"
    badc = [x for x, good in ctors if not good]
    if badc:
        res.append(bad("C06.W", key, f.loc(badc[0]["ln"]), "resolve_upvalue builds Variable::Upvalue from an index that add_upvalue did not return"))
    else:
        res.append(ok("C06.W", key, f.loc(ctors[0][0]["ln"]), "%d construction(s), each from add_upvalue's result" % len(ctors)))
    # 2. the recursive result is not passed on when it is an Upvalue
    rec_locals = set()
    for lid, exprs in inits.items():
        for e in exprs:
            if any(y.get("k") == "mcall" and any(n.endswith("Compiler::resolve_upvalue") for n in hir_callee(y)) for y in hir_walk(e)):
                rec_locals.add(lid)
    key2 = "C06/W/resolve_upvalue/outer-index-not-passed-on"
    tests = []
    for x in hir_walk(f.hir["body"]):
        if x.get("k") == "if":
            c = hir_strip(x["cond"])
            if c.get("k") == "let" and any(hir_local_id(y) in rec_locals for y in hir_walk(c["init"]) if y.get("k") == "path") and \
                    "Upvalue" in str(c.get("pat")):
                tests.append(x)
    from cao.facts import hir_children
    rec_calls = [y for y in hir_walk(f.hir["body"]) if y.get("k") in ("mcall", "call") and any(n.endswith("Compiler::resolve_upvalue") for n in hir_callee(y))]
    parent = {}
    for y in hir_walk(f.hir["body"]):
        for c in hir_children(y):
            if c is not None:
                parent[id(c)] = y

    def consumer(node):
        """the node that uses the value of a recursive call: `?`, wrappers and blocks are looked through"""
        cur = node
        while True:
            p_ = parent.get(id(cur))
            if p_ is None:
                return None, cur
            k = p_.get("k")
            if k in ("drop_temps", "use", "type", "cast", "addr_of") or (k == "block" and p_["block"].get("expr") is cur):
                cur = p_
                continue
            if k == "call" and any(n.endswith("Try::branch") for n in hir_callee(p_)):
                cur = p_
                continue
            if k == "match" and str(p_.get("source", "")).startswith("TryDesugar") and p_["scrut"] is cur:
                cur = p_
                continue
            return p_, cur
    bound = set()
    for lid, exprs in inits.items():
        for e in exprs:
            if any(y is r for r in rec_calls for y in hir_walk(e)):
                bound.add(lid)
    unbound = [r for r in rec_calls if not any(y is r for lid in bound for e in inits[lid] for y in hir_walk(e))]
    if not rec_calls:
        res += _iterative_upvalue_chain(F, f, ctors, key2)
    elif unbound:
        for r in unbound:
            user, val = consumer(r)
            arms_up = []
            if user is not None and user.get("k") == "match" and user["scrut"] is val:
                arms_up = [a_ for a_ in user["arms"] if "Variable::Upvalue" in str(a_["pat"])]
            if not arms_up:
                res.append(bad("C06.W", key2, f.loc(r.get("ln")),
                               "resolve_upvalue returns what the lookup in the enclosing function returned without testing for Variable::Upvalue: an "
                               "upvalue index of the enclosing function is used as an index into the inner function's own upvalue list"))
                continue
            for a_ in arms_up:
                # constructions in the arm: Variable::Upvalue(src) or <src>.map(Variable::Upvalue)
                mine = []
                for x in hir_walk(a_["body"]):
                    if x.get("k") == "call" and any(n.endswith("compiler::Variable::Upvalue") for n in hir_callee(x)) and x["args"]:
                        mine.append(x["args"][0])
                    elif x.get("k") == "mcall" and x["name"] == "map" and x["args"] and hu.strip_all(x["args"][0]).get("k") == "path" and \
                            short(hu.strip_all(x["args"][0])["path"]["res"].get("path", "")).endswith("Variable::Upvalue"):
                        mine.append(x["recv"])
                payload = set(i for i, _n in pat_bindings_(a_["pat"]))
                passes_on = [src for src in mine if hir_local_id(hu.strip_all(src)) in payload] or \
                    (hir_local_id(hu.strip_all(a_["body"])) is not None)
                if mine and all(from_add_upvalue(src) for src in mine) and not passes_on:
                    res.append(ok("C06.W", key2, f.loc(a_["body"].get("ln")), "the arm that saw an upvalue of the enclosing function registers and returns its own index"))
                else:
                    res.append(bad("C06.W", key2, f.loc(a_["body"].get("ln")),
                                   "the arm that saw an upvalue of the enclosing function returns the ENCLOSING function's upvalue index: "
                                   "the inner closure's ReadUpvalue/SetUpvalue operand indexes past (or into the wrong slot of) its own upvalue list"))
    elif not tests:
        res.append(bad("C06.W", key2, f.loc(),
                       "resolve_upvalue returns what the lookup in the enclosing function returned without testing for Variable::Upvalue: an "
                       "upvalue index of the enclosing function is used as an index into the inner function's own upvalue list"))
    else:
        for x in tests:
            then = x["then"]
            last = None
            bl = then.get("block") if then.get("k") == "block" else None
            if bl is not None:
                last = bl.get("expr") or (bl["stmts"][-1].get("e") if bl["stmts"] and bl["stmts"][-1]["k"] in ("semi", "expr") else None)
            leaves = last is not None and hir_strip(last).get("k") == "ret"
            if leaves:
                res.append(ok("C06.W", key2, f.loc(x["ln"]), "the branch that saw an upvalue of the enclosing function returns its own index"))
            else:
                res.append(bad("C06.W", key2, f.loc(x["ln"]),
                               "after registering its own upvalue the branch falls through and returns the ENCLOSING function's upvalue index: "
                               "the inner closure's ReadUpvalue/SetUpvalue operand indexes past (or into the wrong slot of) its own upvalue list"))
    return res


def _c01_rule_l(F):
    import rules.c01 as c01
    return c01.rule_l(F)


def _c01_rule_d(F):
    from rules import c01 as _c01m
    return _c01m.rule_d(F)


RULES = [
    Rule("C06.J", shared(_c01_rule_d, "C01.D", "C06.J"), 3, "a captured local of a loop body is on top when its scope ends: leftover statement values are dropped first (shared with C01.D)"),
    Rule("C06.W", rule_w, 2, "upvalue indices are per function"),
    Rule("C06.I", shared(_c01_rule_l, "C01.L", "C06.I"), 7, "loop variables visible to closures are per-iteration locals (shared with C01.L)"),
    Rule("C06.O", rule_o, 3, "value-stack slots addressed from bytecode operands are frame-relative"),
    Rule("C06.L", rule_l, 1, "closure labels are program-unique"),
    Rule("C06.R", rule_r, 4, "upvalues are closed before their slots disappear; on return the closed range is the truncated range"),
    Rule("C06.V", rule_v, 1, "a closure captures the innermost binding of a name"),
    Rule("C06.D", rule_d, 1, "upvalue descriptors are de-duplicated on their full identity"),
    Rule("C06.X", rule_x, 1, "xor-ed label components cannot cancel"),
    Rule("C06.N", rule_n, 3, "the open-upvalue list stays linked when a node is inserted"),
]
