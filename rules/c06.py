"""C06 — Closures capture variables by reference with correct identity and lifetime.

  C06.O  captured slots are frame-relative: in vm::instr_execution every value-stack index that derives from an operand
         decoded from the bytecode (or from a handler's parameter) includes a term derived from the current frame's
         stack_offset — as read_local_var / write_local_var do.
  C06.L  closure labels are program-unique: the handle under which a closure body is stored in the label table depends
         on something that identifies the enclosing function program-wide, not only on the module-local CardIndex.
  C06.R  close before truncate: instr_return closes upvalues before it truncates the value stack; scope_end emits
         CloseUpvalue for captured locals and Pop for the others.
  C06.U  scope / compile brackets balanced (= C01.S, shared).
"""
from cao.facts import (AnchorMissing, callee_names, short, op_local, op_place, DefUse, hir_walk, hir_callee, hir_strip, hir_local_id)
from cao.rules import Rule, ok, bad, undecided, note
from cao import mirutil as mu
from cao import hirutil as hu

EXPLANATION = (
    "C06.O: compile-time local indices are frame-relative, so every run-time access to the value stack by such an index "
    "must add the frame's stack_offset. The rule takes every index operand of ValueStack::get/set and of indexing into "
    "ValueStack::as_slice() in vm::instr_execution, slices it backwards (MIR def-use, through helper parameters to their "
    "call sites) to its leaves and requires a leaf derived from stack_offset whenever a leaf is a decoded operand. C06.L: "
    "backward slice (HIR) of the key under which the Closure arm of process_card inserts the closure body into the label "
    "table; if it depends only on current_index, whose `function` component is FunctionIr.function_index — assigned from a "
    "per-module enumerate() in flatten_module — two closures at the same card position of same-numbered functions in "
    "different modules share a label. C06.R: dominance of _close_upvalues over clear_until in instr_return, and the "
    "captured/not-captured branch of scope_end. Decides the two addressing conventions closures depend on, for all "
    "programs; not sharing/lifetime semantics as such."
)
ASSUMPTIONS = ["C10 (operands decode to what the compiler wrote)", "C01.S (scopes balanced, so compile-time slots equal run-time slots)"]

IE = "vm::instr_execution::"


def leaves_of_index(F, f, du, op, depth=0, seen=None):
    """leaf kinds of an index expression: 'decoded', 'offset', 'param:<n>', 'len', 'const', 'other'"""
    out = set()
    if op.get("k") == "const":
        return {"const"}
    p = op_place(op)
    if p is None:
        return {"other"}
    if seen is None:
        seen = set()
    if p["p"]:
        names = [e["name"] for e in p["p"] if e["k"] == "field"]
        if "stack_offset" in names:
            return {"offset"}
        if all(e["k"] == "field" and e["name"] in ("0", "1") for e in p["p"]):
            pass
        else:
            return {"other"}
    l = p["l"]
    if l in seen or depth > 14:
        return {"other"}
    seen.add(l)
    ds = du.defs.get(l, [])
    if not ds:
        if 1 <= l <= f.mir["arg_count"]:
            return {"param:%d" % l}
        return {"other"}
    for (bi, si, kind, payload) in ds:
        if kind == "call":
            nm = callee_names(payload["func"])
            if any(n == IE + "decode_value" for n in nm):
                out.add("decoded")
            elif any(n == IE + "stack_offset" for n in nm):
                out.add("offset")
            elif any(n.rsplit("::", 1)[-1] in ("len",) for n in nm):
                out.add("len")
            elif any(n.rsplit("::", 1)[-1] in ("checked_sub", "checked_add", "saturating_sub", "min", "max", "unwrap", "ok_or", "branch", "into", "try_from", "from") for n in nm):
                for a in payload["args"]:
                    out |= leaves_of_index(F, f, du, a, depth + 1, seen)
            else:
                out.add("other")
            continue
        rv = payload["rv"]
        k = rv["k"]
        if k in ("use", "cast"):
            out |= leaves_of_index(F, f, du, rv["op"], depth + 1, seen)
        elif k == "bin":
            out |= leaves_of_index(F, f, du, rv["l"], depth + 1, seen)
            out |= leaves_of_index(F, f, du, rv["r"], depth + 1, seen)
        else:
            out.add("other")
    return out


def param_leaves_at_callers(F, f, param, depth=0):
    """what a helper's parameter is at its call sites"""
    out = set()
    callers = 0
    for g in F.fns:
        if not g.mir:
            continue
        du = None
        for bi, t in mu.calls(g):
            if f.short in callee_names(t["func"]) and len(t["args"]) >= param:
                callers += 1
                if du is None:
                    du = DefUse(g)
                lv = leaves_of_index(F, g, du, t["args"][param - 1])
                for x in list(lv):
                    if x.startswith("param:") and depth < 3:
                        lv.discard(x)
                        lv |= param_leaves_at_callers(F, g, int(x.split(":")[1]), depth + 1)
                out |= lv
    if callers == 0:
        out.add("param-unresolved")
    return out


def rule_o(F):
    res = []
    fns = [f for f in F.fns if f.mir and (f.root or f.short).startswith(IE)]
    n = 0
    counters = {}
    for f in fns:
        du = DefUse(f)
        sites = []
        for bi, t in mu.calls(f):
            nm = callee_names(t["func"])
            if any(x in ("collections::value_stack::ValueStack::get", "collections::value_stack::ValueStack::set") for x in nm):
                sites.append((t.get("ln"), t["args"][1], nm[0].rsplit("::", 1)[-1]))
        # indexing into as_slice()
        slice_locals = set()
        for bi, t in mu.calls(f):
            if "collections::value_stack::ValueStack::as_slice" in callee_names(t["func"]):
                slice_locals.add(t["dest"]["l"])
        for b in f.blocks:
            for st in b["stmts"]:
                if st["k"] != "assign":
                    continue
                from cao.facts import rvalue_places
                for p in rvalue_places(st["rv"]) + [st["place"]]:
                    if p["l"] in slice_locals:
                        for e in p["p"]:
                            if e["k"] == "index":
                                sites.append((st.get("ln"), {"k": "copy", "place": {"l": e["local"], "p": []}}, "as_slice()[..]"))
        for ln, idx, how in sites:
            n += 1
            fname = (f.root or f.short).rsplit("::", 1)[-1]
            c = counters.get(fname, 0)
            counters[fname] = c + 1
            key = "C06/O/%s/stack-index#%d" % (fname, c)
            lv = leaves_of_index(F, f, du, idx)
            for x in list(lv):
                if x.startswith("param:"):
                    lv.discard(x)
                    lv |= param_leaves_at_callers(F, f, int(x.split(":")[1]))
            if "decoded" in lv and "offset" not in lv:
                res.append(bad("C06.O", key, f.loc(ln),
                               "%s addresses the value stack with an operand decoded from the bytecode (%s) without adding the current frame's "
                               "stack_offset: compile-time slot numbers are frame-relative, so in any frame with a non-zero offset (a function "
                               "called with arguments) this is another frame's slot" % (fname, how), leaves=sorted(lv)))
            elif "decoded" in lv:
                res.append(ok("C06.O", key, f.loc(ln), "decoded slot number is added to the frame's stack_offset", leaves=sorted(lv)))
            elif "other" in lv or "param-unresolved" in lv:
                res.append(undecided("C06.O", key, f.loc(ln), "index expression not resolved: %s" % sorted(lv)))
            else:
                res.append(ok("C06.O", key, f.loc(ln), "index does not come from the bytecode (%s)" % sorted(lv)))
    if n < 3:
        raise AnchorMissing("value-stack index sites in vm::instr_execution (found %d)" % n)
    return res


# ---------------------------------------------------------------------------------------------------
# C06.L
# ---------------------------------------------------------------------------------------------------

def expr_leaves(f, e, depth=0, seen=None):
    """leaf descriptions of a HIR expression: field chains rooted at self, constants, calls"""
    if seen is None:
        seen = set()
    e = hu.strip_casts(e)
    if e is None:
        return set()
    k = e.get("k")
    if k == "lit":
        return {"const"}
    fc = hu.field_chain(e)
    if fc is not None and fc[1]:
        return {"field:" + ".".join(fc[1])}
    if k == "path":
        r = e["path"]["res"]
        if r["k"] == "local":
            if r["id"] in seen or depth > 8:
                return {"local:" + r["name"]}
            seen.add(r["id"])
            inits = hu.let_inits(f).get(r["id"], [])
            if not inits:
                return {"local:" + r["name"]}
            out = set()
            for i in inits:
                out |= expr_leaves(f, i, depth + 1, seen)
            return out
        return {"const"}
    if k in ("call", "mcall"):
        out = set()
        subs = ([e["recv"]] if k == "mcall" else []) + list(e["args"])
        for a in subs:
            out |= expr_leaves(f, a, depth + 1, seen)
        return out or {"const"}
    if k == "bin":
        return expr_leaves(f, e["l"], depth + 1, seen) | expr_leaves(f, e["r"], depth + 1, seen)
    if k in ("addr_of", "un", "field"):
        return expr_leaves(f, e["e"], depth + 1, seen)
    return {"other:" + str(k)}


def function_index_is_module_local(F):
    """FunctionIr.function_index is assigned from an enumerate() that restarts for every module (flatten_module)."""
    g = F.fn("compiler::module::function_to_function_ir")
    params = [p.get("id") for p in g.hir["params"]]
    src_param = None
    handle_param = None
    for x in hir_walk(g.hir["body"]):
        if x.get("k") == "struct" and short(x["path"]["res"].get("path", "")).endswith("FunctionIr"):
            for fld in x["fields"]:
                lv = expr_leaves(g, fld["e"])
                ids = [hir_local_id(hu.strip_casts(fld["e"]))]
                if fld["name"] == "function_index" and ids[0] in params:
                    src_param = params.index(ids[0])
                if fld["name"] == "handle":
                    for y in hir_walk(fld["e"]):
                        lid = hir_local_id(y) if y.get("k") == "path" else None
                        if lid in params:
                            handle_param = params.index(lid)
    fm = F.fn("compiler::module::flatten_module")
    local = None
    for x in hir_walk(fm.hir["body"]):
        if x.get("k") == "call" and "compiler::module::function_to_function_ir" in hir_callee(x) and src_param is not None:
            a = hu.strip_casts(x["args"][src_param])
            # is it the index variable of `module.functions.iter().enumerate()` ?
            lid = hir_local_id(a)
            for y in hir_walk(fm.hir["body"]):
                if y.get("k") == "match" and y.get("source", "").startswith("ForLoopDesugar"):
                    it = hir_strip(y["scrut"])
                    it = hir_strip(it["args"][0]) if it.get("k") == "call" and it["args"] else it
                    if it.get("k") == "mcall" and it["name"] == "enumerate":
                        base = hu.field_chain(hir_strip(hir_strip(it["recv"]).get("recv", it["recv"])))
                        from cao.facts import pat_bindings
                        for z in hir_walk(y):
                            if z.get("k") == "match":
                                for arm in z["arms"]:
                                    for bid, nm in pat_bindings(arm["pat"]):
                                        if bid == lid and base and base[1][-1:] == ["functions"] and base[2] == "module":
                                            local = True
    return local, src_param, handle_param


def rule_l(F):
    res = []
    f = F.fn("compiler::Compiler::process_card")
    # label insertions inside the Closure arm
    from rules.c10 import arm_labels
    labels = arm_labels(f)
    inserts = []
    for x in hir_walk(f.hir["body"]):
        if x.get("k") == "mcall" and x["name"] == "insert":
            fc = hu.field_chain(x["recv"])
            if fc and fc[1][-2:] == ["labels", "0"] and labels.get(id(x)) == "Closure":
                inserts.append(x)
    if not inserts:
        raise AnchorMissing("label insertion in the Closure arm of process_card")
    local, _sp, _hp = function_index_is_module_local(F)
    for n, x in enumerate(inserts):
        lv = expr_leaves(f, x["args"][0])
        key = "C06/L/process_card[Closure]/label-key-is-program-unique"
        wide = [l for l in lv if any(w in l for w in ("handle", "namespace", "current_function", "function_handle", "next_closure"))
                and "current_index" not in l]
        if wide:
            res.append(ok("C06.L", key, f.loc(x["ln"]), "the closure label depends on %s" % sorted(wide), leaves=sorted(lv)))
        elif local:
            res.append(bad("C06.L", key, f.loc(x["ln"]),
                           "the closure body is stored in the label table under a key that depends only on current_index (%s); its `function` "
                           "component is FunctionIr.function_index, the position of the function inside its own module: two closures at the same "
                           "card position of same-numbered functions in different modules get the same label and one runs the other's body"
                           % sorted(lv), leaves=sorted(lv)))
        else:
            res.append(undecided("C06.L", key, f.loc(x["ln"]), "could not establish whether CardIndex.function is program-wide (%s)" % sorted(lv)))
    return res


# ---------------------------------------------------------------------------------------------------
# C06.R
# ---------------------------------------------------------------------------------------------------

def rule_r(F):
    res = []
    f = F.fn(IE + "instr_return")
    cfg = f.cfg
    close = [bi for bi, t in mu.calls(f) if IE + "_close_upvalues" in callee_names(t["func"])]
    trunc = [bi for bi, t in mu.calls(f) if "collections::value_stack::ValueStack::clear_until" in callee_names(t["func"])]
    if not trunc:
        raise AnchorMissing("clear_until in instr_return")
    if close and all(any(cfg.dominates(c, tb) and c != tb for c in close) for tb in trunc):
        res.append(ok("C06.R", "C06/R/instr_return/close-before-truncate", f.loc(), "_close_upvalues dominates the truncation of the value stack"))
    else:
        res.append(bad("C06.R", "C06/R/instr_return/close-before-truncate", f.loc(),
                       "instr_return truncates the value stack without first closing the upvalues that point into the frame: closures "
                       "that outlive the call read slots that are reused by later frames"))
    # scope_end: if var.captured { CloseUpvalue } else { Pop }
    g = F.fn("compiler::Compiler::scope_end")
    from rules.c10 import instr_ctor
    found = None
    for x in hir_walk(g.hir["body"]):
        if x.get("k") == "if":
            c = hu.strip_casts(x["cond"])
            if c.get("k") == "field" and c["name"] == "captured":
                def emitted(e):
                    out = []
                    for y in hir_walk(e):
                        if y.get("k") in ("call", "mcall"):
                            nm = hir_callee(y)
                            if "compiler::Compiler::push_instruction" in nm:
                                out.append(instr_ctor(y["args"][0]))
                            elif any(n.endswith("::push") for n in nm) and y.get("k") == "mcall":
                                v = instr_ctor(y["args"][0])
                                if v:
                                    out.append(v)
                    return out
                found = (emitted(x["then"]), emitted(x.get("else")) if x.get("else") else [])
    if found is None:
        res.append(undecided("C06.R", "C06/R/scope_end/captured-locals-are-closed", g.loc(), "branch on Local.captured not found"))
    elif found[0] == ["CloseUpvalue"] and found[1] == ["Pop"]:
        res.append(ok("C06.R", "C06/R/scope_end/captured-locals-are-closed", g.loc(), "captured locals emit CloseUpvalue, the others Pop"))
    else:
        res.append(bad("C06.R", "C06/R/scope_end/captured-locals-are-closed", g.loc(),
                       "scope_end must emit CloseUpvalue for captured locals and Pop for the others (emits %s / %s)" % found))
    return res


RULES = [
    Rule("C06.O", rule_o, 3, "value-stack slots addressed from bytecode operands are frame-relative"),
    Rule("C06.L", rule_l, 1, "closure labels are program-unique"),
    Rule("C06.R", rule_r, 2, "upvalues are closed before their slots disappear"),
]
