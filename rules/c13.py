"""C13 — The handle table is a faithful map on non-zero handles.

Same representation invariants as C12, different code (collections::handle_table::HandleTable), same rule code:

  C13.C  slot/count pairing.
  C13.G  every insertion path (insert, entry().or_insert_with, _insert's callers) evaluates the load factor.
  C13.H  one home-slot function (mask with capacity - 1).
  C13.I  no slot index from find_ind is used across a reallocation.
  C13.P  every value stored to `capacity` is a power of two (derived from pad_pot / next_power_of_two), because find_ind
         masks with capacity - 1; pad_pot itself cannot underflow.
  C13.R  removal repairs the probe chain (back-shift or tombstone).
  C13.Z  the reserved handle 0 is rejected on every insertion path.
"""
from cao.facts import AnchorMissing, callee_names, short, op_local, op_place, DefUse, hir_walk, hir_callee, hir_strip, hir_local_id
from cao.rules import Rule, ok, bad, undecided, note
from cao import tables as tb
from cao import mirutil as mu
from cao import hirutil as hu

EXPLANATION = (
    "HandleTable is an open-addressing table with linear probing and a power-of-two mask. The rules find, by type (the "
    "Handle array) and resolved callee, every site that empties or fills a slot, every store to `capacity`, every "
    "construction of a vacant entry, and check: count pairing; a load-factor check dominating each insertion (otherwise "
    "the last free slot can be filled and find_ind never terminates — the 17-globals compile hang); capacity always "
    "derived from pad_pot/next_power_of_two (otherwise the mask makes slots unreachable and probes non-terminating) and "
    "pad_pot free of arithmetic underflow; removal followed by a back-shift loop; zero handles rejected before a slot is "
    "written. Not decided: drop-exactly-once, equality with a reference map over histories."
)
ASSUMPTIONS = ["handles are compared by value only (the table's documented contract)"]


def table(F):
    return tb.Table(F, "C13", "HandleTable", "collections::handle_table", ("collections::handle_table::Handle",), None, None)


def rule_c(F):
    return tb.rule_pairing(table(F), "C")


def rule_g(F):
    return tb.rule_guard(table(F), "G")


def rule_h(F):
    return tb.rule_home(table(F), "H")


def rule_i(F):
    return tb.rule_stale(table(F), "I")


def rule_p(F):
    res = []
    T = table(F)
    n = 0
    for f in T.fns:
        if not f.mir:
            continue
        du = DefUse(f)
        for bi, b in enumerate(f.blocks):
            for st in b["stmts"]:
                if st["k"] != "assign":
                    continue
                stores = []
                if mu.field_path(st["place"])[-1:] == ["capacity"] and st["place"]["p"] and short(st["place"]["p"][-1].get("owner", "")).endswith("HandleTable"):
                    stores.append(st["rv"].get("op") if st["rv"]["k"] == "use" else None)
                if st["rv"]["k"] == "agg" and short(st["rv"]["agg"].get("path", "")).endswith("handle_table::HandleTable"):
                    fields = st["rv"]["agg"].get("fields", [])
                    if "capacity" in fields:
                        stores.append(st["rv"]["ops"][fields.index("capacity")])
                for op in stores:
                    n += 1
                    key = "C13/P/%s/capacity-is-power-of-two" % f.name
                    good = False
                    why = ""
                    if op is not None:
                        l = op_local(op)
                        if l is not None:
                            good, why = pot_origin(f, du, l, T=T)
                        elif op.get("k") == "const":
                            v = op.get("val")
                            good = isinstance(v, int) and v >= 2 and (v & (v - 1)) == 0
                            why = "constant %s" % v
                    if good:
                        res.append(ok("C13.P", key, f.loc(st.get("ln")), "capacity %s" % why))
                    else:
                        res.append(bad("C13.P", key, f.loc(st.get("ln")),
                                       "%s stores a capacity that is not derived from pad_pot/next_power_of_two (%s): find_ind masks with "
                                       "capacity - 1, so a non-power-of-two (or 0/1) capacity makes slots unreachable, probes non-terminating "
                                       "or underflows the mask" % (f.name, why or "taken as given")))
    if n < 2:
        raise AnchorMissing("stores to HandleTable.capacity (found %d)" % n)
    # pad_pot cannot underflow
    pp = F.fn("collections::handle_table::pad_pot")
    subs = []
    for b in pp.blocks:
        t = b["term"]
        if t["k"] == "assert" and t["msg"] == "Overflow" and t["msg_ops"] and t["msg_ops"][0] in ("Sub",):
            subs.append(t.get("ln"))
    if subs:
        # is every subtraction guarded by a comparison that excludes 0 ? accept if the function first clamps its argument
        guarded = any(t["k"] == "call" and any(n.rsplit("::", 1)[-1] in ("max", "next_power_of_two", "checked_sub", "saturating_sub") for n in callee_names(t["func"]))
                      for _bi, t in mu.calls(pp))
        if guarded:
            res.append(ok("C13.P", "C13/P/pad_pot/no-underflow", pp.loc(), "pad_pot clamps its argument before subtracting"))
        else:
            res.append(bad("C13.P", "C13/P/pad_pot/no-underflow", pp.loc(subs[0]),
                           "pad_pot subtracts 1 from its argument (and from the running value) unconditionally: pad_pot(0) and pad_pot(1) "
                           "underflow (panic in debug builds), reachable from reserve()/adjust_capacity on small tables"))
    else:
        res.append(ok("C13.P", "C13/P/pad_pot/no-underflow", pp.loc(), "no unguarded subtraction in pad_pot"))
    return res


def _is_pot_const(op):
    v = op.get("val") if op is not None and op.get("k") == "const" else None
    return isinstance(v, int) and v >= 1 and (v & (v - 1)) == 0


def pot_origin(f, du, local, depth=0, seen=None, T=None):
    """is the local a power of two by construction: derived from pad_pot(..) / next_power_of_two() / a table's capacity,
    optionally through max/min with a power-of-two constant and through doubling (`c *= 2`, `c << 1`) - along EVERY
    definition of the local (a loop-carried `c = c * 2` is the induction step); the result of a function of the table whose
    every returned value is such; a parameter of a private function of the table (T given) whose every call site passes
    such a value.  -> (bool, explanation)"""
    seen = set() if seen is None else seen
    if depth > 14:
        return False, "too deep"
    if (f.short, local) in seen:
        return True, "carried around a loop"
    seen = seen | {(f.short, local)}
    ds = [d for d in du.defs.get(local, []) if not d[3].get("place", d[3].get("dest"))["p"]]
    if not ds:
        if 1 <= local <= f.mir["arg_count"]:
            if T is not None and str(f.raw.get("vis", "")) != "Public" and T.fn_by_short(f.short) is not None:
                sites = []
                for g in T.fns:
                    if not g.mir or g is f:
                        continue
                    for _cb, ct in mu.calls(g):
                        if f.short in callee_names(ct["func"]) and len(ct["args"]) >= local:
                            sites.append((g, ct["args"][local - 1]))
                if sites:
                    for g, a in sites:
                        al = op_local(a)
                        if al is None:
                            good, why = (_is_pot_const(a) and a.get("val") >= 2), "constant %s" % a.get("val")
                        else:
                            good, why = pot_origin(g, DefUse(g), al, depth + 1, seen, T)
                        if not good:
                            return False, "%s passes a value that is not a power of two by construction (%s)" % (g.name, why)
                    return True, "a power of two at every call site (%s)" % ", ".join(sorted(set(g.name for g, _a in sites)))
            return False, "the caller's argument is stored unchanged"
        return False, "no definition"
    whys = []
    for bi, si, kind, payload in ds:
        good, why = _pot_def(f, du, kind, payload, depth, seen, T)
        if not good:
            return False, why
        whys.append(why)
    return True, whys[0] if len(whys) == 1 else "every assignment keeps it a power of two (%s)" % "; ".join(sorted(set(whys)))


def _pot_mul(f, du, rv, depth, seen, T):
    """`x * 2^k` / `x << k` of a power of two x"""
    if rv["k"] != "bin" or rv["op"] not in ("Mul", "MulWithOverflow", "MulUnchecked", "Shl", "ShlUnchecked"):
        return None
    l, r = rv["l"], rv["r"]
    if rv["op"].startswith("Shl"):
        ll = op_local(l)
        if ll is None or r.get("k") != "const":
            return False, "shift"
        return pot_origin(f, du, ll, depth + 1, seen, T)
    for a, b in ((l, r), (r, l)):
        if _is_pot_const(b) and op_local(a) is not None:
            good, why = pot_origin(f, du, op_local(a), depth + 1, seen, T)
            return good, ("doubled: " + why) if good else why
    return False, "product with something that is not a power-of-two constant"


def _pot_def(f, du, kind, payload, depth, seen, T):
    if kind == "call":
        nm = callee_names(payload["func"])
        last = nm[0].rsplit("::", 1)[-1]
        if last in ("pad_pot", "next_power_of_two"):
            return True, "derived from %s" % last
        if last in ("max", "min", "clamp"):
            a0 = op_local(payload["args"][0])
            other = payload["args"][1]
            if other.get("k") == "const":
                if not _is_pot_const(other):
                    return False, "max with non-power-of-two constant"
            else:
                ol = op_local(other)
                good, why = pot_origin(f, du, ol, depth + 1, seen, T) if ol is not None else (False, "operand")
                if not good:
                    return False, why
            if a0 is None:
                return False, "max of a constant"
            return pot_origin(f, du, a0, depth + 1, seen, T)
        if last in ("capacity",):
            return True, "copied from another table's capacity"
        if T is not None:
            for n in nm:
                g = T.fn_by_short(n)
                if g is not None and g.mir:
                    # every value g returns
                    gdu = DefUse(g)
                    rets = [d for d in gdu.defs.get(0, []) if not d[3].get("place", d[3].get("dest"))["p"]]
                    if not rets:
                        return False, "result of %s" % last
                    for _b, _s, k2, p2 in rets:
                        good, why = _pot_def(g, gdu, k2, p2, depth + 1, seen, T)
                        if not good:
                            return False, "result of %s (%s)" % (last, why)
                    return True, "result of %s, which returns a power of two" % last
        return False, "result of %s" % last
    rv = payload["rv"]
    if rv["k"] in ("use", "cast"):
        p = op_place(rv["op"])
        if p is None:
            return (True, "constant") if _is_pot_const(rv["op"]) and rv["op"].get("val") >= 2 else (False, "constant")
        if p["p"]:
            names = [e["name"] for e in p["p"] if e["k"] == "field"]
            if names[-1:] == ["capacity"]:
                return True, "copied from a table's capacity"
            if names == ["0"] and len(p["p"]) == 1:
                # `(_t.0)` of a checked multiplication
                d = du.sole_def(p["l"])
                if d is not None and d[2] == "assign":
                    r = _pot_mul(f, du, d[3]["rv"], depth, seen, T)
                    if r is not None:
                        return r
            return False, "field"
        return pot_origin(f, du, p["l"], depth + 1, seen, T)
    r = _pot_mul(f, du, rv, depth, seen, T)
    if r is not None:
        return r
    return False, rv["k"]


def rule_r(F):
    res = tb.rule_backshift(table(F), F, "R", "probe-chain-repaired", power_of_two=True)
    if not res:
        raise AnchorMissing("single-slot removal in HandleTable")
    return res


def rule_z(F):
    """every function that fills a slot with a caller-supplied handle is reached only after the handle was compared with 0"""
    res = []
    T = table(F)
    for name in ("insert", "entry"):
        f = T.fn(name)
        # a comparison of key.0 with 0 that leads to an early return / error
        has_check = False
        for x in hir_walk(f.hir["body"]):
            if x.get("k") == "bin" and x["op"] in ("Eq", "Ne"):
                l, r = hu.strip_casts(x["l"]), hu.strip_casts(x["r"])
                for a, b2 in ((l, r), (r, l)):
                    if a.get("k") == "field" and a["name"] == "0" and hir_strip(a["e"]).get("ty", "").endswith("Handle") and hu.is_int_lit(b2) and hu.int_lit(b2) == 0:
                        inner = hir_strip(a["e"])
                        if inner.get("k") == "path" and inner["path"]["res"].get("k") == "local":
                            has_check = True
        key = "C13/Z/%s/zero-handle-rejected" % name
        if has_check:
            res.append(ok("C13.Z", key, f.loc(), "the handle is compared with 0 before a slot is written"))
        else:
            res.append(bad("C13.Z", key, f.loc(),
                           "HandleTable::%s accepts the reserved handle 0: find_ind(0) stops at the first empty slot, which then compares equal "
                           "to the key, so an uninitialised value is handed out as an occupied entry" % name))
    # Handle constructors from hashes: the reserved 0 must be mapped away (not only debug_assert'ed)
    for f in F.fns:
        if not f.mir or f.is_closure or not f.short.startswith("collections::handle_table::Handle::from_"):
            continue
        du = DefUse(f)
        for b in f.blocks:
            for st in b["stmts"]:
                if st["k"] == "assign" and st["rv"]["k"] == "agg" and short(st["rv"]["agg"].get("path", "")).endswith("handle_table::Handle") and st["rv"]["ops"]:
                    l = op_local(st["rv"]["ops"][0])
                    plain = False
                    seen = set()
                    while l is not None and l not in seen:
                        seen.add(l)
                        d = du.sole_def(l)
                        if d is None:
                            break
                        if d[2] == "call":
                            nm = callee_names(d[3]["func"])
                            plain = any(n.endswith("hash_bytes") for n in nm)
                            break
                        rv = d[3]["rv"]
                        if rv["k"] in ("use", "cast"):
                            l = op_local(rv["op"])
                            continue
                        break
                    key = "C13/Z/Handle::%s/never-zero" % f.name
                    if plain:
                        res.append(bad("C13.Z", key, f.loc(st.get("ln")), "Handle::%s returns the raw hash: a key hashing to 0 becomes the reserved EMPTY handle (only a debug_assert guards it)" % f.name))
                    else:
                        res.append(ok("C13.Z", key, f.loc(st.get("ln")), "the hash is post-processed before it becomes a Handle"))
    return res


def rule_f(F):
    """the growth test is not off by one: see cao/capacity.py free_slot_after_insert"""
    from cao import capacity
    res = []
    for f, ln, status, msg in capacity.free_slot_after_insert(F, "collections::handle_table::HandleTable", True):
        key = "C13/F/%s/free-slot-after-insert" % f.name
        mk = {"ok": ok, "bad": bad, "undecided": undecided}[status]
        if any(r["key"] == key for r in res):
            key += "#%d" % sum(1 for r in res if r["key"].startswith(key))
        res.append(mk("C13.F", key, f.loc(ln), msg))
    if not res:
        raise AnchorMissing("growth tests in the insertion functions")
    return res


def rule_k(F):
    """every resize leaves a free slot: for each call of adjust_capacity, in all small states (count < capacity) in which the
    guards around the call hold, the installed capacity exceeds the item count (cao/capacity.py, exhaustive evaluation)."""
    res = []
    for f, ln, status, msg in tb.free_slot_after_resize(table(F), True):
        key = "C13/K/%s/free-slot-after-resize" % f.name
        mk = {"ok": ok, "bad": bad, "undecided": undecided}[status]
        res.append(mk("C13.K", key, f.loc(ln), msg))
    if not res:
        raise AnchorMissing("calls of adjust_capacity")
    return res


RULES = [
    Rule("C13.F", rule_f, 2, "when the growth test declines a free slot remains after the insertion"),
    Rule("C13.K", rule_k, 2, "every resize leaves a free slot"),
    Rule("C13.C", rule_c, 3, "slot/count pairing in HandleTable"),
    Rule("C13.G", rule_g, 2, "load-factor guard on every insertion path"),
    Rule("C13.H", rule_h, 1, "one home-slot function"),
    Rule("C13.I", rule_i, 2, "no stale slot index across reallocation"),
    Rule("C13.P", rule_p, 3, "capacity is always a power of two; pad_pot cannot underflow"),
    Rule("C13.R", rule_r, 4, "removal repairs the probe chain"),
    Rule("C13.Z", rule_z, 2, "zero handle rejected on every insertion path"),
]
