"""C13 — The handle table is a faithful map on non-zero handles.

Same representation invariants as C12, different code (collections::handle_table::HandleTable), same rule code:

  C13.C  slot/count pairing.
  C13.G  every insertion path (insert, entry().or_insert_with, _insert's callers) evaluates the load factor.
  C13.H  one home-slot function (mask with capacity - 1).
  C13.I  no slot index from find_ind is used across a reallocation.
  C13.P  every value stored to `capacity` is a power of two (derived from pad_pot / next_power_of_two), because find_ind
         masks with capacity - 1; pad_pot itself cannot underflow.
  C13.R  removal repairs the probe chain (back-shift or tombstone).
  C13.Z  the reserved handle 0 is rejected on every insertion path.
"""
from cao.facts import AnchorMissing, callee_names, short, op_local, op_place, DefUse, hir_walk, hir_callee, hir_strip, hir_local_id
from cao.rules import Rule, ok, bad, undecided, note
from cao import tables as tb
from cao import mirutil as mu
from cao import hirutil as hu

EXPLANATION = (
    "HandleTable is an open-addressing table with linear probing and a power-of-two mask. The rules find, by type (the "
    "Handle array) and resolved callee, every site that empties or fills a slot, every store to `capacity`, every "
    "construction of a vacant entry, and check: count pairing; a load-factor check dominating each insertion (otherwise "
    "the last free slot can be filled and find_ind never terminates — the 17-globals compile hang); capacity always "
    "derived from pad_pot/next_power_of_two (otherwise the mask makes slots unreachable and probes non-terminating) and "
    "pad_pot free of arithmetic underflow; removal followed by a back-shift loop; zero handles rejected before a slot is "
    "written. Not decided: drop-exactly-once, equality with a reference map over histories."
)
ASSUMPTIONS = ["handles are compared by value only (the table's documented contract)"]


def table(F):
    return tb.Table(F, "C13", "HandleTable", "collections::handle_table", ("collections::handle_table::Handle",), None, None)


def rule_c(F):
    return tb.rule_pairing(table(F), "C")


def rule_g(F):
    return tb.rule_guard(table(F), "G")


def rule_h(F):
    return tb.rule_home(table(F), "H")


def rule_i(F):
    return tb.rule_stale(table(F), "I")


def rule_p(F):
    res = []
    T = table(F)
    n = 0
    for f in T.fns:
        if not f.mir:
            continue
        du = DefUse(f)
        for bi, b in enumerate(f.blocks):
            for st in b["stmts"]:
                if st["k"] != "assign":
                    continue
                stores = []
                if mu.field_path(st["place"])[-1:] == ["capacity"] and st["place"]["p"] and short(st["place"]["p"][-1].get("owner", "")).endswith("HandleTable"):
                    stores.append(st["rv"].get("op") if st["rv"]["k"] == "use" else None)
                if st["rv"]["k"] == "agg" and short(st["rv"]["agg"].get("path", "")).endswith("handle_table::HandleTable"):
                    fields = st["rv"]["agg"].get("fields", [])
                    if "capacity" in fields:
                        stores.append(st["rv"]["ops"][fields.index("capacity")])
                for op in stores:
                    n += 1
                    key = "C13/P/%s/capacity-is-power-of-two" % f.name
                    good = False
                    why = ""
                    if op is not None:
                        l = op_local(op)
                        if l is not None:
                            good, why = pot_origin(f, du, l)
                        elif op.get("k") == "const":
                            v = op.get("val")
                            good = isinstance(v, int) and v >= 2 and (v & (v - 1)) == 0
                            why = "constant %s" % v
                    if good:
                        res.append(ok("C13.P", key, f.loc(st.get("ln")), "capacity %s" % why))
                    else:
                        res.append(bad("C13.P", key, f.loc(st.get("ln")),
                                       "%s stores a capacity that is not derived from pad_pot/next_power_of_two (%s): find_ind masks with "
                                       "capacity - 1, so a non-power-of-two (or 0/1) capacity makes slots unreachable, probes non-terminating "
                                       "or underflows the mask" % (f.name, why or "taken as given")))
    if n < 2:
        raise AnchorMissing("stores to HandleTable.capacity (found %d)" % n)
    # pad_pot cannot underflow
    pp = F.fn("collections::handle_table::pad_pot")
    subs = []
    for b in pp.blocks:
        t = b["term"]
        if t["k"] == "assert" and t["msg"] == "Overflow" and t["msg_ops"] and t["msg_ops"][0] in ("Sub",):
            subs.append(t.get("ln"))
    if subs:
        # is every subtraction guarded by a comparison that excludes 0 ? accept if the function first clamps its argument
        guarded = any(t["k"] == "call" and any(n.rsplit("::", 1)[-1] in ("max", "next_power_of_two", "checked_sub", "saturating_sub") for n in callee_names(t["func"]))
                      for _bi, t in mu.calls(pp))
        if guarded:
            res.append(ok("C13.P", "C13/P/pad_pot/no-underflow", pp.loc(), "pad_pot clamps its argument before subtracting"))
        else:
            res.append(bad("C13.P", "C13/P/pad_pot/no-underflow", pp.loc(subs[0]),
                           "pad_pot subtracts 1 from its argument (and from the running value) unconditionally: pad_pot(0) and pad_pot(1) "
                           "underflow (panic in debug builds), reachable from reserve()/adjust_capacity on small tables"))
    else:
        res.append(ok("C13.P", "C13/P/pad_pot/no-underflow", pp.loc(), "no unguarded subtraction in pad_pot"))
    return res


def pot_origin(f, du, local, depth=0):
    """is the local derived from pad_pot(..) / next_power_of_two() (optionally through max(const pot))?"""
    seen = set()
    while depth < 12:
        depth += 1
        if local in seen:
            return False, "cyclic"
        seen.add(local)
        ds = du.defs.get(local, [])
        if len(ds) != 1:
            if 1 <= local <= f.mir["arg_count"]:
                return False, "the caller's argument is stored unchanged"
            return False, "several definitions"
        bi, si, kind, payload = ds[0]
        if kind == "call":
            nm = callee_names(payload["func"])
            last = nm[0].rsplit("::", 1)[-1]
            if last in ("pad_pot", "next_power_of_two"):
                return True, "derived from %s" % last
            if last in ("max", "min", "clamp"):
                a0 = op_local(payload["args"][0])
                other = payload["args"][1]
                if other.get("k") == "const":
                    v = other.get("val")
                    if not (isinstance(v, int) and v >= 1 and (v & (v - 1)) == 0):
                        return False, "max with non-power-of-two constant"
                if a0 is None:
                    return False, "max of a constant"
                local = a0
                continue
            if last in ("capacity",):
                return True, "copied from another table's capacity"
            return False, "result of %s" % last
        rv = payload["rv"]
        if rv["k"] in ("use", "cast"):
            p = op_place(rv["op"])
            if p is None:
                return False, "constant"
            if p["p"]:
                names = [e["name"] for e in p["p"] if e["k"] == "field"]
                if names[-1:] == ["capacity"]:
                    return True, "copied from a table's capacity"
                return False, "field"
            local = p["l"]
            continue
        return False, rv["k"]
    return False, "too deep"


def rule_r(F):
    res = tb.rule_backshift(table(F), F, "R", "probe-chain-repaired", power_of_two=True)
    if not res:
        raise AnchorMissing("single-slot removal in HandleTable")
    return res


def rule_z(F):
    """every function that fills a slot with a caller-supplied handle is reached only after the handle was compared with 0"""
    res = []
    T = table(F)
    for name in ("insert", "entry"):
        f = T.fn(name)
        # a comparison of key.0 with 0 that leads to an early return / error
        has_check = False
        for x in hir_walk(f.hir["body"]):
            if x.get("k") == "bin" and x["op"] in ("Eq", "Ne"):
                l, r = hu.strip_casts(x["l"]), hu.strip_casts(x["r"])
                for a, b2 in ((l, r), (r, l)):
                    if a.get("k") == "field" and a["name"] == "0" and hir_strip(a["e"]).get("ty", "").endswith("Handle") and hu.is_int_lit(b2) and hu.int_lit(b2) == 0:
                        inner = hir_strip(a["e"])
                        if inner.get("k") == "path" and inner["path"]["res"].get("k") == "local":
                            has_check = True
        key = "C13/Z/%s/zero-handle-rejected" % name
        if has_check:
            res.append(ok("C13.Z", key, f.loc(), "the handle is compared with 0 before a slot is written"))
        else:
            res.append(bad("C13.Z", key, f.loc(),
                           "HandleTable::%s accepts the reserved handle 0: find_ind(0) stops at the first empty slot, which then compares equal "
                           "to the key, so an uninitialised value is handed out as an occupied entry" % name))
    # Handle constructors from hashes: the reserved 0 must be mapped away (not only debug_assert'ed)
    for f in F.fns:
        if not f.mir or f.is_closure or not f.short.startswith("collections::handle_table::Handle::from_"):
            continue
        du = DefUse(f)
        for b in f.blocks:
            for st in b["stmts"]:
                if st["k"] == "assign" and st["rv"]["k"] == "agg" and short(st["rv"]["agg"].get("path", "")).endswith("handle_table::Handle") and st["rv"]["ops"]:
                    l = op_local(st["rv"]["ops"][0])
                    plain = False
                    seen = set()
                    while l is not None and l not in seen:
                        seen.add(l)
                        d = du.sole_def(l)
                        if d is None:
                            break
                        if d[2] == "call":
                            nm = callee_names(d[3]["func"])
                            plain = any(n.endswith("hash_bytes") for n in nm)
                            break
                        rv = d[3]["rv"]
                        if rv["k"] in ("use", "cast"):
                            l = op_local(rv["op"])
                            continue
                        break
                    key = "C13/Z/Handle::%s/never-zero" % f.name
                    if plain:
                        res.append(bad("C13.Z", key, f.loc(st.get("ln")), "Handle::%s returns the raw hash: a key hashing to 0 becomes the reserved EMPTY handle (only a debug_assert guards it)" % f.name))
                    else:
                        res.append(ok("C13.Z", key, f.loc(st.get("ln")), "the hash is post-processed before it becomes a Handle"))
    return res


def rule_f(F):
    """the growth test is not off by one: see cao/capacity.py free_slot_after_insert"""
    from cao import capacity
    res = []
    for f, ln, status, msg in capacity.free_slot_after_insert(F, "collections::handle_table::HandleTable", True):
        key = "C13/F/%s/free-slot-after-insert" % f.name
        mk = {"ok": ok, "bad": bad, "undecided": undecided}[status]
        if any(r["key"] == key for r in res):
            key += "#%d" % sum(1 for r in res if r["key"].startswith(key))
        res.append(mk("C13.F", key, f.loc(ln), msg))
    if not res:
        raise AnchorMissing("growth tests in the insertion functions")
    return res


def rule_k(F):
    """every resize leaves a free slot: for each call of adjust_capacity, in all small states (count < capacity) in which the
    guards around the call hold, the installed capacity exceeds the item count (cao/capacity.py, exhaustive evaluation)."""
    from cao import capacity
    res = []
    for f, ln, status, msg in capacity.free_slot_after_resize(F, "collections::handle_table::HandleTable", True):
        key = "C13/K/%s/free-slot-after-resize" % f.name
        mk = {"ok": ok, "bad": bad, "undecided": undecided}[status]
        res.append(mk("C13.K", key, f.loc(ln), msg))
    if not res:
        raise AnchorMissing("calls of adjust_capacity")
    return res


RULES = [
    Rule("C13.F", rule_f, 2, "when the growth test declines a free slot remains after the insertion"),
    Rule("C13.K", rule_k, 2, "every resize leaves a free slot"),
    Rule("C13.C", rule_c, 3, "slot/count pairing in HandleTable"),
    Rule("C13.G", rule_g, 2, "load-factor guard on every insertion path"),
    Rule("C13.H", rule_h, 1, "one home-slot function"),
    Rule("C13.I", rule_i, 2, "no stale slot index across reallocation"),
    Rule("C13.P", rule_p, 3, "capacity is always a power of two; pad_pot cannot underflow"),
    Rule("C13.R", rule_r, 4, "removal repairs the probe chain"),
    Rule("C13.Z", rule_z, 2, "zero handle rejected on every insertion path"),
]
