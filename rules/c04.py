"""C04 — Compiling and running are total: errors are values, never crashes or hangs.

Totality over all inputs is not a shape property in general (the validity of most unwrap/index sites depends on
run-time invariants). Four clauses are shape, each a defect class the property text names:

  C04.A  script arithmetic cannot panic: the Add/Sub/Mul/Div/Neg impls of Value contain no overflow / division assertion
         on script-controlled integers in a debug-profile build.
  C04.B  the instruction budget cannot underflow (= C03.Z).
  C04.G  every insertion path of the open-addressing tables keeps a free slot, so probes terminate (= C13.G / C12.G).
  C04.R  native recursion over script data (eq / hash / partial_cmp / fmt / try_from over tables) is bounded.
  C04.K  a lookup keyed by a script Value is never assumed to succeed: no unwrap/expect on the result of
         CaoLangTable/CaoHashMap<Value, _> get / get_mut / remove. Value equality is not reflexive (NaN) and a table's hash
         changes when it is mutated, so a key that was inserted need not be found again.
  C04.H  (= C14.B, shared) every store that raises a stack's height is guarded by a comparison with the capacity: exhaustion
         surfaces as the stack-full error the handlers map (C04.S), never as an out-of-bounds panic.
  C04.U  counts read from program text are subtracted with a check: the number of leading `super.` components of an import
         (compiler::super_depth) is never the right operand of a plain `-` (usize underflow panics in every build profile
         that has overflow checks, wraps otherwise and then over-allocates / mis-slices).
  C04.S  exhausting the value stack or call stack is mapped to the corresponding error, never unwrapped, in the VM's
         instruction handlers.
"""
from cao.facts import callee_names, short, op_local, op_place
from cao.rules import Rule, ok, bad, undecided, note, shared
import rules.c14 as _c14
from cao import mirutil as mu

EXPLANATION = (
    "Only the clauses of totality that are visible in the shape of the code are decided: (A) MIR of the arithmetic "
    "operator impls of Value contains no Assert(Overflow|DivisionByZero|RemainderByZero) terminator (dev profile keeps "
    "them); (B) the budget decrement is guarded (shared with C03.Z); (G) the load-factor guard rules of C12/C13 (a full "
    "table makes find_ind loop forever: the 17-globals compile hang); (R) strongly connected components of the resolved "
    "call graph that recurse through object contents must carry a bound; (S) push results in instruction handlers are "
    "propagated with `?`/map_err, not unwrapped. Everything else in C04 (absence of every other panic or hang for every "
    "input) is NOT decided by this check."
)
ASSUMPTIONS = [
    "dev-profile MIR (overflow checks on) is analysed; the release configuration is analysed in the thorough tier",
]

ARITH = ("std::ops::Add", "std::ops::Sub", "std::ops::Mul", "std::ops::Div", "std::ops::Rem", "std::ops::Neg")


def rule_a(F):
    res = []
    n = 0
    for f in F.fns:
        r = f.raw
        if not f.mir or not r.get("impl_trait") or short(r["impl_trait"]) not in ARITH:
            continue
        if short(r.get("impl_self", "")) != "value::Value":
            continue
        n += 1
        op = short(r["impl_trait"]).rsplit("::", 1)[-1]
        asserts = []
        # the operator's own body, the closures it builds (an operation handed to a shared helper as a closure is a separate
        # MIR body) and the private functions of value.rs it reaches
        reach = F.callgraph.reach(f.short, stop=lambda nm: nm != f.short and not (nm.startswith("value::") or nm.startswith("<value::")))
        bodies = [f]
        for g in F.fns:
            if g is f or not g.mir:
                continue
            root = short(g.raw.get("root") or "")
            if (g.is_closure and (root == f.short or root in reach)) or (not g.is_closure and g.short in reach and
                                                                         (g.short.startswith("value::") or g.short.startswith("<value::"))
                                                                         and not g.raw.get("impl_trait")):
                bodies.append(g)
        for g in bodies:
            for b in g.blocks:
                t = b["term"]
                if t["k"] == "assert" and t["msg"] in ("Overflow", "OverflowNeg", "DivisionByZero", "RemainderByZero"):
                    asserts.append((t["msg"], t.get("ln"), t["msg_ops"][-1] if t["msg_ops"] else ""))
        key = "C04/A/Value::%s" % op.lower()
        if asserts:
            a = asserts[0]
            res.append(bad("C04.A", key, f.loc(a[1]),
                           "`impl %s for Value` can panic on script-controlled integers (%s assertion on %s): integer overflow must be a "
                           "defined result or an error, not a crash" % (op, a[0], a[2])))
        else:
            res.append(ok("C04.A", key, f.loc(), "no arithmetic assertion in impl %s for Value" % op))
    if n < 4:
        from cao.facts import AnchorMissing
        raise AnchorMissing("arithmetic operator impls of Value (found %d)" % n)
    return res


def rule_b(F):
    from rules.c03 import rule_z
    from cao.rules import R
    return [R("C04.B", r["key"].replace("C03/Z", "C04/B"), r["status"], r["loc"], r["msg"], **r["data"]) for r in rule_z(F)]


def rule_g(F):
    out = []
    from rules import c13, c12
    for mod, rid in ((c13, "C13.G"), (c12, "C12.G")):
        for rule in mod.RULES:
            if rule.id == rid:
                for r in rule.fn(F):
                    from cao.rules import R
                    out.append(R("C04.G", "C04/G/" + r["key"], r["status"], r["loc"], r["msg"], **r["data"]))
    return out


RECURSIVE_MODULES = ("value::", "vm::runtime::cao_lang_object::", "vm::runtime::cao_lang_table::", "<value::", "<vm::runtime::")


def rule_r(F):
    res = []
    cg = F.callgraph
    nodes = [f.short for f in F.fns if f.mir and any(m in f.short for m in RECURSIVE_MODULES)]
    nodeset = set(nodes)
    edges = {}
    for n in nodes:
        es = set(e for e in cg.edges.get(n, ()) if e in nodeset)
        # blanket TryInto -> TryFrom of the same crate type
        for _bi, names, t in cg.sites.get(n, []):
            if any(x.endswith("TryInto::try_into") for x in names):
                ra = t["func"].get("resolved_args") or t["func"].get("args") or []
                if len(ra) >= 2 and "::" in ra[1]:
                    for m in nodes:
                        if m.startswith("<") and "TryFrom<" in m and short(ra[1]).split("::")[-1] in m.split(" as ")[0] and m.endswith("::try_from"):
                            es.add(m)
            # default trait methods implemented in std in terms of the required method of the same impl
            for dflt, req, tr in (("PartialEq::ne", "eq", "PartialEq"), ("PartialOrd::lt", "partial_cmp", "PartialOrd"),
                                  ("PartialOrd::le", "partial_cmp", "PartialOrd"), ("PartialOrd::gt", "partial_cmp", "PartialOrd"),
                                  ("PartialOrd::ge", "partial_cmp", "PartialOrd")):
                if any(x.endswith(dflt) for x in names):
                    ra = t["func"].get("resolved_args") or t["func"].get("args") or []
                    if ra:
                        selfty = short(ra[0]).lstrip("&").replace("mut ", "").strip()
                        for m in nodes:
                            if m.startswith("<%s as " % selfty) and ("::%s" % tr) in m and m.endswith("::" + req):
                                es.add(m)
        edges[n] = es
    # Tarjan SCC
    index = {}
    low = {}
    onstack = set()
    stack = []
    sccs = []
    counter = [0]

    def strong(v):
        work = [(v, iter(sorted(edges[v])))]
        index[v] = low[v] = counter[0]
        counter[0] += 1
        stack.append(v)
        onstack.add(v)
        while work:
            node, it = work[-1]
            adv = False
            for w in it:
                if w not in index:
                    index[w] = low[w] = counter[0]
                    counter[0] += 1
                    stack.append(w)
                    onstack.add(w)
                    work.append((w, iter(sorted(edges[w]))))
                    adv = True
                    break
                elif w in onstack:
                    low[node] = min(low[node], index[w])
            if adv:
                continue
            work.pop()
            if work:
                parent = work[-1][0]
                low[parent] = min(low[parent], low[node])
            if low[node] == index[node]:
                comp = []
                while True:
                    w = stack.pop()
                    onstack.discard(w)
                    comp.append(w)
                    if w == node:
                        break
                sccs.append(comp)

    for n in sorted(nodes):
        if n not in index:
            strong(n)
    found = 0
    for comp in sccs:
        if len(comp) == 1 and comp[0] not in edges[comp[0]]:
            continue
        found += 1
        comp = sorted(comp)
        # name the cycle by the trait method it implements
        label = None
        for c in comp:
            if c.startswith("<") and " as " in c:
                tr = c.split(" as ")[1].split("<")[0].split(">")[0].rsplit("::", 1)[-1]
                ty = c[1:].split(" as ")[0].rsplit("::", 1)[-1]
                label = "%s for %s" % (tr, ty)
                break
        label = label or comp[0].rsplit("::", 1)[-1]
        # bounded if some member takes a depth-like integer parameter
        bounded = False
        for c in comp:
            f = F.fn(c, required=False)
            if f is None:
                continue
            sig = f.raw.get("sig") or {}
            if any(t in ("usize", "u32", "u16", "u8", "u64") for t in sig.get("inputs", [])[1:]):
                bounded = True
        f0 = F.fn(comp[0], required=False)
        key = "C04/R/%s" % label
        if bounded:
            res.append(ok("C04.R", key, f0.loc() if f0 else "", "recursion over object contents carries an integer bound parameter", members=comp))
        else:
            res.append(bad("C04.R", key, f0.loc() if f0 else "",
                           "unbounded native recursion over script data: %s — a self-referencing (or very deep) table overflows the "
                           "native stack instead of producing an error" % " -> ".join(c.split(" as ")[-1] if c.startswith("<") else c for c in comp),
                           members=comp))
    if found == 0:
        res.append(ok("C04.R", "C04/R/none", "", "no recursive cycle through object contents"))
    return res


LOOKUPS = ("get", "get_mut", "remove", "get_with_hint", "remove_with_hint", "get_mut_with_hint")
PEEL = ("copied", "cloned", "map", "as_ref", "as_mut", "as_deref")
ASSUME = ("unwrap", "expect", "unwrap_unchecked")


def rule_k(F):
    from cao.facts import hir_walk, hir_callee
    from cao import hirutil as hu
    res = []
    lookups = 0
    for f in F.fns:
        if not f.hir or f.is_closure or f.raw.get("from_expansion") or "::tests::" in f.short or f.short.endswith("::tests"):
            continue
        assumed = set()
        for x in hir_walk(f.hir["body"]):
            if x.get("k") == "mcall" and x["name"] in ASSUME:
                r = hu.strip_all(x["recv"])
                while r is not None and r.get("k") == "mcall" and r["name"] in PEEL:
                    r = hu.strip_all(r["recv"])
                if r is not None:
                    assumed.add(id(r))
                    x["_assumes"] = r
        n = 0
        for x in hir_walk(f.hir["body"]):
            if x.get("k") != "mcall" or x["name"] not in LOOKUPS:
                continue
            names = hir_callee(x)
            cal = x.get("callee", {})
            targs = (cal.get("resolved_args") or cal.get("args") or [])
            if not any(("cao_lang_table::CaoLangTable::" in n_ or "hash_map::CaoHashMap::" in n_) for n_ in names):
                continue
            if any("hash_map::CaoHashMap::" in n_ for n_ in names) and not (targs and targs[0] == "value::Value"):
                continue   # compile-time maps keyed by strings
            lookups += 1
            key = "C04/K/%s/lookup-by-value-not-assumed%s" % (f.name, "" if n == 0 else "#%d" % n)
            n += 1
            if id(x) in assumed:
                res.append(bad("C04.K", key, f.loc(x["ln"]),
                               "%s unwraps the result of a lookup keyed by a script Value: a row whose key is NaN (not equal to itself) "
                               "or a table that was mutated after insertion (hashes by content) is stored but not found again, the unwrap "
                               "panics inside run" % f.short))
            else:
                res.append(ok("C04.K", key, f.loc(x["ln"]), "lookup result is handled as an Option"))
    if lookups < 3:
        from cao.facts import AnchorMissing
        raise AnchorMissing("lookups keyed by Value (found %d)" % lookups)
    return res


def rule_u(F):
    from cao.facts import DefUse, op_place, rvalue_operands
    res = []
    n = 0
    # the functions that count the `super.` components of an import: compiler functions whose text mentions the literal
    # "super" / "super." and that hand an integer (or something holding one) back - whatever they are called
    from cao.facts import hir_walk
    counters = set()
    for g in F.fns:
        if g.hir and not g.is_closure and g.path.startswith("compiler") and \
                any(x.get("k") == "lit" and isinstance(x["lit"].get("v"), str) and x["lit"]["v"].rstrip(".") == "super" for x in hir_walk(g.hir["body"])):
            ret = str((g.raw.get("sig") or {}).get("output", "")) if isinstance(g.raw.get("sig"), dict) else str(g.raw.get("sig", ""))
            if "usize" in ret or "u32" in ret or "Import" in ret or "(" in ret:
                counters.add(g.short)
    # a named constant holding the literal counts as well (`const SUPER_PREFIX: &str = "super."`)
    super_consts = set(g.short for g in F.fns if g.hir and "Const" in str(g.raw.get("def_kind", "")) and
                       any(x.get("k") == "lit" and isinstance(x["lit"].get("v"), str) and x["lit"]["v"].rstrip(".") == "super" for x in hir_walk(g.hir["body"])))
    for g in F.fns:
        if g.hir and not g.is_closure and g.path.startswith("compiler") and g.mir and \
                any(x.get("k") == "path" and short(str(x["path"]["res"].get("path", ""))) in super_consts for x in hir_walk(g.hir["body"])):
            counters.add(g.short)
    if not counters:
        from cao.facts import AnchorMissing
        raise AnchorMissing("the function that counts the `super.` components of an import (compiler module)")
    tainted_params = {}
    results = {}
    for _round in range(4):
        changed = False
        for f in F.fns:
            if not f.mir or f.short in counters or not f.path.startswith("compiler"):
                continue
            srcs = [t["dest"]["l"] for bi, t in mu.calls(f) if any(n_ in counters for n_ in callee_names(t["func"]))]
            srcs += sorted(tainted_params.get(f.short, ()))
            if not srcs:
                continue
            du = DefUse(f)

            def from_src(op, srcs=srcs, du=du):
                p = op_place(op)
                seen = set()
                work = [p["l"]] if p is not None else []
                while work:
                    l = work.pop()
                    if l in seen:
                        continue
                    seen.add(l)
                    if l in srcs:
                        return True
                    for d in du.defs.get(l, []):
                        if d[3].get("place", d[3].get("dest"))["p"]:
                            continue
                        if d[2] == "assign":
                            for o in rvalue_operands(d[3]["rv"]):
                                q = op_place(o)
                                if q is not None:
                                    work.append(q["l"])
                            if d[3]["rv"]["k"] in ("ref",):
                                work.append(d[3]["rv"]["place"]["l"])
                return False
            owner = (f.root or f.short).rsplit("::", 1)[-1]
            plain = []
            checked = 0
            for bi, b in enumerate(f.blocks):
                for st in b["stmts"]:
                    if st["k"] == "assign" and st["rv"]["k"] == "bin" and st["rv"]["op"] in ("Sub", "SubWithOverflow", "SubUnchecked") and from_src(st["rv"]["r"]):
                        plain.append(st.get("ln"))
                t = b["term"]
                if t["k"] != "call":
                    continue
                nm = callee_names(t["func"])
                if any(n_.rsplit("::", 1)[-1] in ("checked_sub", "saturating_sub") for n_ in nm) and len(t["args"]) > 1 and from_src(t["args"][1]):
                    checked += 1
                # the count handed on to another compiler function: its parameter carries it
                for n_ in nm:
                    g = F.fn(n_, required=False) if n_.startswith("compiler") else None
                    if g is not None and g.mir and g.short not in counters:
                        for i, a in enumerate(t["args"]):
                            if from_src(a) and (i + 1) not in tainted_params.setdefault(g.short, set()):
                                tainted_params[g.short].add(i + 1)
                                changed = True
            results[f.short] = (f, owner, plain, checked)
        if not changed:
            break
    for _k, (f, owner, plain, checked) in sorted(results.items()):
        n += 1
        key = "C04/U/%s/super-depth-subtracted-checked" % owner
        if plain:
            res.append(bad("C04.U", key, f.loc(plain[0]),
                           "%s subtracts the number of `super.` components of an import from a length with a plain `-`: an import with "
                           "more `super.` than the namespace is deep makes the compiler panic instead of returning an error" % owner))
        else:
            res.append(ok("C04.U", key, f.loc(), "super depth only enters checked/saturating subtractions (%d)" % checked))
    if n < 1:
        from cao.facts import AnchorMissing
        raise AnchorMissing("uses of compiler::super_depth")
    return res


INDEX_OK = {
    # (function, kind of indexing) -> why a panicking index is in range there
    ("read_str", "slice::index"): "bytecode/data slice at an operand the compiler wrote (C10.S: complete length-prefixed strings)",
    ("decode_value", "slice::index"): "bytecode slice at an operand the compiler wrote (C10.W: operand widths agree)",
    ("instr_set_var", "Vec::index_mut"): "global_vars was resized to id + 1 on the line before",
    ("register_upvalue", "Vec::index"): "index into the enclosing closure's upvalues, an operand the compiler took from add_upvalue (C10.U / C06.W)",
}


CONTAINER_OK = {
    # (last field of the indexed place, kind of indexing) -> why the index is in range wherever this is done
    ("upvalues", "Vec::index"): "index into the enclosing closure's upvalues, an operand the compiler took from add_upvalue (C10.U / C06.W)",
    ("bytecode", "slice::index"): "bytecode slice at an operand the compiler wrote (C10.W: operand widths agree)",
    ("data", "slice::index"): "data section at a handle the compiler wrote (C10.S: complete length-prefixed strings)",
}


def _indexed_container(f, t):
    """name of the field the indexed container was read from (through borrows, derefs and as_slice-like calls), or None"""
    from cao.facts import DefUse
    if t["k"] != "call" or not t["args"]:
        return None
    du = DefUse(f)
    l = op_local(t["args"][0])
    for _ in range(10):
        if l is None:
            return None
        d = du.sole_def(l)
        if d is None:
            return None
        if d[2] == "assign":
            rv = d[3]["rv"]
            pl = rv.get("place") or (op_place(rv["op"]) if rv.get("op") else None)
            if pl is None:
                return None
            names = [e["name"] for e in pl["p"] if e["k"] == "field"]
            if names:
                return names[-1]
            l = pl["l"]
        elif d[2] == "call" and d[3]["args"]:
            l = op_local(d[3]["args"][0])
        else:
            return None
    return None


def rule_i(F):
    """C04.I: instruction handlers do not index with run-time quantities. Inside vm::instr_execution::* and Vm::_run every
    panicking index (slice/Vec Index::index, MIR BoundsCheck) is listed in INDEX_OK with the reason its index is in range;
    anything else - in particular an index computed from the frame offset or the stack height, which depend on how many
    arguments a call site pushed - must be a checked `get` that turns a miss into an error value."""
    res = []
    n = 0
    for f in F.fns:
        if not f.mir:
            continue
        root = f.root or f.short
        if not (root.startswith("vm::instr_execution::") or root == "vm::Vm::_run"):
            continue
        fname = root.rsplit("::", 1)[-1]
        sites = []
        for bi, b in enumerate(f.blocks):
            t = b["term"]
            if t["k"] == "assert" and t["msg"] == "BoundsCheck":
                sites.append((t.get("ln") or 0, "element[..]", t))
            elif t["k"] == "call" and any(x.endswith("ops::Index::index") or x.endswith("ops::IndexMut::index_mut") for x in callee_names(t["func"])):
                nm = callee_names(t["func"])
                cont = "Vec" if any("std::vec::Vec" in x for x in nm) else ("slice" if any("slice::index" in x for x in nm) else "other")
                sites.append((t.get("ln") or 0, "%s::%s" % (cont, "index_mut" if any(x.endswith("index_mut") for x in nm) else "index"), t))
        cnt = {}
        for ln, what, t in sorted(sites, key=lambda x: x[0]):
            k = cnt.get(what, 0)
            cnt[what] = k + 1
            key = "C04/I/%s/%s%s" % (fname, what, "" if k == 0 else "#%d" % k)
            why = INDEX_OK.get((fname, what)) if k == 0 else None
            if why is None:
                # the same justification wherever the handler code lives: it is a fact about WHAT is indexed
                why = CONTAINER_OK.get((_indexed_container(f, t), what))
            n += 1
            if why:
                res.append(ok("C04.I", key, f.loc(ln), "in range: " + why))
            else:
                res.append(bad("C04.I", key, f.loc(ln), "%s indexes (%s) with a quantity that is only known at run time and is not in the table of "
                               "justified sites: a program whose stack is shorter than the compiler assumed (a call with fewer arguments than "
                               "the callee declares truncates the caller's locals) makes the VM panic instead of returning an error" % (fname, what)))
    if n < 4:
        raise AnchorMissing("panicking index sites in the instruction handlers (found %d)" % n)
    return res


def rule_c(F):
    """C04.C: the compiler's fixed-capacity tables (locals, upvalues: ArrayVec<_, 255>) are filled through the fallible
    try_push only. ArrayVec::push / insert / extend panic when the table is full, which a large but legal program reaches
    (255 captured locals plus one variable from further out): a compile error (TooManyLocals / TooManyUpvalues) is due."""
    res = []
    n = 0
    PANICKING = ("push", "insert", "extend", "extend_from_slice", "push_str")
    cnt = {}
    for f in F.fns:
        if not f.mir or not f.path.startswith("compiler"):
            continue
        for bi, t in mu.calls(f):
            nm = [x for x in callee_names(t["func"]) if x.startswith("arrayvec::")]
            if not nm:
                continue
            last = nm[0].rsplit("::", 1)[-1]
            if last not in PANICKING and not last.startswith("try_"):
                continue
            fname = (f.root or f.short).rsplit("::", 1)[-1]
            k = cnt.get(fname, 0)
            cnt[fname] = k + 1
            key = "C04/C/%s/fixed-capacity-insert%s-is-fallible" % (fname, "" if k == 0 else "#%d" % k)
            n += 1
            if last in PANICKING:
                res.append(bad("C04.C", key, f.loc(t.get("ln")), "%s fills a fixed-capacity table with %s, which panics when the table is full: a "
                               "program with one capture (or local) too many makes the compiler panic instead of returning a compile error" % (fname, nm[0])))
            else:
                res.append(ok("C04.C", key, f.loc(t.get("ln")), "%s: a full table is an Err" % nm[0]))
    if n < 2:
        raise AnchorMissing("insertions into the compiler's ArrayVec tables (found %d)" % n)
    return res


def rule_s(F):
    """In instruction handlers (vm::instr_execution::*, Vm::_run, Vm::binary_op): results of ValueStack::push /
    BoundedStack::push / Vm::stack_push are never unwrapped/expected (which would turn exhaustion into a panic)."""
    res = []
    PUSHES = ("collections::value_stack::ValueStack::push", "collections::bounded_stack::BoundedStack::push", "vm::Vm::stack_push")
    for f in F.fns:
        if not f.mir:
            continue
        root = f.root or f.short
        # every function of the interpreter (vm.rs and vm/instr_execution.rs), whatever the handlers are called
        if not (root.startswith("vm::instr_execution::") or root.startswith("vm::Vm::") or (root.startswith("vm::") and root.count("::") == 1)):
            continue
        from cao.facts import DefUse
        for bi, t in mu.calls(f):
            if not any(n in PUSHES for n in callee_names(t["func"])):
                continue
            dest = t["dest"]["l"]
            # does the result flow into unwrap/expect?
            bad_use = None
            frontier = {dest}
            for _ in range(6):
                nxt = set()
                for bj, t2 in mu.calls(f):
                    if any(op_local(a) in frontier for a in t2["args"]):
                        nm = callee_names(t2["func"])
                        if any(x.endswith("Result::unwrap") or x.endswith("Result::expect") for x in nm):
                            bad_use = t2
                        if any(x.rsplit("::", 1)[-1] in ("map_err", "branch", "map", "or_else") for x in nm):
                            nxt.add(t2["dest"]["l"])
                for b in f.blocks:
                    for st in b["stmts"]:
                        if st["k"] == "assign" and st["rv"]["k"] == "use" and op_local(st["rv"]["op"]) in frontier:
                            nxt.add(st["place"]["l"])
                frontier |= nxt
            arm = f.short.rsplit("::", 1)[-1]
            key = "C04/S/%s/push@%s" % (arm, t.get("ln"))
            # keys without line numbers: ordinal within function
            if bad_use is not None:
                res.append(("bad", f, t, bad_use))
            else:
                res.append(("ok", f, t, None))
    out = []
    counters = {}
    from rules.c02 import run_arm_of_block
    from rules.c10 import emitter_tables
    run_fn, arm_of = run_arm_of_block(F)
    emitted = set(v for v, _em in emitter_tables(F)[0] if v)
    line_arm = {}
    for bi, b in enumerate(run_fn.blocks):
        if b["term"]["k"] == "call" and bi in arm_of:
            line_arm[b["term"].get("ln")] = arm_of[bi]
    for status, f, t, bu in res:
        if f.short == run_fn.short and status == "bad":
            arm = line_arm.get(t.get("ln"))
            if arm is not None and arm not in emitted:
                out.append(note("C04.S", "C04/S/_run[%s]/never-emitted" % arm, f.loc(t.get("ln")),
                                "unwrap of a push in the arm of %s, which the compiler never emits (not reachable from compiled programs)" % arm))
                continue
        name = (f.root or f.short).rsplit("::", 1)[-1] + ("{closure}" if f.is_closure else "")
        n = counters.get(name, 0)
        counters[name] = n + 1
        key = "C04/S/%s/push#%d" % (name, n)
        if status == "ok":
            out.append(ok("C04.S", key, f.loc(t.get("ln")), "stack-full is propagated as an error"))
        else:
            out.append(bad("C04.S", key, f.loc(bu.get("ln")), "the result of a stack push is unwrapped: exhausting the stack panics instead of returning Stackoverflow/CallStackOverflow"))
    return out


def _c03_rule_b(F):
    from rules import c03 as _c03m
    return _c03m.rule_b(F)


def _c03_rule_d(F):
    from rules import c03 as _c03m
    return _c03m.rule_d(F)


RULES = [
    Rule("C04.X", shared(_c03_rule_b, "C03.B", "C04.X"), 3, "no program runs without consuming one budget: the counter is the Vm's, shared by re-entrant loops (shared with C03.B)"),
    Rule("C04.Y", shared(_c03_rule_d, "C03.D", "C04.Y"), 3, "every dispatch passes the budget test and decrement (shared with C03.D)"),
    Rule("C04.A", rule_a, 4, "script arithmetic cannot panic"),
    Rule("C04.B", rule_b, 1, "budget cannot underflow (shared with C03.Z)"),
    Rule("C04.G", rule_g, 3, "insertion paths keep a free slot (C12.G/C13.G): probes terminate"),
    Rule("C04.R", rule_r, 1, "recursion over script data is bounded"),
    Rule("C04.K", rule_k, 8, "lookups keyed by script values are not assumed to succeed"),
    Rule("C04.U", rule_u, 1, "counts read from program text are subtracted with a check"),
    Rule("C04.H", shared(_c14.rule_b, "C14.B", "C04.H"), 14, "height-raising stores are guarded (shared with C14.B)"),
    Rule("C04.I", rule_i, 4, "instruction handlers index only where the index is known to be in range"),
    Rule("C04.C", rule_c, 2, "the compiler's fixed-capacity tables are filled through try_push"),
    Rule("C04.S", rule_s, 20, "stack exhaustion is an error value in instruction handlers"),
]
