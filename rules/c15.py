"""C15 — Error locations identify the failing card and its call chain.

  C15.I  the compiler numbers the children of every card kind exactly as Card::get_child does (symbolic walk of
         process_card's push_subindex/pop_subindex bookkeeping vs. the C16.S reference shape).
  C15.P  the trace key handed to the error constructor of the interpreter loop is the position of the failing
         instruction's opcode (push_instruction keys the trace by opcode position). The constructor is found by what it
         does (ExecutionError::new over program.trace[key] + the call stack): a closure of the loop function, a function,
         or a thin wrapper forwarding its own parameter to one (class ErrorBuilders).
  C15.C  call frames record the CallFunction opcode position; the error trace walks frames innermost first.
  C15.K  compile errors raised inside Compiler carry the current card (Compiler::trace()).
  C15.G  a card's own instructions are emitted at the card's own index.
  C15.F  every active call frame contributes one trace entry (for loop or extend(filter_map(lookup)) over the frames).
  C15.T  every opcode byte written to program.bytecode is written by the tracing emitter (push_instruction), without an
         exemption for opcodes that "cannot fail": the budget test precedes dispatch, so Timeout can hit any instruction.
"""
from cao.facts import hir_walk, hir_callee, hir_strip, hir_local_id, pat_variants, short, block_exprs, AnchorMissing, pat_bindings, hir_children
from cao.rules import Rule, ok, bad, undecided, note
from cao import cardshape as cs
from cao import compwalk as cw
from cao import hirutil as hu
from rules.c16 import reference_shape, place_s, out_s

EXPLANATION = (
    "C15.I walks the HIR of every arm of Compiler::process_card in source order (closures passed to encode_if_then "
    "inlined, since they run on the same compiler state), keeping a symbolic stack of the sub-indices pushed on "
    "current_index, and records the symbolic index path at which each child place of the card's payload is compiled "
    "(process_card / compile_subexpr / enumerate loops). That map must equal the child shape that Card::get_child "
    "resolves (derived independently by the C16.S analysis): child k at path [k], list elements at [fixed+idx], every "
    "child at depth exactly 1, stack balanced. C15.P classifies, for each payload_to_error call site in Vm::_run, the "
    "expression passed as trace key: a local initialised from *instr_ptr before the opcode is consumed (or *instr_ptr "
    "itself before the increment) is the opcode position; *instr_ptr after the increment is the next instruction. "
    "C15.C/K are argument-wiring checks by resolved callee. C15.T follows every value converted from an Instruction to a "
    "byte (cast, transmute, into; through locals, parameters, return values, aliases of the vector) to the place it is "
    "written: only the function that also inserts the program.trace entry may write it to program.bytecode. All hold for every program because they are facts about "
    "the compiler's and interpreter's code. Not decided: completeness of the call chain for a particular run."
)
ASSUMPTIONS = [
    "Module::get_card resolves a trace through Card::get_child (checked by C16.W)",
    "push_instruction keys trace entries by opcode position (checked by C10.T)",
]


def path_s(p):
    out = []
    for x in p:
        if isinstance(x, tuple):
            if x[0] == "idx":
                out.append("i(%s)%s" % (place_s(x[1]), ("%+d" % x[2]) if x[2] else ""))
            elif x[0] == "len":
                out.append("len(%s)" % place_s(x[1]))
            else:
                out.append("?")
        else:
            out.append(str(x))
    return "[" + ",".join(out) + "]"


def rule_i(F):
    res = []
    fn = F.fn("compiler::Compiler::process_card")
    arms, _pre, _tail = cs.arms_of(fn)
    if arms is None:
        raise AnchorMissing("match on CardBody in process_card")
    acc = cs.Accessors(F)
    for arm in arms:
        for v in arm.variants:
            if v == "_":
                continue
            try:
                fixed, lst = reference_shape(acc, v)
            except cs.Undecided as e:
                res.append(undecided("C15.I", "C15/I/%s" % v, fn.loc(), "reference shape undecided: %s" % e))
                continue
            w = cw.Walk(F, fn, arm.env)
            w.walk(arm.body)
            ln = arm.body.get("ln")
            if w.stack:
                w.problems.append(("arm ends with sub-indices still pushed: %s" % path_s(w.stack), ln))
            if not fixed and lst is None:
                kids = [ev for ev in w.events if ev[0] in ("child", "list_elem")]
                if kids:
                    res.append(bad("C15.I", "C15/I/%s/leaf-compiles-children" % v, fn.loc(ln), "leaf kind compiles a child card"))
                else:
                    res.append(ok("C15.I", "C15/I/%s" % v, fn.loc(ln), "leaf: compiles no child"))
                continue
            probs = []
            unknown = [ev for ev in w.events if ev[0] == "unknown_subexpr"]
            if unknown or any(isinstance(x, tuple) and x[0] == "?" for ev in w.events for x in ev[2]):
                res.append(undecided("C15.I", "C15/I/%s" % v, fn.loc(ln), "index bookkeeping uses an unrecognised idiom"))
                continue
            nf = len(fixed)
            seen_fixed = {}
            for ev in w.events:
                if ev[0] == "child":
                    seen_fixed.setdefault(ev[1], []).append(ev[2])
            for k, child in enumerate(fixed):
                paths = seen_fixed.get(child, [])
                if not paths:
                    res.append(note("C15.I", "C15/I/%s/child%d-not-compiled" % (v, k), fn.loc(ln), "child %s is never compiled" % out_s(child)))
                    continue
                for p in paths:
                    if p != (k,):
                        probs.append("child %s (get_child index %d) is compiled at index path %s" % (out_s(child), k, path_s(p)))
            for child, paths in seen_fixed.items():
                if child not in fixed:
                    probs.append("place %s is compiled as a child at %s but get_child does not enumerate it" % (out_s(child), path_s(paths[0])))
            lists = [ev for ev in w.events if ev[0] == "list_elem"]
            if lst is not None:
                mine = [ev for ev in lists if ev[1] == lst]
                if not mine:
                    res.append(note("C15.I", "C15/I/%s/list-not-compiled" % v, fn.loc(ln), "list %s is never compiled" % place_s(lst)))
                for ev in mine:
                    want = (("idx", lst, nf),)
                    if ev[2] != want:
                        probs.append("elements of %s (get_child index %d+i) are compiled at index path %s" % (place_s(lst), nf, path_s(ev[2])))
            for ev in lists:
                if ev[1] != lst:
                    probs.append("list %s is compiled as children but get_child does not enumerate it" % place_s(ev[1]))
            for what, pln in w.problems:
                probs.append(what)
            if probs:
                res.append(bad("C15.I", "C15/I/%s" % v, fn.loc(ln), "; ".join(probs) + " — Module::get_card(trace) resolves to a different card or CardNotFound"))
            else:
                res.append(ok("C15.I", "C15/I/%s" % v, fn.loc(ln), "children compiled at the indices get_child resolves",
                              fixed=[out_s(o) for o in fixed], list=place_s(lst) if lst is not None else None))
    # process_function numbers top-level cards with a replace (pop+push) of the enumerate index
    pf = F.fn("compiler::Compiler::process_function")
    w = cw.Walk(F, pf, {})
    # bind the destructured `cards` parameter field as a list place
    for p in pf.hir["params"]:
        if p.get("k") == "struct":
            for f in p["fields"]:
                if f["pat"].get("k") == "bind":
                    w.env[f["pat"]["id"]] = (f["name"],)
        elif p.get("k") == "bind" and "FunctionIr" in (p.get("ty") or ""):
            w.env[p["id"]] = ()      # the function itself: `function.cards` is the place ('cards',)
    w.stack = ["top"]
    w.walk(pf.hir["body"])
    lists = [ev for ev in w.events if ev[0] == "list_elem"]
    if len(lists) == 1 and lists[0][1] == ("cards",) and lists[0][2] == (("idx", ("cards",), 0),) and not w.problems and len(w.stack) == 1:
        res.append(ok("C15.I", "C15/I/process_function/top-level", pf.loc(), "top-level card k compiled at [k] (replace idiom, balanced)"))
    else:
        res.append(bad("C15.I", "C15/I/process_function/top-level", pf.loc(),
                       "top-level cards are not numbered by their position in the function (events %s, problems %s)" % (
                           [(e[0], path_s(e[2])) for e in lists], [p[0] for p in w.problems])))
    # compile_subexpr: child i at [.., i]
    sf = F.fn("compiler::Compiler::compile_subexpr")
    w = cw.Walk(F, sf, {})
    for p in sf.hir["params"]:
        if p.get("k") == "bind" and p["name"] == "cards":
            w.env[p["id"]] = ("cards",)
    w.walk(sf.hir["body"])
    lists = [ev for ev in w.events if ev[0] == "list_elem"]
    if len(lists) == 1 and lists[0][2] == (("idx", ("cards",), 0),) and not w.problems and not w.stack:
        res.append(ok("C15.I", "C15/I/compile_subexpr", sf.loc(), "card i of the slice compiled under push_subindex(i), balanced"))
    else:
        res.append(bad("C15.I", "C15/I/compile_subexpr", sf.loc(), "compile_subexpr does not number card i with sub-index i"))
    return res


# ---------------------------------------------------------------------------------------------------
# C15.P
# ---------------------------------------------------------------------------------------------------

def find_block_with_increment(root, ip_id):
    """Return (block, index of the `*instr_ptr += k` statement) for the innermost block that directly contains it."""
    for x in hir_walk(root):
        bl = None
        if x.get("k") == "block":
            bl = x["block"]
        elif x.get("k") == "loop":
            bl = x["body"]
        if bl is None:
            continue
        for n, st in enumerate(bl["stmts"]):
            if st["k"] in ("semi", "expr"):
                e = hir_strip(st["e"])
                if e.get("k") == "assign_op" and e["op"] == "AddAssign":
                    l = hir_strip(e["l"])
                    if l.get("k") == "un" and l["op"] == "Deref" and hir_local_id(l["e"]) == ip_id:
                        return bl, n
    return None, None


def is_deref_of(e, lid):
    e = hu.strip_casts(e)
    return e is not None and e.get("k") == "un" and e["op"] == "Deref" and hir_local_id(e["e"]) == lid


# ---- the error constructor, found by what it does -------------------------------------------------------------------

def _constructs_error(body):
    return any("ExecutionError::new" in n for y in hir_walk(body) if y.get("k") == "call" for n in hir_callee(y))


def _is_trace_get(x):
    """`<..>.trace.get(..)`: a lookup in the instruction -> card table of the program"""
    return x.get("k") == "mcall" and x["name"] == "get" and (hu.field_chain(x["recv"]) or (None, []))[1][-1:] == ["trace"]


def _single_inits(body):
    """local id -> its only initialiser (let without later assignment) inside `body`"""
    inits = {}
    for x in hir_walk(body):
        bl = x["block"] if x.get("k") == "block" else x["body"] if x.get("k") == "loop" else None
        if bl is not None:
            for st in bl["stmts"]:
                if st["k"] == "let" and st["pat"].get("k") == "bind" and st.get("init") is not None:
                    inits.setdefault(st["pat"]["id"], []).append(st["init"])
        elif x.get("k") in ("assign", "assign_op"):
            lid = hir_local_id(hu.strip_all(x["l"]))
            if lid is not None:
                inits.setdefault(lid, []).append(None)
    return {k: v[0] for k, v in inits.items() if len(v) == 1 and v[0] is not None}


def _root_local(e, inits, depth=0):
    """the local a value-preserving expression (casts, borrows, single-assignment copies) stands for"""
    e = hu.strip_all(e)
    lid = hir_local_id(e) if e is not None else None
    if lid is not None and lid in inits and depth < 4:
        r = _root_local(inits[lid], inits, depth + 1)
        return r if r is not None else lid
    return lid


def _param_ids(params):
    return [p.get("id") if p.get("k") == "bind" else None for p in params]


class ErrorBuilders:
    """The code of the interpreter loop that turns a payload into a located ExecutionError, found by what it does:
    `direct` are the bodies (closure of the loop function, or a crate function) that call ExecutionError::new and look the
    key up in program.trace; `callables` maps everything the loop function can call to get such an error - the closure
    local, the function, or a thin wrapper (closure/function) that forwards its own parameter as the key - to the index of
    the argument that is the trace key."""

    def __init__(self, F, run):
        self.F = F
        self.run = run
        self.callables = {}      # ('local', hir id) | ('fn', short name) -> index of the key among the call's arguments
        self.direct = []         # (owner Fn, params, body)
        self.links = set()       # id(call) of forwarding calls inside wrappers
        self._fn_cache = {}
        closures = []
        for x in hir_walk(run.hir["body"]):
            bl = x["block"] if x.get("k") == "block" else x["body"] if x.get("k") == "loop" else None
            if bl is None:
                continue
            for st in bl["stmts"]:
                if st["k"] == "let" and st["pat"].get("k") == "bind" and st.get("init") is not None and hir_strip(st["init"]).get("k") == "closure":
                    closures.append((st["pat"]["id"], hir_strip(st["init"])))
        for _round in range(3):
            for lid, clo in closures:
                if ("local", lid) in self.callables:
                    continue
                k = self._key_of(run, clo["params"], clo["body"], 0)
                if k is not None:
                    self.callables[("local", lid)] = k
        # functions the loop function calls directly
        for x in hir_walk(run.hir["body"]):
            if x.get("k") in ("call", "mcall"):
                self.ident(x)

    def ident(self, x):
        """the builder a call expression invokes, or None"""
        if x.get("k") == "call":
            lid = hir_local_id(x["f"])
            if lid is not None:
                return ("local", lid) if ("local", lid) in self.callables else None
        if x.get("k") not in ("call", "mcall"):
            return None
        for n in hir_callee(x):
            if self._fn_key(n, 0) is not None:
                return ("fn", n)
        return None

    def key_arg(self, x):
        """the argument expression of call `x` (to a builder) that is the trace key"""
        idn = self.ident(x)
        if idn is None:
            return None
        k = self.callables[idn]
        if idn[0] == "fn" and x["k"] == "mcall":
            k -= 1          # the receiver is parameter 0
        return x["args"][k] if 0 <= k < len(x["args"]) else None

    def _fn_key(self, name, depth):
        if ("fn", name) in self.callables:
            return self.callables[("fn", name)]
        if name in self._fn_cache or depth > 2:
            return None
        self._fn_cache[name] = None
        g = self.F.fn(name, required=False)
        if g is None or not g.hir or g.is_closure or g is self.run or not g.short.startswith("vm::"):
            return None
        k = self._key_of(g, g.hir["params"], g.hir["body"], depth)
        if k is not None:
            self.callables[("fn", name)] = k
        return k

    def _key_of(self, owner, params, body, depth):
        pids = _param_ids(params)
        inits = _single_inits(body)
        if _constructs_error(body):
            keys = set()
            for y in hir_walk(body):
                if _is_trace_get(y) and y["args"]:
                    r = _root_local(y["args"][0], inits)
                    if r is not None and r in pids:
                        keys.add(pids.index(r))
            if len(keys) == 1:
                if not any(b is body for _o, _p, b in self.direct):
                    self.direct.append((owner, params, body))
                return keys.pop()
            return None
        # a wrapper: forwards one of its own parameters as the key of another builder
        found = None
        for y in hir_walk(body):
            if y.get("k") not in ("call", "mcall"):
                continue
            idn = None
            if y["k"] == "call" and hir_local_id(y["f"]) is not None:
                if ("local", hir_local_id(y["f"])) in self.callables:
                    idn = ("local", hir_local_id(y["f"]))
            else:
                for n in hir_callee(y):
                    if self._fn_key(n, depth + 1) is not None:
                        idn = ("fn", n)
                        break
            if idn is None:
                continue
            k = self.callables[idn]
            if idn[0] == "fn" and y["k"] == "mcall":
                k -= 1
            if not (0 <= k < len(y["args"])):
                continue
            r = _root_local(y["args"][k], inits)
            if r is not None and r in pids:
                if found is not None and found != pids.index(r):
                    return None
                found = pids.index(r)
                self.links.add(id(y))
        return found

    def bodies(self):
        """the constructing bodies plus the bodies of the vm functions they call (helpers of the constructor)"""
        out = []
        seen = set()
        for owner, _params, body in self.direct:
            out.append((owner, body))
            for y in hir_walk(body):
                if y.get("k") in ("call", "mcall"):
                    for n in hir_callee(y):
                        g = self.F.fn(n, required=False)
                        if g is not None and g.hir and not g.is_closure and g.short.startswith("vm::") and g.short not in seen and g is not self.run:
                            seen.add(g.short)
                            out.append((g, g.hir["body"]))
        return out


def error_builders(F, run):
    eb = getattr(run, "_c15_error_builders", None)
    if eb is None:
        eb = ErrorBuilders(F, run)
        run._c15_error_builders = eb
    return eb


class Interp:
    """The interpreter loop, found by what it does (HIR): `switch_fn` holds the largest `match` over Instruction variants
    in the vm module; `driver` is the function that fetches the opcode and advances the instruction pointer (`*ip += k`
    on its `&mut usize` parameter) - the same function, or (dispatch split off into a private method) its caller."""

    def __init__(self, F):
        best = None
        for g in F.fns:
            if not g.hir or g.is_closure or not g.short.startswith("vm::"):
                continue
            for x in hir_walk(g.hir["body"]):
                if x.get("k") == "match" and len(x["arms"]) > 20:
                    n = sum(1 for a in x["arms"] if any("Instruction::" in nm for nm, _s, _p in pat_variants(a["pat"])))
                    if n > 20 and (best is None or n > best[0]):
                        best = (n, g, x)
        if best is None:
            raise AnchorMissing("match over the Instruction variants (interpreter dispatch) in the vm module")
        _n, self.switch_fn, self.switch_match = best
        self.driver = None
        cands = [self.switch_fn] + [g for g in F.fns if g.hir and not g.is_closure and g.short.startswith("vm::") and g is not self.switch_fn
                                    and any(self.switch_fn.short in hir_callee(y) for y in hir_walk(g.hir["body"]) if y.get("k") in ("call", "mcall"))]
        for g in cands:
            ip = [p["id"] for p in g.hir["params"] if p.get("k") == "bind" and p.get("ty", "").replace(" ", "") == "&mutusize"]
            if not ip:
                continue
            bl, inc = find_block_with_increment(g.hir["body"], ip[0])
            if bl is not None:
                self.driver, self.ip_id, self.block, self.inc = g, ip[0], bl, inc
                break
        if self.driver is None:
            raise AnchorMissing("opcode fetch (`*instr_ptr += 1` on the `&mut usize` parameter) of the interpreter loop")
        # locals initialised from *instr_ptr before the increment, in the same block
        self.start_locals = {}
        for st in self.block["stmts"][:self.inc]:
            if st["k"] == "let" and st["pat"].get("k") == "bind" and st.get("init") is not None and is_deref_of(st["init"], self.ip_id):
                self.start_locals[st["pat"]["id"]] = st["pat"]["name"]
        # dispatch split off: parameters of switch_fn that receive such a local at every call from the driver
        self.dispatch_calls = []
        self.start_params = {}
        if self.switch_fn is not self.driver:
            self.dispatch_calls = [y for y in hir_walk(self.driver.hir["body"]) if y.get("k") in ("call", "mcall")
                                   and self.switch_fn.short in hir_callee(y)]
            params = self.switch_fn.hir["params"]
            for i, p in enumerate(params):
                if p.get("k") != "bind":
                    continue
                names = set()
                for y in self.dispatch_calls:
                    ops = ([y["recv"]] if y["k"] == "mcall" else []) + list(y["args"])
                    lid = hir_local_id(hu.strip_casts(ops[i])) if len(ops) == len(params) else None
                    names.add(self.start_locals.get(lid))
                if self.dispatch_calls and None not in names and len(names) == 1:
                    self.start_params[p["id"]] = p["name"]

    def arm_labels(self, fn):
        """id(node) -> 'Variant+Variant' for every node inside an arm of the dispatch match of `fn`"""
        labels = {}
        for x in hir_walk(fn.hir["body"]):
            if x.get("k") == "match" and len(x["arms"]) > 20:
                for a in x["arms"]:
                    names = [n.rsplit("::", 1)[-1] for n, _s, _p in pat_variants(a["pat"]) if "::" in n]
                    for y in hir_walk(a["body"]):
                        labels.setdefault(id(y), "+".join(names))
        return labels


def interp(F):
    it = F.__dict__.get("_c15_interp")
    if it is None:
        it = Interp(F)
        F.__dict__["_c15_interp"] = it
    return it


def _funnel_of(I, x, eb):
    """Is call `x` (of the error constructor, in the driver) the one place that wraps whatever payload the split-off
    dispatch function returned? True when one of its arguments is the value bound by the arm pattern of a `match` on the
    call of the dispatch function (`Err(err) => ..`), or the parameter of a closure given to `.map_err` on that call."""
    if I.switch_fn is I.driver:
        return False
    body = I.driver.hir["body"]
    anc = hu.control_ancestors(body).get(id(x), ())
    nodes = {id(y): y for y in hir_walk(body) if y.get("k") in ("match", "closure")}
    arg_roots = set(_root_local(a, {}) for a in x["args"])
    disp = set(id(y) for y in I.dispatch_calls)

    def is_dispatch(e):
        e = hu.strip_all(e)
        while e is not None and e.get("k") == "match" and str(e.get("source", "")).startswith("TryDesugar"):
            e = hu.strip_all(e["scrut"])
        if e is not None and e.get("k") == "call" and any(n.endswith("Try::branch") for n in hir_callee(e)) and e["args"]:
            e = hu.strip_all(e["args"][0])
        return e is not None and id(e) in disp
    for kind, nid in anc:
        node = nodes.get(nid)
        if node is None:
            continue
        if node["k"] == "match" and kind.startswith("arm") and is_dispatch(node["scrut"]):
            ids = set(i for i, _n in pat_bindings(node["arms"][int(kind[3:])]["pat"]))
            if ids & arg_roots:
                return True
        if node["k"] == "closure":
            ids = set(i for p_ in node["params"] for i, _n in pat_bindings(p_))
            if ids & arg_roots:
                for y in hir_walk(body):
                    if y.get("k") == "mcall" and y["name"] == "map_err" and is_dispatch(y["recv"]) and any(hir_strip(a) is node for a in y["args"]):
                        return True
    return False


def _error_exits(body):
    """the places of `body` where a failure leaves the function: `?` and `return <not Ok(..)>`"""
    out = []
    for y in hir_walk(body):
        if y.get("k") == "match" and str(y.get("source", "")).startswith("TryDesugar"):
            out.append(y)
        elif y.get("k") == "ret" and y.get("e") is not None:
            v = hir_strip(y["e"])
            if v.get("k") == "call" and any(n.endswith("from_residual") for n in hir_callee(v)):
                continue       # the return inside the `?` desugaring, counted with its match
            f = hir_strip(v["f"]) if v.get("k") == "call" else None
            is_ok = f is not None and f.get("k") == "path" and (short(f["path"]["res"].get("path", "")).endswith("::Ok") or
                                                               short(f["path"]["res"].get("ctor_of", "")).endswith("Result::Ok"))
            if not is_ok:
                out.append(y)
    return out


def rule_p(F):
    res = []
    I = interp(F)
    fn = I.driver
    ip_id = I.ip_id
    # the error constructor: whatever builds the ExecutionError from program.trace[key] (closure, function, or a thin
    # wrapper forwarding to it)
    eb = error_builders(F, fn)
    if not eb.callables or not eb.direct:
        raise AnchorMissing("error constructor (ExecutionError::new over program.trace[key]) reachable from Vm::_run")
    bl, inc = I.block, I.inc
    start_locals = I.start_locals
    # nodes by region
    before_ids, after_ids = set(), set()
    for n, st in enumerate(bl["stmts"]):
        es = []
        if st["k"] == "let":
            if st.get("init") is not None:
                es.append(st["init"])
        elif st["k"] in ("semi", "expr"):
            es.append(st["e"])
        for e in es:
            for y in hir_walk(e):
                (before_ids if n < inc else after_ids).add(id(y))
    if bl.get("expr") is not None:
        for y in hir_walk(bl["expr"]):
            after_ids.add(id(y))
    # arm labels for keys
    labels = I.arm_labels(fn)
    counters = {}
    funnels = []         # (site, result) of the sites that wrap the payload returned by the split-off dispatch function
    sites = [x for x in hir_walk(fn.hir["body"]) if x.get("k") in ("call", "mcall") and id(x) not in eb.links and eb.ident(x) is not None]
    in_wrapper = set()
    for x in hir_walk(fn.hir["body"]):
        if x.get("k") == "closure" and any(id(y) in eb.links for y in hir_walk(x["body"])):
            in_wrapper |= set(id(y) for y in hir_walk(x["body"]))
    for x in sites:
        arg = eb.key_arg(x)
        if arg is None or id(x) in in_wrapper:
            res.append(undecided("C15.P", "C15/P/%s/key-argument" % (labels.get(id(x)) or "constructor"), fn.loc(x.get("ln")),
                                 "cannot tell which expression this call of the error constructor uses as trace key"))
            continue
        lab = labels.get(id(x))
        funnel = _funnel_of(I, x, eb)
        if id(x) in before_ids:
            region = "before"
            lab = lab or "pre-dispatch"
        elif id(x) in after_ids:
            region = "after"
            lab = lab or ("dispatch" if funnel else "post-dispatch")
        else:
            region = "outside"
            lab = lab or "after-loop"
        n = counters.get(lab, 0)
        counters[lab] = n + 1
        key = "C15/P/%s/%d" % (lab, n)
        lid = hir_local_id(hu.strip_casts(arg))
        if lid in start_locals:
            res.append(ok("C15.P", key, fn.loc(x["ln"]), "trace key is `%s` = *instr_ptr read before the opcode is consumed" % start_locals[lid]))
        elif is_deref_of(arg, ip_id):
            if region == "before":
                res.append(ok("C15.P", key, fn.loc(x["ln"]), "trace key *instr_ptr read before the opcode is consumed"))
            elif region == "outside":
                res.append(note("C15.P", key, fn.loc(x["ln"]), "end-of-input: no instruction to name (exempt)"))
            else:
                res.append(bad("C15.P", key, fn.loc(x["ln"]),
                               "error of %s is located with *instr_ptr *after* the opcode (and operands) were consumed: trace[0] is the "
                               "entry of the following instruction, not of the failing card" % lab))
        else:
            res.append(undecided("C15.P", key, fn.loc(x["ln"]), "trace key expression not recognised"))
        if funnel:
            funnels.append((x, res.pop()))
    # dispatch split off into a function that returns bare payloads: the one wrapping site stands for every error exit
    # of that function; each exit is an instance, decided by the key the wrapper uses
    if funnels:
        g = I.switch_fn
        glabels = I.arm_labels(g)
        worst = sorted((r for _x, r in funnels), key=lambda r: {"violation": 0, "undecided": 1}.get(r["status"], 2))[0]
        wrap_ln = funnels[0][0].get("ln")
        for y in _error_exits(g.hir["body"]):
            lab = glabels.get(id(y)) or "dispatch"
            n = counters.get(lab, 0)
            counters[lab] = n + 1
            key = "C15/P/%s/%d" % (lab, n)
            if worst["status"] == "ok":
                res.append(ok("C15.P", key, g.loc(y.get("ln")), "the payload leaves %s here and is wrapped once by %s (line %s): %s"
                              % (g.name, fn.name, wrap_ln, worst["msg"])))
            elif worst["status"] == "violation":
                res.append(bad("C15.P", key, g.loc(y.get("ln")), "the payload leaves %s here and is wrapped by %s (line %s): %s"
                               % (g.name, fn.name, wrap_ln, worst["msg"].replace("error of dispatch", "error of %s" % lab))))
            else:
                res.append(undecided("C15.P", key, g.loc(y.get("ln")), worst["msg"]))
    elif I.switch_fn is not I.driver:
        res.append(undecided("C15.P", "C15/P/dispatch/wrap-site", fn.loc(), "the dispatch is split off into %s but the place where %s attaches "
                             "the location to the payload it returns was not recognised" % (I.switch_fn.name, fn.name)))
    # inside the constructor: the key is looked up in program.trace, frames walked innermost first
    for n, (owner, _params, body) in enumerate(eb.direct):
        nodes = [x for _g, b in eb.bodies() for x in hir_walk(b)] if len(eb.direct) == 1 else list(hir_walk(body))
        has_get = any(_is_trace_get(x) for x in nodes)
        has_back = any(x.get("k") == "mcall" and x["name"] == "iter_backwards" for x in nodes)
        uses_src = any(x.get("k") == "field" and x["name"] == "src_instr_ptr" for x in nodes)
        key = "C15/P/payload_to_error/shape" + ("" if n == 0 else "#%d" % n)
        if has_get and has_back and uses_src:
            res.append(ok("C15.P", key, owner.loc(body.get("ln")),
                          "looks up program.trace[key], then frames via iter_backwards() by src_instr_ptr"))
        else:
            res.append(bad("C15.P", key, owner.loc(body.get("ln")),
                           "payload_to_error must look up program.trace at the key and walk call frames innermost-first by src_instr_ptr "
                           "(trace lookup=%s iter_backwards=%s src_instr_ptr=%s)" % (has_get, has_back, uses_src)))
    return res


# ---------------------------------------------------------------------------------------------------
# C15.C
# ---------------------------------------------------------------------------------------------------

def rule_c(F):
    res = []
    I = interp(F)
    run = I.driver
    # 1. the interpreter passes a start local (or, with the dispatch split off, the parameter that receives it) as the call position
    calls = []
    for g, starts_of in ((I.driver, set(I.start_locals)),) + (((I.switch_fn, set(I.start_params)),) if I.switch_fn is not I.driver else ()):
        for x in hir_walk(g.hir["body"]):
            if x.get("k") == "call" and "vm::instr_execution::instr_call_function" in hir_callee(x):
                calls.append((g, starts_of, x))
    if not calls:
        raise AnchorMissing("call of instr_call_function in Vm::_run")
    icf = F.fn("vm::instr_execution::instr_call_function")
    pnames = [p.get("name") for p in icf.hir["params"]]
    for g, start_locals, x in calls:
        # which argument feeds push_call_frame's src_ptr? resolve below; here: find args that are start locals
        starts = [n for n, a in enumerate(x["args"]) if hir_local_id(hu.strip_casts(a)) in start_locals]
        res.append((ok if starts else bad)("C15.C", "C15/C/_run/passes-opcode-position", g.loc(x["ln"]),
                   "CallFunction passes the opcode position (argument %s)" % starts if starts else
                   "instr_call_function is not given the position of the CallFunction opcode"))
        start_arg = starts[0] if starts else None
    # 1b. a call that fails is not an active frame: no error exit of instr_call_function lies after push_call_frame succeeded
    icf0 = F.fn("vm::instr_execution::instr_call_function")
    cfg0 = icf0.cfg
    from cao import mirutil as mu
    from cao.facts import callee_names
    pushes = [(bi, t) for bi, t in mu.calls(icf0) if "vm::instr_execution::push_call_frame" in callee_names(t["func"])]
    key1b = "C15/C/instr_call_function/failed-call-is-not-a-frame"
    if not pushes:
        res.append(undecided("C15.C", key1b, icf0.loc(), "push_call_frame call not found in MIR"))
    else:
        errs = set()
        for bi, b in enumerate(icf0.blocks):
            t = b["term"]
            if t["k"] == "call" and any(x.endswith("from_residual") for x in callee_names(t["func"])) and t["dest"]["l"] == 0:
                errs.add(bi)
            for st in b["stmts"]:
                if st["k"] == "assign" and st["place"]["l"] == 0 and not st["place"]["p"] and mu.is_err_aggregate(st["rv"]):
                    errs.add(bi)
        late = set()
        for pb, pt in pushes:
            # the `?` on push_call_frame's own result is its failure, not a later one
            from rules.c16 import origin_call_block
            from cao.facts import DefUse, op_local
            du0 = DefUse(icf0)
            for e in errs:
                if e in cfg0.reachable_from(pt["target"]):
                    t = icf0.blocks[e]["term"]
                    own = False
                    if t["k"] == "call" and t["args"]:
                        a0 = op_local(t["args"][0])
                        own = a0 is not None and origin_call_block(icf0, du0, a0) == pb
                    if not own:
                        late.add(e)
        if late:
            res.append(bad("C15.C", key1b, icf0.loc(icf0.blocks[sorted(late)[0]]["term"].get("ln")),
                           "instr_call_function can fail after it has pushed the call frame (e.g. the label lookup): the failed call is then "
                           "also an active frame, the error trace lists the call card twice - trace[1..] is not the chain of active callers"))
        else:
            res.append(ok("C15.C", key1b, icf0.loc(), "no error exit after push_call_frame succeeded"))
    # 2. instr_call_function forwards that parameter as push_call_frame's src_ptr
    pcf = F.fn("vm::instr_execution::push_call_frame")
    pcf_params = [p.get("id") for p in pcf.hir["params"]]
    # which push_call_frame parameter ends up in CallFrame.src_instr_ptr?
    src_param = None
    for x in hir_walk(pcf.hir["body"]):
        if x.get("k") == "struct" and short(x["path"]["res"].get("path", "")).endswith("CallFrame"):
            for f in x["fields"]:
                if f["name"] == "src_instr_ptr":
                    lid = hir_local_id(hu.strip_casts(f["e"]))
                    if lid in pcf_params:
                        src_param = pcf_params.index(lid)
    if src_param is None:
        res.append(bad("C15.C", "C15/C/push_call_frame/src_instr_ptr", pcf.loc(), "CallFrame.src_instr_ptr is not set from a parameter of push_call_frame"))
    else:
        res.append(ok("C15.C", "C15/C/push_call_frame/src_instr_ptr", pcf.loc(), "CallFrame.src_instr_ptr = parameter #%d" % src_param))
        icf_params = [p.get("id") for p in icf.hir["params"]]
        fw = [x for x in hir_walk(icf.hir["body"]) if x.get("k") == "call" and "vm::instr_execution::push_call_frame" in hir_callee(x)]
        for x in fw:
            lid = hir_local_id(hu.strip_casts(x["args"][src_param]))
            good = lid in icf_params and start_arg is not None and icf_params.index(lid) == start_arg
            res.append((ok if good else bad)("C15.C", "C15/C/instr_call_function/forwards-opcode-position", icf.loc(x["ln"]),
                       "src_ptr forwarded to push_call_frame" if good else
                       "push_call_frame's src_ptr is not the opcode position received from _run"))
    return res


# ---------------------------------------------------------------------------------------------------
# C15.K
# ---------------------------------------------------------------------------------------------------

def rule_k(F):
    res = []
    n = 0
    for f in F.fns:
        if not f.hir or not f.short.startswith("compiler::Compiler::"):
            continue
        for x in hir_walk(f.hir["body"]):
            if x.get("k") == "call" and "compiler::compilation_error::CompilationError::with_loc" in hir_callee(x):
                loc = hir_strip(x["args"][1])
                good = loc.get("k") == "mcall" and "compiler::Compiler::trace" in hir_callee(loc)
                n += 1
                key = "C15/K/%s/with_loc" % f.name
                if good:
                    res.append(ok("C15.K", key, f.loc(x["ln"]), "location = self.trace()"))
                else:
                    res.append(bad("C15.K", key, f.loc(x["ln"]), "compile error built inside Compiler without the current card's trace"))
            if x.get("k") == "struct" and short(x["path"]["res"].get("path", "")).endswith("CompilationError"):
                res.append(bad("C15.K", "C15/K/%s/literal" % f.name, f.loc(x["ln"]), "CompilationError literal bypasses with_loc/self.trace()"))
    # push_instruction records self.trace() - built from the *current* namespace and index - for the instruction it emits
    pi = F.fn("compiler::Compiler::push_instruction")
    ins = _trace_inserts(pi)
    key = "C15/K/push_instruction/records-current-trace"
    if not ins:
        res.append(bad("C15.K", key, pi.loc(), "push_instruction does not record a trace entry"))
    else:
        for x in ins:
            v = hu.strip_all(x["args"][1])
            # peel clone()
            while v is not None and v.get("k") == "mcall" and v["name"] in ("clone", "to_owned"):
                v = hu.strip_all(v["recv"])
            # a local of push_instruction initialised once from self.trace() is evaluated at this emission as well
            lid = hir_local_id(v) if v is not None else None
            if lid is not None and len(hu.let_inits(pi).get(lid, [])) == 1:
                v = hu.strip_all(hu.let_inits(pi)[lid][0])
                while v is not None and v.get("k") == "mcall" and v["name"] in ("clone", "to_owned"):
                    v = hu.strip_all(v["recv"])
            fresh = v is not None and v.get("k") == "mcall" and "compiler::Compiler::trace" in hir_callee(v)
            if fresh:
                res.append(ok("C15.K", key, pi.loc(x["ln"]), "the entry is self.trace() evaluated at the emission"))
            else:
                # a cached trace: every refresh must be keyed on namespace AND index
                conds = [y for y in hir_walk(pi.hir["body"]) if y.get("k") == "if" and any(
                    z.get("k") == "mcall" and "compiler::Compiler::trace" in hir_callee(z) for z in hir_walk(y["then"]))]
                fields = set()
                for c in conds:
                    fields |= set(z["name"] for z in hir_walk(c["cond"]) if z.get("k") == "field")
                if conds and {"current_index"} <= fields and ({"current_namespace", "namespace"} & fields):
                    res.append(ok("C15.K", key, pi.loc(x["ln"]), "cached trace, refreshed when the namespace or the index changes"))
                else:
                    res.append(bad("C15.K", key, pi.loc(x["ln"]),
                                   "push_instruction records a cached trace that is refreshed on a change of the card index only (compared: %s): "
                                   "a card index is relative to its module, so the first instruction of a function in another module with an "
                                   "equal index inherits the previous function's namespace - the trace names the wrong module" % sorted(fields)))
    # Compiler::trace uses current_namespace and current_index
    t = F.fn("compiler::Compiler::trace")
    fields = set(x["name"] for x in hir_walk(t.hir["body"]) if x.get("k") == "field")
    if {"current_namespace", "current_index"} <= fields:
        res.append(ok("C15.K", "C15/K/trace/fields", t.loc(), "trace() = (current_namespace, current_index)"))
    else:
        res.append(bad("C15.K", "C15/K/trace/fields", t.loc(), "Compiler::trace must report current_namespace and current_index"))
    return res


# ---------------------------------------------------------------------------------------------------
# C15.G  a card's own instructions are recorded under the card's own index
# ---------------------------------------------------------------------------------------------------

def rule_g(F):
    """In every arm of process_card, everything the arm emits itself (push_instruction, encode_if_then's jump, local
    variable reads/writes, add_local and its errors, scope_end's pops ...) happens while the sub-index stack is at its
    entry depth; a sub-index is pushed only around the compilation of a child. Otherwise the trace table maps the card's
    own instructions (and compile errors) to one of its children."""
    res = []
    fn = F.fn("compiler::Compiler::process_card")
    arms, _pre, _tail = cs.arms_of(fn)
    if arms is None:
        raise AnchorMissing("match on CardBody in process_card")
    for arm in arms:
        names = [v for v in arm.variants if v != "_"]
        if not names:
            continue
        w = cw.Walk(F, fn, arm.env)
        w.walk(arm.body)
        emits = [ev for ev in w.events if ev[0] == "emit"]
        if not emits:
            continue
        off = [ev for ev in emits if ev[2]]
        key = "C15/G/%s/own-instructions-at-own-index" % "+".join(names)
        if off:
            ev = off[0]
            res.append(bad("C15.G", key, fn.loc(ev[3]),
                           "the %s arm calls %s while a child sub-index %s is pushed: the instructions (or the compile error) it produces are "
                           "recorded under the child's index, so a runtime error raised there (stack exhaustion, timeout) or the compile "
                           "error is located at the child instead of this card (%d such call(s))"
                           % ("/".join(names), short(ev[1]).rsplit("::", 1)[-1], path_s(ev[2]), len(off))))
        else:
            res.append(ok("C15.G", key, fn.loc(arm.body.get("ln")), "%d emitting call(s), all at the card's own index" % len(emits)))
    return res


# ---------------------------------------------------------------------------------------------------
# C15.F  every active call frame contributes one trace entry
# ---------------------------------------------------------------------------------------------------

_LOSSY_ADAPTORS = ("filter", "skip", "skip_while", "take", "take_while", "step_by", "rev", "chain", "zip", "last", "nth", "find",
                   "find_map", "max", "min", "max_by_key", "min_by_key", "next", "next_back", "dedup", "cycle", "scan", "map_while")


def _peel_option_copy(e):
    """`X.cloned()`, `X.copied()`, `X.map(Clone::clone)`-like wrappers keep Some/None: return X"""
    e = hu.strip_casts(e)
    while e is not None and e.get("k") == "mcall" and e["name"] in ("cloned", "copied") and not e["args"]:
        e = hu.strip_casts(e["recv"])
    return e


def _is_frame_lookup(e, elem_ids):
    """`<..>.trace.get(&<frame>.src_instr_ptr)` (optionally cloned/copied), <frame> one of the bindings `elem_ids`"""
    e = _peel_option_copy(e)
    if e is None or not _is_trace_get(e) or not e["args"]:
        return False
    a = hu.strip_all(e["args"][0])
    return (a is not None and a.get("k") == "field" and a["name"] == "src_instr_ptr"
            and hir_local_id(hu.strip_all(a["e"])) in elem_ids)


def _judge_loop_body(body, elem_ids, looked_up):
    """problems of a `for` body over the call frames (`looked_up`: the iterator already yields the looked-up entries)"""
    jumps = [y for y in hir_walk(body) if y.get("k") in ("continue", "break", "ret")]
    pushes = [y for y in hir_walk(body) if y.get("k") == "mcall" and y["name"] == "push" and "Trace" in (hir_strip(y["recv"]).get("ty") or "") + (y["recv"].get("ty_adj") or "")]
    if not pushes:
        return None
    anc = hu.control_ancestors(body)
    probs = []
    if jumps:
        probs.append("the loop body contains `%s` (line %s): frames can be skipped" % (jumps[0]["k"], jumps[0].get("ln")))
    ifs = {id(y): y for y in hir_walk(body) if y.get("k") in ("if", "match")}
    for p in pushes:
        for kind, nid in anc.get(id(p), ()):
            node = ifs.get(nid)
            if node is None:
                probs.append("push under a %s" % kind)
                continue
            cond = hir_strip(node["cond"]) if node.get("k") == "if" else hir_strip(node["scrut"])
            init = cond.get("init") if cond.get("k") == "let" else cond
            # allowed: <..>.trace.get(&<elem>.src_instr_ptr) being Some
            if looked_up or init is None or not _is_frame_lookup(init, elem_ids):
                probs.append("a trace entry is only pushed under a condition other than `program.trace.get(&frame.src_instr_ptr)` "
                             "being Some (line %s)" % node.get("ln"))
    return probs


def _frame_walks(body):
    """Every iteration over the call frames in `body`: (source node, [adaptor mcalls, innermost first], consumer kind,
    consumer node). consumer kind: 'for' (a for loop over the chain), 'arg' (the chain is an argument of a call), None."""
    parent = {}
    for x in hir_walk(body):
        for c in hir_children(x):
            parent[id(c)] = x
    out = []
    for y in hir_walk(body):
        if not (y.get("k") == "mcall" and y["name"] in ("iter_backwards", "iter") and "CallFrame" in (y.get("ty") or "")):
            continue
        cur, chain, kind, cons = y, [], None, None
        while True:
            p = parent.get(id(cur))
            while p is not None and (p.get("k") in ("drop_temps", "use", "type", "addr_of") or
                                     (p.get("k") == "block" and not p["block"]["stmts"] and p["block"].get("expr") is cur)):
                cur, p = p, parent.get(id(p))
            if p is None:
                break
            if p.get("k") == "mcall" and p["recv"] is cur:
                chain.append(p)
                cur = p
                continue
            if p.get("k") == "call" and any(a is cur for a in p["args"]) and any(n.endswith("into_iter") for n in hir_callee(p)):
                q = parent.get(id(p))
                if q is not None and q.get("k") == "match" and str(q.get("source", "")).startswith("ForLoopDesugar"):
                    kind, cons = "for", q
                    break
                cur = p
                continue
            if p.get("k") in ("mcall", "call") and any(a is cur for a in p["args"]):
                kind, cons = "arg", p
            break
        out.append((y, chain, kind, cons))
    return out


def rule_f(F):
    """In the error constructor of the interpreter loop (whatever walks the call stack to build the trace): every frame
    yields one trace entry, conditional only on the lookup of that frame's call position in program.trace succeeding.
    Accepted forms: a `for` over the frames whose body pushes under `if let Some(..) = program.trace.get(&frame.src_instr_ptr)`
    only (no `continue`/`break`/`return`, no other condition), or `trace.extend(frames.filter_map(|f| program.trace.get(
    &f.src_instr_ptr).cloned()))` (also flat_map, map(..).flatten()); an adaptor that drops or reorders frames (filter,
    skip, take, step_by, rev, ..) is a violation."""
    res = []
    run = interp(F).driver
    eb = error_builders(F, run)
    walks = []
    for owner, body in (eb.bodies() if eb.direct else [(run, run.hir["body"])]):
        for w in _frame_walks(body):
            walks.append((owner, w))
    if not walks:
        raise AnchorMissing("loop over the call stack in the error constructor of Vm::_run")
    for n, (owner, (src, chain, kind, cons)) in enumerate(walks):
        key = "C15/F/_run/one-trace-entry-per-frame%s" % ("" if n == 0 else "#%d" % n)
        loc = owner.loc((cons or src).get("ln"))
        skipped = "not every active call frame contributes its call card to the error trace: %s; trace[1..] is no longer the " \
                  "chain of call cards (e.g. direct recursion through one call card has equal neighbouring frames)"
        # the adaptor chain between the frames and their consumer
        state, probs, unknown = "frames", [], None
        for a in chain:
            nm = a["name"]
            clo = hir_strip(a["args"][0]) if a["args"] else None
            if nm in ("into_iter", "by_ref"):
                continue
            if nm in _LOSSY_ADAPTORS:
                probs.append("the frames pass through `.%s(..)` (line %s): frames can be skipped or reordered" % (nm, a.get("ln")))
                continue
            if nm in ("filter_map", "flat_map", "map") and state == "frames" and clo is not None and clo.get("k") == "closure":
                ids = [i for p_ in clo["params"] for i, _n in pat_bindings(p_)]
                if _is_frame_lookup(clo["body"], ids):
                    state = "entries" if nm != "map" else "options"
                elif any(z.get("k") in ("if", "match", "ret") for z in hir_walk(clo["body"])):
                    probs.append("a trace entry is only produced under a condition other than `program.trace.get(&frame.src_instr_ptr)` "
                                 "being Some (line %s)" % a.get("ln"))
                else:
                    unknown = "closure of .%s(..) is not the plain lookup of the frame's call position" % nm
                continue
            if nm == "flatten" and state == "options":
                state = "entries"
                continue
            if nm in ("cloned", "copied") and state in ("entries", "options"):
                continue
            unknown = "iterator adaptor .%s(..) not recognised" % nm
        if probs:
            res.append(bad("C15.F", key, loc, skipped % "; ".join(probs)))
            continue
        if unknown:
            res.append(undecided("C15.F", key, loc, unknown))
            continue
        if kind == "for":
            # loop body = the Some(..) arm of the inner match
            body, elem_ids = None, []
            for y in hir_walk(cons):
                if y is not cons and y.get("k") == "match" and str(y.get("source", "")).startswith("ForLoopDesugar"):
                    for a in y["arms"]:
                        if a["body"].get("k") != "break":
                            body = a["body"]
                            elem_ids = [i for i, _n in pat_bindings(a["pat"])]
                    break
            if body is None or state == "options":
                res.append(undecided("C15.F", key, loc, "loop body not found"))
                continue
            probs = _judge_loop_body(body, elem_ids, state == "entries")
            if probs is None:
                res.append(bad("C15.F", key, loc, "the loop over the call stack does not push trace entries"))
            elif probs:
                res.append(bad("C15.F", key, loc, skipped % "; ".join(probs)))
            else:
                res.append(ok("C15.F", key, loc, "each frame's call position is looked up and pushed, no frame is skipped"))
        elif kind == "arg" and cons.get("k") == "mcall" and cons["name"] == "extend" and state == "entries" and \
                "Trace" in (hir_strip(cons["recv"]).get("ty") or "") + (cons["recv"].get("ty_adj") or ""):
            under = hu.control_ancestors(eb_body_of(eb, owner, cons)).get(id(cons), ())
            if under:
                res.append(bad("C15.F", key, loc, skipped % ("the frames are only appended under a %s" % under[0][0])))
            else:
                res.append(ok("C15.F", key, loc, "the trace is extended with the looked-up call position of every frame, in order"))
        else:
            res.append(undecided("C15.F", key, loc, "what consumes the iteration over the call frames is not recognised"))
    return res


def eb_body_of(eb, owner, node):
    for g, b in eb.bodies():
        if g is owner and any(x is node for x in hir_walk(b)):
            return b
    return owner.hir["body"]


# ---------------------------------------------------------------------------------------------------
# C15.T  every emitted opcode has a trace entry
# ---------------------------------------------------------------------------------------------------

INSTR_TY = "instruction::Instruction"
_VEC_WRITERS = ("push", "insert", "extend", "extend_from_slice", "resize", "append", "extend_from_within", "splice", "fill",
                "copy_from_slice", "push_within_capacity", "try_push", "push_unchecked")
_PTR_WRITERS = ("write", "write_unaligned", "write_volatile", "write_bytes", "copy_nonoverlapping", "copy", "replace")
_COMPARE = ("Eq", "Ne", "Lt", "Le", "Gt", "Ge")
_TRANSPARENT_KINDS = ("drop_temps", "use", "type", "cast", "array", "tup", "addr_of", "repeat", "un", "index", "field")


def _is_instr_ty(t):
    return (t or "").replace("&mut ", "").replace("&", "").strip().endswith(INSTR_TY)


def _parents(body):
    """id(node) -> parent node; the initialiser of `let PAT = init` has the pseudo parent {'k': '#let', 'pat': PAT}"""
    par = {}
    for x in hir_walk(body):
        bl = x["block"] if x.get("k") == "block" else x["body"] if x.get("k") == "loop" else None
        if bl is not None:
            for st in bl["stmts"]:
                if st["k"] == "let" and st.get("init") is not None:
                    par[id(st["init"])] = {"k": "#let", "pat": st["pat"], "ln": st["init"].get("ln"), "owner": x}
        for c in hir_children(x):
            par.setdefault(id(c), x)
    return par


def _fn_parents(g):
    p = getattr(g, "_c15_parents", None)
    if p is None:
        p = _parents(g.hir["body"])
        g._c15_parents = p
    return p


def _opcode_conversions(g):
    """expressions of type u8 made from a value of type Instruction (`X as u8`, transmute, into/from, a method of the enum)"""
    out = []
    for x in hir_walk(g.hir["body"]):
        k = x.get("k")
        if k == "cast" and x.get("ty") == "u8" and _is_instr_ty(hir_strip(x["e"]).get("ty")):
            out.append(x)
        elif k in ("call", "mcall") and x.get("ty") == "u8":
            ops = ([x["recv"]] if k == "mcall" else []) + list(x["args"])
            if any(_is_instr_ty(hir_strip(a).get("ty")) for a in ops):
                out.append(x)
        if k in ("call", "mcall"):
            # the enum value itself handed to a generic byte writer (write_to_vec(Instruction::X, &mut bytes))
            ops = ([x["recv"]] if k == "mcall" else []) + list(x["args"])
            if any("Vec<u8>" in ((hir_strip(a).get("ty") or "") + (a.get("ty_adj") or "")) for a in ops):
                out.extend(a for a in ops if _is_instr_ty(hir_strip(a).get("ty")) and not (hir_strip(a).get("ty") or "").startswith("&"))
    return out


def _bytecode_target(F, g, e, depth=0):
    """Is `e` (receiver / &mut argument / pointer) the program's bytecode vector? True / False (another named place) / None"""
    e = hu.strip_all(e)
    if e is None or depth > 4:
        return None
    if e.get("k") == "mcall" and e["name"] in ("as_mut_ptr", "as_mut_slice", "as_mut", "add", "offset", "wrapping_add", "cast",
                                               "borrow_mut", "deref_mut", "as_mut_ptr_range", "spare_capacity_mut", "by_ref"):
        return _bytecode_target(F, g, e["recv"], depth + 1)
    if e.get("k") == "index":
        return _bytecode_target(F, g, e["e"], depth + 1)
    fc = hu.field_chain(e)
    if fc is not None and fc[1]:
        return fc[1][-1] == "bytecode"
    lid = hir_local_id(e)
    if lid is not None:
        inits = hu.let_inits(g).get(lid, [])
        if len(inits) == 1:
            return _bytecode_target(F, g, inits[0], depth + 1)
        pids = _param_ids(g.hir["params"])
        if lid in pids and depth < 2:
            # a parameter: what do the callers pass?
            verdicts = set()
            for h, call in _call_sites(F, g):
                args = ([call["recv"]] if call["k"] == "mcall" else []) + list(call["args"])
                i = pids.index(lid)
                if call["k"] == "mcall" and len(args) != len(pids):
                    return None
                verdicts.add(_bytecode_target(F, h, args[i], depth + 2) if i < len(args) else None)
            if verdicts == {True}:
                return True
            if verdicts == {False}:
                return False
    return None


def _call_sites(F, g):
    idx = getattr(F, "_c15_call_sites", None)
    if idx is None:
        idx = {}
        for h in F.fns:
            if not h.hir or h.is_closure:
                continue
            for x in hir_walk(h.hir["body"]):
                if x.get("k") in ("call", "mcall"):
                    for n in hir_callee(x):
                        idx.setdefault(n, []).append((h, x))
        F._c15_call_sites = idx
    return idx.get(g.short, [])


def _byte_flow(F, g, node, depth=0, seen=None):
    """Where does the value of `node` (an opcode byte) end up? list of ('write', fn, ln, how) | ('unknown', fn, ln, why);
    an empty list = it is only compared / inspected."""
    seen = set() if seen is None else seen
    if id(node) in seen:
        return []
    seen.add(id(node))
    if depth > 3:
        return [("unknown", g, node.get("ln"), "value flow too deep to follow")]
    par = _fn_parents(g)
    cur = node
    while True:
        p = par.get(id(cur))
        if p is None:
            # value of the function body: returned to the callers
            sites = _call_sites(F, g)
            if not sites:
                return [("unknown", g, cur.get("ln"), "the byte is returned by %s, no caller found" % g.name)]
            out = []
            for h, call in sites:
                out += _byte_flow(F, h, call, depth + 1, seen)
            return out
        k = p.get("k")
        if k == "index" and cur is p.get("idx"):
            return []          # used as an index: inspected, not stored
        if k in _TRANSPARENT_KINDS or (k == "block" and p["block"].get("expr") is cur):
            cur = p
            continue
        if k in ("if", "match") and cur is not p.get("cond") and cur is not p.get("scrut"):
            cur = p            # value of a branch = value of the if/match
            continue
        if k in ("if", "match") or (k == "bin" and p["op"] in _COMPARE) or k == "block":
            return []          # inspected / discarded
        if k == "ret":
            sites = _call_sites(F, g)
            out = []
            for h, call in sites:
                out += _byte_flow(F, h, call, depth + 1, seen)
            return out or [("unknown", g, cur.get("ln"), "the byte is returned by %s, no caller found" % g.name)]
        if k == "#let" or (k == "assign" and cur is p["r"] and hir_local_id(p["l"]) is not None):
            if k == "#let":
                ids = [i for i, _n in pat_bindings(p["pat"])]
            else:
                ids = [hir_local_id(p["l"])]
            out = []
            for y in hir_walk(g.hir["body"]):
                if y.get("k") == "path" and y["path"]["res"]["k"] == "local" and y["path"]["res"]["id"] in ids:
                    q = par.get(id(y))
                    if q is not None and q.get("k") == "assign" and q["l"] is y:
                        continue
                    out += _byte_flow(F, g, y, depth + 1, seen)
            return out
        if k in ("assign", "assign_op") and cur is p["r"]:
            t = _bytecode_target(F, g, p["l"])
            if t is True:
                return [("write", g, p.get("ln"), "assigned into the bytecode")]
            if t is False:
                return []
            return [("unknown", g, p.get("ln"), "assigned to a place that is not recognised")]
        if k == "call" and hir_strip(p["f"]).get("k") == "path" and hir_strip(p["f"])["path"]["res"].get("ctor_of") and cur is not p["f"]:
            cur = p            # Some(byte), Wrapper(byte): the aggregate contains the byte
            continue
        if k in ("call", "mcall"):
            names = hir_callee(p)
            args = list(p["args"])
            if k == "mcall" and p["recv"] is cur:
                if p["name"] in ("clone", "into", "to_le_bytes", "to_ne_bytes", "to_be_bytes", "to_owned", "to_vec", "iter", "into_iter",
                                 "copied", "cloned", "as_slice", "as_ref", "borrow"):
                    cur = p
                    continue
                return [] if p["name"] in ("eq", "ne", "cmp", "partial_cmp", "fmt", "hash") else \
                    [("unknown", g, p.get("ln"), "method .%s() on the opcode byte" % p["name"])]
            last = (names[0] if names else p.get("name", "?")).rsplit("::", 1)[-1]
            # a write into a byte vector / through a pointer
            if k == "mcall" and last in _VEC_WRITERS:
                t = _bytecode_target(F, g, p["recv"])
            elif last in _PTR_WRITERS and args and cur is not args[0] and "*mut" in (hir_strip(args[0]).get("ty") or ""):
                t = _bytecode_target(F, g, args[0])
            else:
                t = "no-write"
                vec_args = [a for a in args if a is not cur and "Vec<u8>" in ((hir_strip(a).get("ty") or "") + (a.get("ty_adj") or ""))]
                if vec_args:      # write_to_vec(value, &mut vec) and the like
                    ts = set(_bytecode_target(F, g, a) for a in vec_args)
                    t = True if True in ts else (None if None in ts else False)
            if t is True:
                return [("write", g, p.get("ln"), "`%s`" % last)]
            if t is False:
                return []
            if t is None:
                return [("unknown", g, p.get("ln"), "written by `%s` to a byte vector that is not recognised" % last)]
            # passed to a function of the crate: follow the parameter
            for n in names:
                h = F.fn(n, required=False)
                if h is None or not h.hir or h.is_closure:
                    continue
                params = list(h.hir["params"])
                ops = ([p["recv"]] if k == "mcall" else []) + args
                if len(params) != len(ops):
                    continue
                i = [n_ for n_, a in enumerate(ops) if a is cur]
                if not i or params[i[0]].get("k") != "bind":
                    continue
                pid = params[i[0]]["id"]
                out = []
                for y in hir_walk(h.hir["body"]):
                    if y.get("k") == "path" and y["path"]["res"]["k"] == "local" and y["path"]["res"]["id"] == pid:
                        out += _byte_flow(F, h, y, depth + 1, seen)
                return out
            if any(n.startswith(("core::fmt", "std::fmt", "core::panicking", "std::panicking", "core::cmp", "std::cmp")) for n in names):
                return []
            return [("unknown", g, p.get("ln"), "passed to `%s`" % (names[0] if names else p.get("name", "?")))]
        if k == "struct" or k == "closure":
            return [("unknown", g, p.get("ln"), "stored in a %s" % k)]
        return [("unknown", g, p.get("ln"), "used in a `%s` expression" % k)]


def _place_last_field(g, e, depth=0):
    """last field name of the place an expression denotes, through borrows and single-assignment aliases
    (`let t = &mut self.program.trace; t.insert(..)` -> 'trace')"""
    fc = hu.field_chain(e)
    if fc is not None and fc[1]:
        return fc[1][-1]
    lid = hir_local_id(hu.strip_all(e))
    if lid is not None and depth < 3:
        inits = hu.let_inits(g).get(lid, [])
        if len(inits) == 1:
            return _place_last_field(g, inits[0], depth + 1)
    return None


def _trace_inserts(g):
    return [x for x in hir_walk(g.hir["body"]) if x.get("k") == "mcall" and x["name"] == "insert" and
            _place_last_field(g, x["recv"]) == "trace"]


def tracing_emitters(F):
    """Compiler functions that append the opcode they are given to program.bytecode *and* record a program.trace entry
    for it (today: push_instruction) - found by what they do"""
    out = []
    for g in F.fns:
        if not g.hir or g.is_closure or not g.short.startswith("compiler::"):
            continue
        ins = _trace_inserts(g)
        if not ins:
            continue
        pids = _param_ids(g.hir["params"])
        convs = [c for c in _opcode_conversions(g)]
        mine = []
        for c in convs:
            src = c["e"] if c["k"] == "cast" else ([c["recv"]] if c["k"] == "mcall" else c["args"])[0]
            if hir_local_id(hu.strip_all(src)) in pids:
                fl = _byte_flow(F, g, c)
                if fl and all(f_[0] == "write" and f_[1] is g for f_ in fl):
                    mine.append(c)
        if mine:
            out.append((g, ins, mine))
    return out


def rule_t(F):
    """C15.T: a Timeout is raised before the opcode is dispatched, so *every* instruction of the program can be the failing
    one and needs its own entry in program.trace. The only code that records an entry is the tracing emitter
    (push_instruction: trace.insert(position, self.trace()) + push of the opcode). Hence every byte made from an
    `Instruction` value (`X as u8`, transmute, into) that is written to program.bytecode - in any function or helper,
    directly, through a local, a parameter or a return value - must be written by the tracing emitter; there is no
    exemption for opcodes whose interpreter arm cannot fail. Operand bytes (write_to_vec of non-opcode data, jump patches)
    are not opcodes."""
    res = []
    ems = tracing_emitters(F)
    if not ems:
        raise AnchorMissing("function that pushes an opcode to program.bytecode and records its program.trace entry")
    em_fns = set()
    for g, ins, convs in ems:
        em_fns.add(g.short)
        anc = hu.control_ancestors(g.hir["body"])
        cond = [x for x in ins if anc.get(id(x))] + [c for c in convs if anc.get(id(c))]
        key = "C15/T/%s/records-a-trace-entry-for-the-opcode-it-pushes" % g.name
        if cond:
            res.append(undecided("C15.T", key, g.loc(cond[0].get("ln")), "the trace entry or the opcode push is conditional"))
        else:
            res.append(ok("C15.T", key, g.loc(), "trace.insert(..) and the push of the opcode parameter are unconditional"))
    # premise: a failure can be raised before dispatch (the budget test), so no opcode is exempt
    pre = [r for r in rule_p(F) if r["key"].startswith("C15/P/pre-dispatch/")]
    why = ("the interpreter raises an error (the instruction budget, Timeout) before it dispatches on the opcode, so every "
           "instruction can be the failing one" if pre else "every instruction needs an entry")
    # every other conversion of an Instruction to a byte
    from rules.c10 import instr_ctor
    emitting, involved = [], set()
    for g in F.fns:
        if not g.hir or g.is_closure or g.short in em_fns:
            continue
        calls = [x for x in hir_walk(g.hir["body"]) if x.get("k") in ("call", "mcall") and set(hir_callee(x)) & em_fns]
        if calls:
            emitting.append((g, len(calls)))
        for c in _opcode_conversions(g):
            src = c["e"] if c["k"] == "cast" else c if _is_instr_ty(c.get("ty")) else ([c["recv"]] if c["k"] == "mcall" else c["args"])[0]
            v = instr_ctor(src)
            what = v if isinstance(v, str) else "opcode"
            for kind, h, ln, how in _byte_flow(F, g, c):
                involved |= {g.short, h.short}
                n = sum(1 for r in res if r["key"].startswith("C15/T/%s/untraced-%s" % (h.name, what)))
                key = "C15/T/%s/untraced-%s%s" % (h.name, what, "" if n == 0 else "#%d" % n)
                if kind == "write":
                    res.append(bad("C15.T", key, h.loc(ln),
                                   "%s appends the opcode byte of %s to program.bytecode by %s, not through %s: the instruction gets no "
                                   "entry in program.trace. %s - when the budget runs out on this instruction (or it fails otherwise) the "
                                   "error has no trace[0] for its card: trace[0] is the caller's call card (or the program entry), the "
                                   "call chain is shifted by one"
                                   % (h.name, what if what != "opcode" else "an instruction", how,
                                      "/".join(sorted(x.rsplit("::", 1)[-1] for x in em_fns)), why[0].upper() + why[1:])))
                else:
                    res.append(undecided("C15.T", key, h.loc(ln), "an opcode byte made in %s is %s: cannot tell whether it reaches "
                                         "program.bytecode without a trace entry" % (g.name, how)))
    for g, n in sorted(emitting, key=lambda t: t[0].short):
        if g.short in involved:
            continue
        key = "C15/T/%s/opcodes-through-the-tracing-emitter" % g.name
        if any(r["key"] == key for r in res):
            key += "#" + g.short
        res.append(ok("C15.T", key, g.loc(), "%d opcode emission(s), all through the tracing emitter; no other Instruction->byte conversion" % n))
    return res


def rule_m(F):
    """C15.M: a location is (namespace of the module, position of the function *in that module*, card path). The compiler
    flattens the module tree into one stream; `FunctionIr.function_index` - which becomes `CardIndex::function` of every
    trace entry and compile-error location of that function - has to stay the position in `module.functions` (the enumerate
    index of the loop over them), not the position in the flattened stream: resolving namespace + index in the source
    module otherwise finds another function of that module, or none."""
    res = []
    g = F.fn("compiler::module::function_to_function_ir")
    key = "C15/M/function_to_function_ir/function-index-is-module-relative"
    fexpr = None
    for x in hir_walk(g.hir["body"]):
        if x.get("k") == "struct" and short(x["path"]["res"].get("path", "")).endswith("FunctionIr"):
            for fl in x["fields"]:
                if fl["name"] == "function_index":
                    fexpr = fl.get("e") or fl.get("expr")
    if fexpr is None:
        raise AnchorMissing("FunctionIr { function_index: .. } in function_to_function_ir")
    params = [p_.get("id") for p_ in g.hir["params"]]
    lid = hir_local_id(hu.strip_all(fexpr))
    if lid not in params:
        return [undecided("C15.M", key, g.loc(), "function_index is not a parameter of function_to_function_ir")]
    pidx = params.index(lid)
    sites = 0
    for f in F.fns:
        if not f.hir or f.is_closure:
            continue
        # for (IDX, ..) in <module>.functions.iter().enumerate()
        loop_idx = {}
        for m in hir_walk(f.hir["body"]):
            if m.get("k") == "match" and m.get("source") == "ForLoopDesugar":
                head = hu.strip_all((m.get("e") or m.get("scrut") or {}).get("args", [None])[0]) if (m.get("e") or m.get("scrut") or {}).get("k") == "call" else None
                chain = []
                e = head
                while e is not None and e.get("k") == "mcall":
                    chain.append(e["name"])
                    e = hu.strip_all(e["recv"])
                over_functions = e is not None and e.get("k") == "field" and e.get("name") == "functions"
                if chain[:1] == ["enumerate"] and over_functions and not ({"rev", "skip", "filter", "chain", "zip"} & set(chain)):
                    for y in hir_walk(m):
                        if y.get("k") == "match" and y is not m and y.get("source") == "ForLoopDesugar":
                            for a in y["arms"]:
                                bs = pat_bindings(a["pat"])
                                if bs:
                                    loop_idx[bs[0][0]] = True   # first binding of (idx, (name, function))
        for x in hir_walk(f.hir["body"]):
            if x.get("k") == "call" and "compiler::module::function_to_function_ir" in hir_callee(x) and len(x["args"]) > pidx:
                sites += 1
                a = hir_local_id(hu.strip_all(x["args"][pidx]))
                if a is not None and a in loop_idx:
                    res.append(ok("C15.M", key, f.loc(x.get("ln")), "function_index = the enumerate index of the loop over module.functions"))
                else:
                    res.append(bad("C15.M", key, f.loc(x.get("ln")),
                                   "the function index stored in FunctionIr (and so in every trace entry and compile-error location of the "
                                   "function) is not the function's position in its own module's `functions`: for a function of a sub-module "
                                   "the location `namespace + index` resolves to another function of that module or to none"))
    if sites < 1:
        raise AnchorMissing("call of function_to_function_ir")
    return res


def rule_r(F):
    """C15.R: a failure inside a script function that a host function called back into keeps its location. The nested
    interpreter loop hands back an ExecutionError {payload, trace}; wherever the re-entry point (Vm::run_function and its
    helpers) turns that into its own error type, the trace must go along. A projection to `.payload` alone drops the failing
    card: the outer loop then locates the error at the native's call card."""
    from cao.facts import DefUse, callee_names
    from cao import mirutil as mu
    res = []
    loop = interp(F).driver
    # callers of the interpreter loop other than Vm::run (transitively inside impl Vm)
    reentry = []
    for g in F.fns:
        if not g.mir or g.is_closure or not g.short.startswith("vm::Vm::") or g.short == "vm::Vm::run" or g is loop:
            continue
        if any(loop.short in callee_names(t["func"]) or "vm::Vm::_run" in callee_names(t["func"]) for _bi, t in mu.calls(g)):
            reentry.append(g)
    from cao.facts import CallGraph
    from_rf = CallGraph(F).reach("vm::Vm::run_function")
    n = 0
    for g in reentry:
        if g.short == "vm::Vm::_run":
            continue
        for c in F.closures_of.get(g.short, []):
            if not c.mir:
                continue
            reads = set()
            for b in c.blocks:
                for st in b["stmts"]:
                    if st["k"] != "assign":
                        continue
                    from cao.facts import rvalue_places
                    for pl in rvalue_places(st["rv"]):
                        for e_ in pl["p"]:
                            if e_["k"] == "field" and short(e_.get("owner", "")).endswith("ExecutionError"):
                                reads.add(e_["name"])
            if "payload" not in reads:
                continue
            n += 1
            key = "C15/R/%s/callback-error-keeps-its-location" % ("run_function" if g.short in from_rf else g.name)
            if "trace" in reads:
                res.append(ok("C15.R", key, c.loc(), "the nested error's trace is carried along with its payload"))
            else:
                res.append(bad("C15.R", key, c.loc(),
                               "%s keeps only the payload of the error the nested interpreter loop returned and drops its trace: a failure "
                               "inside a script function called back by a host function (a key function of std.sorted, any callback of a native) "
                               "is located at the native's call card, trace[0] is not the failing card" % g.name))
    if n == 0:
        res.append(note("C15.R", "C15/R/no-projection-found", "", "no re-entry point projects an ExecutionError to its payload"))
    return res


RULES = [
    Rule("C15.M", rule_m, 1, "the function index of a location is module-relative"),
    Rule("C15.R", rule_r, 0, "a failure inside a callback keeps its location"),
    Rule("C15.I", rule_i, 40, "compiler child numbering equals Card::get_child for every card kind"),
    Rule("C15.P", rule_p, 50, "runtime errors are located at the failing instruction's opcode position"),
    Rule("C15.C", rule_c, 4, "call frames record the CallFunction opcode position"),
    Rule("C15.K", rule_k, 4, "compile errors raised by Compiler carry the current card"),
    Rule("C15.G", rule_g, 30, "a card's own instructions are recorded under its own index"),
    Rule("C15.F", rule_f, 1, "every active call frame contributes one trace entry"),
    Rule("C15.T", rule_t, 12, "every opcode written to the bytecode gets a trace entry (no exemption: Timeout can hit any instruction)"),
]
