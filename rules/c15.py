"""C15 — Error locations identify the failing card and its call chain.

  C15.I  the compiler numbers the children of every card kind exactly as Card::get_child does (symbolic walk of
         process_card's push_subindex/pop_subindex bookkeeping vs. the C16.S reference shape).
  C15.P  the trace key handed to payload_to_error is the position of the failing instruction's opcode
         (push_instruction keys the trace by opcode position).
  C15.C  call frames record the CallFunction opcode position; the error trace walks frames innermost first.
  C15.K  compile errors raised inside Compiler carry the current card (Compiler::trace()).
"""
from cao.facts import hir_walk, hir_callee, hir_strip, hir_local_id, pat_variants, short, block_exprs, AnchorMissing, pat_bindings
from cao.rules import Rule, ok, bad, undecided, note
from cao import cardshape as cs
from cao import compwalk as cw
from cao import hirutil as hu
from rules.c16 import reference_shape, place_s, out_s

EXPLANATION = (
    "C15.I walks the HIR of every arm of Compiler::process_card in source order (closures passed to encode_if_then "
    "inlined, since they run on the same compiler state), keeping a symbolic stack of the sub-indices pushed on "
    "current_index, and records the symbolic index path at which each child place of the card's payload is compiled "
    "(process_card / compile_subexpr / enumerate loops). That map must equal the child shape that Card::get_child "
    "resolves (derived independently by the C16.S analysis): child k at path [k], list elements at [fixed+idx], every "
    "child at depth exactly 1, stack balanced. C15.P classifies, for each payload_to_error call site in Vm::_run, the "
    "expression passed as trace key: a local initialised from *instr_ptr before the opcode is consumed (or *instr_ptr "
    "itself before the increment) is the opcode position; *instr_ptr after the increment is the next instruction. "
    "C15.C/K are argument-wiring checks by resolved callee. All hold for every program because they are facts about "
    "the compiler's and interpreter's code. Not decided: completeness of the call chain for a particular run."
)
ASSUMPTIONS = [
    "Module::get_card resolves a trace through Card::get_child (checked by C16.W)",
    "push_instruction keys trace entries by opcode position (checked by C10.T)",
]


def path_s(p):
    out = []
    for x in p:
        if isinstance(x, tuple):
            if x[0] == "idx":
                out.append("i(%s)%s" % (place_s(x[1]), ("%+d" % x[2]) if x[2] else ""))
            elif x[0] == "len":
                out.append("len(%s)" % place_s(x[1]))
            else:
                out.append("?")
        else:
            out.append(str(x))
    return "[" + ",".join(out) + "]"


def rule_i(F):
    res = []
    fn = F.fn("compiler::Compiler::process_card")
    arms, _pre, _tail = cs.arms_of(fn)
    if arms is None:
        raise AnchorMissing("match on CardBody in process_card")
    acc = cs.Accessors(F)
    for arm in arms:
        for v in arm.variants:
            if v == "_":
                continue
            try:
                fixed, lst = reference_shape(acc, v)
            except cs.Undecided as e:
                res.append(undecided("C15.I", "C15/I/%s" % v, fn.loc(), "reference shape undecided: %s" % e))
                continue
            w = cw.Walk(F, fn, arm.env)
            w.walk(arm.body)
            ln = arm.body.get("ln")
            if w.stack:
                w.problems.append(("arm ends with sub-indices still pushed: %s" % path_s(w.stack), ln))
            if not fixed and lst is None:
                kids = [ev for ev in w.events if ev[0] in ("child", "list_elem")]
                if kids:
                    res.append(bad("C15.I", "C15/I/%s/leaf-compiles-children" % v, fn.loc(ln), "leaf kind compiles a child card"))
                else:
                    res.append(ok("C15.I", "C15/I/%s" % v, fn.loc(ln), "leaf: compiles no child"))
                continue
            probs = []
            unknown = [ev for ev in w.events if ev[0] == "unknown_subexpr"]
            if unknown or any(isinstance(x, tuple) and x[0] == "?" for ev in w.events for x in ev[2]):
                res.append(undecided("C15.I", "C15/I/%s" % v, fn.loc(ln), "index bookkeeping uses an unrecognised idiom"))
                continue
            nf = len(fixed)
            seen_fixed = {}
            for ev in w.events:
                if ev[0] == "child":
                    seen_fixed.setdefault(ev[1], []).append(ev[2])
            for k, child in enumerate(fixed):
                paths = seen_fixed.get(child, [])
                if not paths:
                    res.append(note("C15.I", "C15/I/%s/child%d-not-compiled" % (v, k), fn.loc(ln), "child %s is never compiled" % out_s(child)))
                    continue
                for p in paths:
                    if p != (k,):
                        probs.append("child %s (get_child index %d) is compiled at index path %s" % (out_s(child), k, path_s(p)))
            for child, paths in seen_fixed.items():
                if child not in fixed:
                    probs.append("place %s is compiled as a child at %s but get_child does not enumerate it" % (out_s(child), path_s(paths[0])))
            lists = [ev for ev in w.events if ev[0] == "list_elem"]
            if lst is not None:
                mine = [ev for ev in lists if ev[1] == lst]
                if not mine:
                    res.append(note("C15.I", "C15/I/%s/list-not-compiled" % v, fn.loc(ln), "list %s is never compiled" % place_s(lst)))
                for ev in mine:
                    want = (("idx", lst, nf),)
                    if ev[2] != want:
                        probs.append("elements of %s (get_child index %d+i) are compiled at index path %s" % (place_s(lst), nf, path_s(ev[2])))
            for ev in lists:
                if ev[1] != lst:
                    probs.append("list %s is compiled as children but get_child does not enumerate it" % place_s(ev[1]))
            for what, pln in w.problems:
                probs.append(what)
            if probs:
                res.append(bad("C15.I", "C15/I/%s" % v, fn.loc(ln), "; ".join(probs) + " — Module::get_card(trace) resolves to a different card or CardNotFound"))
            else:
                res.append(ok("C15.I", "C15/I/%s" % v, fn.loc(ln), "children compiled at the indices get_child resolves",
                              fixed=[out_s(o) for o in fixed], list=place_s(lst) if lst is not None else None))
    # process_function numbers top-level cards with a replace (pop+push) of the enumerate index
    pf = F.fn("compiler::Compiler::process_function")
    w = cw.Walk(F, pf, {})
    # bind the destructured `cards` parameter field as a list place
    for p in pf.hir["params"]:
        if p.get("k") == "struct":
            for f in p["fields"]:
                if f["pat"].get("k") == "bind":
                    w.env[f["pat"]["id"]] = (f["name"],)
    w.stack = ["top"]
    w.walk(pf.hir["body"])
    lists = [ev for ev in w.events if ev[0] == "list_elem"]
    if len(lists) == 1 and lists[0][1] == ("cards",) and lists[0][2] == (("idx", ("cards",), 0),) and not w.problems and len(w.stack) == 1:
        res.append(ok("C15.I", "C15/I/process_function/top-level", pf.loc(), "top-level card k compiled at [k] (replace idiom, balanced)"))
    else:
        res.append(bad("C15.I", "C15/I/process_function/top-level", pf.loc(),
                       "top-level cards are not numbered by their position in the function (events %s, problems %s)" % (
                           [(e[0], path_s(e[2])) for e in lists], [p[0] for p in w.problems])))
    # compile_subexpr: child i at [.., i]
    sf = F.fn("compiler::Compiler::compile_subexpr")
    w = cw.Walk(F, sf, {})
    for p in sf.hir["params"]:
        if p.get("k") == "bind" and p["name"] == "cards":
            w.env[p["id"]] = ("cards",)
    w.walk(sf.hir["body"])
    lists = [ev for ev in w.events if ev[0] == "list_elem"]
    if len(lists) == 1 and lists[0][2] == (("idx", ("cards",), 0),) and not w.problems and not w.stack:
        res.append(ok("C15.I", "C15/I/compile_subexpr", sf.loc(), "card i of the slice compiled under push_subindex(i), balanced"))
    else:
        res.append(bad("C15.I", "C15/I/compile_subexpr", sf.loc(), "compile_subexpr does not number card i with sub-index i"))
    return res


# ---------------------------------------------------------------------------------------------------
# C15.P
# ---------------------------------------------------------------------------------------------------

def find_block_with_increment(root, ip_id):
    """Return (block, index of the `*instr_ptr += k` statement) for the innermost block that directly contains it."""
    for x in hir_walk(root):
        bl = None
        if x.get("k") == "block":
            bl = x["block"]
        elif x.get("k") == "loop":
            bl = x["body"]
        if bl is None:
            continue
        for n, st in enumerate(bl["stmts"]):
            if st["k"] in ("semi", "expr"):
                e = hir_strip(st["e"])
                if e.get("k") == "assign_op" and e["op"] == "AddAssign":
                    l = hir_strip(e["l"])
                    if l.get("k") == "un" and l["op"] == "Deref" and hir_local_id(l["e"]) == ip_id:
                        return bl, n
    return None, None


def is_deref_of(e, lid):
    e = hu.strip_casts(e)
    return e is not None and e.get("k") == "un" and e["op"] == "Deref" and hir_local_id(e["e"]) == lid


def rule_p(F):
    res = []
    from rules.c10 import dispatch_fn as _dispatch_fn
    fn = _dispatch_fn(F)
    ip_id = None
    for p in fn.hir["params"]:
        if p.get("k") == "bind" and p.get("ty", "").replace(" ", "") == "&mutusize":
            ip_id = p["id"]
    if ip_id is None:
        raise AnchorMissing("instruction pointer parameter of Vm::_run")
    # the error-constructing closure
    pte_id = None
    for x in hir_walk(fn.hir["body"]):
        if x.get("k") == "block":
            for st in x["block"]["stmts"]:
                if st["k"] == "let" and st["pat"].get("k") == "bind" and st.get("init") is not None and hir_strip(st["init"]).get("k") == "closure":
                    clo = hir_strip(st["init"])
                    if any("ExecutionError::new" in n for y in hir_walk(clo["body"]) for n in hir_callee(y)):
                        pte_id = st["pat"]["id"]
                        pte_params = clo["params"]
                        pte_body = clo["body"]
    if pte_id is None:
        raise AnchorMissing("payload_to_error closure in Vm::_run")
    bl, inc = find_block_with_increment(fn.hir["body"], ip_id)
    if bl is None:
        raise AnchorMissing("`*instr_ptr += 1` in Vm::_run")
    # locals initialised from *instr_ptr before the increment, in the same block
    start_locals = {}
    for st in bl["stmts"][:inc]:
        if st["k"] == "let" and st["pat"].get("k") == "bind" and st.get("init") is not None and is_deref_of(st["init"], ip_id):
            start_locals[st["pat"]["id"]] = st["pat"]["name"]
    # nodes by region
    before_ids, after_ids = set(), set()
    for n, st in enumerate(bl["stmts"]):
        es = []
        if st["k"] == "let":
            if st.get("init") is not None:
                es.append(st["init"])
        elif st["k"] in ("semi", "expr"):
            es.append(st["e"])
        for e in es:
            for y in hir_walk(e):
                (before_ids if n < inc else after_ids).add(id(y))
    if bl.get("expr") is not None:
        for y in hir_walk(bl["expr"]):
            after_ids.add(id(y))
    # arm labels for keys
    labels = {}
    for x in hir_walk(fn.hir["body"]):
        if x.get("k") == "match" and len(x["arms"]) > 20:
            for a in x["arms"]:
                names = [n.rsplit("::", 1)[-1] for n, _s, _p in pat_variants(a["pat"]) if "::" in n]
                for y in hir_walk(a["body"]):
                    labels.setdefault(id(y), "+".join(names))
    counters = {}
    sites = [x for x in hir_walk(fn.hir["body"]) if x.get("k") == "call" and hir_local_id(x["f"]) == pte_id]
    for x in sites:
        arg = x["args"][1]
        lab = labels.get(id(x))
        if id(x) in before_ids:
            region = "before"
            lab = lab or "pre-dispatch"
        elif id(x) in after_ids:
            region = "after"
        else:
            region = "outside"
            lab = lab or "after-loop"
        n = counters.get(lab, 0)
        counters[lab] = n + 1
        key = "C15/P/%s/%d" % (lab, n)
        lid = hir_local_id(hu.strip_casts(arg))
        if lid in start_locals:
            res.append(ok("C15.P", key, fn.loc(x["ln"]), "trace key is `%s` = *instr_ptr read before the opcode is consumed" % start_locals[lid]))
        elif is_deref_of(arg, ip_id):
            if region == "before":
                res.append(ok("C15.P", key, fn.loc(x["ln"]), "trace key *instr_ptr read before the opcode is consumed"))
            elif region == "outside":
                res.append(note("C15.P", key, fn.loc(x["ln"]), "end-of-input: no instruction to name (exempt)"))
            else:
                res.append(bad("C15.P", key, fn.loc(x["ln"]),
                               "error of %s is located with *instr_ptr *after* the opcode (and operands) were consumed: trace[0] is the "
                               "entry of the following instruction, not of the failing card" % lab))
        else:
            res.append(undecided("C15.P", key, fn.loc(x["ln"]), "trace key expression not recognised"))
    # inside payload_to_error: the key is looked up in program.trace, frames walked innermost first
    has_get = any(x.get("k") == "mcall" and x["name"] == "get" and (hu.field_chain(x["recv"]) or (None, []))[1][-1:] == ["trace"] for x in hir_walk(pte_body))
    has_back = any(x.get("k") == "mcall" and x["name"] == "iter_backwards" for x in hir_walk(pte_body))
    uses_src = any(x.get("k") == "field" and x["name"] == "src_instr_ptr" for x in hir_walk(pte_body))
    if has_get and has_back and uses_src:
        res.append(ok("C15.P", "C15/P/payload_to_error/shape", fn.loc(pte_body.get("ln")),
                      "looks up program.trace[key], then frames via iter_backwards() by src_instr_ptr"))
    else:
        res.append(bad("C15.P", "C15/P/payload_to_error/shape", fn.loc(pte_body.get("ln")),
                       "payload_to_error must look up program.trace at the key and walk call frames innermost-first by src_instr_ptr "
                       "(trace lookup=%s iter_backwards=%s src_instr_ptr=%s)" % (has_get, has_back, uses_src)))
    return res


# ---------------------------------------------------------------------------------------------------
# C15.C
# ---------------------------------------------------------------------------------------------------

def rule_c(F):
    res = []
    from rules.c10 import dispatch_fn as _dispatch_fn
    run = _dispatch_fn(F)
    ip_id = [p["id"] for p in run.hir["params"] if p.get("k") == "bind" and p.get("ty", "").replace(" ", "") == "&mutusize"][0]
    bl, inc = find_block_with_increment(run.hir["body"], ip_id)
    start_locals = set()
    if bl is not None:
        for st in bl["stmts"][:inc]:
            if st["k"] == "let" and st["pat"].get("k") == "bind" and st.get("init") is not None and is_deref_of(st["init"], ip_id):
                start_locals.add(st["pat"]["id"])
    # 1. _run passes a start local as the call position
    calls = [x for x in hir_walk(run.hir["body"]) if x.get("k") == "call" and "vm::instr_execution::instr_call_function" in hir_callee(x)]
    if not calls:
        raise AnchorMissing("call of instr_call_function in Vm::_run")
    icf = F.fn("vm::instr_execution::instr_call_function")
    pnames = [p.get("name") for p in icf.hir["params"]]
    for x in calls:
        # which argument feeds push_call_frame's src_ptr? resolve below; here: find args that are start locals
        starts = [n for n, a in enumerate(x["args"]) if hir_local_id(hu.strip_casts(a)) in start_locals]
        res.append((ok if starts else bad)("C15.C", "C15/C/_run/passes-opcode-position", run.loc(x["ln"]),
                   "CallFunction passes the opcode position (argument %s)" % starts if starts else
                   "instr_call_function is not given the position of the CallFunction opcode"))
        start_arg = starts[0] if starts else None
    # 1b. a call that fails is not an active frame: no error exit of instr_call_function lies after push_call_frame succeeded
    icf0 = F.fn("vm::instr_execution::instr_call_function")
    cfg0 = icf0.cfg
    from cao import mirutil as mu
    from cao.facts import callee_names
    pushes = [(bi, t) for bi, t in mu.calls(icf0) if "vm::instr_execution::push_call_frame" in callee_names(t["func"])]
    key1b = "C15/C/instr_call_function/failed-call-is-not-a-frame"
    if not pushes:
        res.append(undecided("C15.C", key1b, icf0.loc(), "push_call_frame call not found in MIR"))
    else:
        errs = set()
        for bi, b in enumerate(icf0.blocks):
            t = b["term"]
            if t["k"] == "call" and any(x.endswith("from_residual") for x in callee_names(t["func"])) and t["dest"]["l"] == 0:
                errs.add(bi)
            for st in b["stmts"]:
                if st["k"] == "assign" and st["place"]["l"] == 0 and not st["place"]["p"] and mu.is_err_aggregate(st["rv"]):
                    errs.add(bi)
        late = set()
        for pb, pt in pushes:
            # the `?` on push_call_frame's own result is its failure, not a later one
            from rules.c16 import origin_call_block
            from cao.facts import DefUse, op_local
            du0 = DefUse(icf0)
            for e in errs:
                if e in cfg0.reachable_from(pt["target"]):
                    t = icf0.blocks[e]["term"]
                    own = False
                    if t["k"] == "call" and t["args"]:
                        a0 = op_local(t["args"][0])
                        own = a0 is not None and origin_call_block(icf0, du0, a0) == pb
                    if not own:
                        late.add(e)
        if late:
            res.append(bad("C15.C", key1b, icf0.loc(icf0.blocks[sorted(late)[0]]["term"].get("ln")),
                           "instr_call_function can fail after it has pushed the call frame (e.g. the label lookup): the failed call is then "
                           "also an active frame, the error trace lists the call card twice - trace[1..] is not the chain of active callers"))
        else:
            res.append(ok("C15.C", key1b, icf0.loc(), "no error exit after push_call_frame succeeded"))
    # 2. instr_call_function forwards that parameter as push_call_frame's src_ptr
    pcf = F.fn("vm::instr_execution::push_call_frame")
    pcf_params = [p.get("id") for p in pcf.hir["params"]]
    # which push_call_frame parameter ends up in CallFrame.src_instr_ptr?
    src_param = None
    for x in hir_walk(pcf.hir["body"]):
        if x.get("k") == "struct" and short(x["path"]["res"].get("path", "")).endswith("CallFrame"):
            for f in x["fields"]:
                if f["name"] == "src_instr_ptr":
                    lid = hir_local_id(hu.strip_casts(f["e"]))
                    if lid in pcf_params:
                        src_param = pcf_params.index(lid)
    if src_param is None:
        res.append(bad("C15.C", "C15/C/push_call_frame/src_instr_ptr", pcf.loc(), "CallFrame.src_instr_ptr is not set from a parameter of push_call_frame"))
    else:
        res.append(ok("C15.C", "C15/C/push_call_frame/src_instr_ptr", pcf.loc(), "CallFrame.src_instr_ptr = parameter #%d" % src_param))
        icf_params = [p.get("id") for p in icf.hir["params"]]
        fw = [x for x in hir_walk(icf.hir["body"]) if x.get("k") == "call" and "vm::instr_execution::push_call_frame" in hir_callee(x)]
        for x in fw:
            lid = hir_local_id(hu.strip_casts(x["args"][src_param]))
            good = lid in icf_params and start_arg is not None and icf_params.index(lid) == start_arg
            res.append((ok if good else bad)("C15.C", "C15/C/instr_call_function/forwards-opcode-position", icf.loc(x["ln"]),
                       "src_ptr forwarded to push_call_frame" if good else
                       "push_call_frame's src_ptr is not the opcode position received from _run"))
    return res


# ---------------------------------------------------------------------------------------------------
# C15.K
# ---------------------------------------------------------------------------------------------------

def rule_k(F):
    res = []
    n = 0
    for f in F.fns:
        if not f.hir or not f.short.startswith("compiler::Compiler::"):
            continue
        for x in hir_walk(f.hir["body"]):
            if x.get("k") == "call" and "compiler::compilation_error::CompilationError::with_loc" in hir_callee(x):
                loc = hir_strip(x["args"][1])
                good = loc.get("k") == "mcall" and "compiler::Compiler::trace" in hir_callee(loc)
                n += 1
                key = "C15/K/%s/with_loc" % f.name
                if good:
                    res.append(ok("C15.K", key, f.loc(x["ln"]), "location = self.trace()"))
                else:
                    res.append(bad("C15.K", key, f.loc(x["ln"]), "compile error built inside Compiler without the current card's trace"))
            if x.get("k") == "struct" and short(x["path"]["res"].get("path", "")).endswith("CompilationError"):
                res.append(bad("C15.K", "C15/K/%s/literal" % f.name, f.loc(x["ln"]), "CompilationError literal bypasses with_loc/self.trace()"))
    # push_instruction records self.trace() - built from the *current* namespace and index - for the instruction it emits
    pi = F.fn("compiler::Compiler::push_instruction")
    ins = [x for x in hir_walk(pi.hir["body"]) if x.get("k") == "mcall" and x["name"] == "insert" and
           (hu.field_chain(x["recv"]) or (None, []))[1][-1:] == ["trace"]]
    key = "C15/K/push_instruction/records-current-trace"
    if not ins:
        res.append(bad("C15.K", key, pi.loc(), "push_instruction does not record a trace entry"))
    else:
        for x in ins:
            v = hu.strip_all(x["args"][1])
            # peel clone()
            while v is not None and v.get("k") == "mcall" and v["name"] in ("clone", "to_owned"):
                v = hu.strip_all(v["recv"])
            fresh = v is not None and v.get("k") == "mcall" and "compiler::Compiler::trace" in hir_callee(v)
            if fresh:
                res.append(ok("C15.K", key, pi.loc(x["ln"]), "the entry is self.trace() evaluated at the emission"))
            else:
                # a cached trace: every refresh must be keyed on namespace AND index
                conds = [y for y in hir_walk(pi.hir["body"]) if y.get("k") == "if" and any(
                    z.get("k") == "mcall" and "compiler::Compiler::trace" in hir_callee(z) for z in hir_walk(y["then"]))]
                fields = set()
                for c in conds:
                    fields |= set(z["name"] for z in hir_walk(c["cond"]) if z.get("k") == "field")
                if conds and {"current_index"} <= fields and ({"current_namespace", "namespace"} & fields):
                    res.append(ok("C15.K", key, pi.loc(x["ln"]), "cached trace, refreshed when the namespace or the index changes"))
                else:
                    res.append(bad("C15.K", key, pi.loc(x["ln"]),
                                   "push_instruction records a cached trace that is refreshed on a change of the card index only (compared: %s): "
                                   "a card index is relative to its module, so the first instruction of a function in another module with an "
                                   "equal index inherits the previous function's namespace - the trace names the wrong module" % sorted(fields)))
    # Compiler::trace uses current_namespace and current_index
    t = F.fn("compiler::Compiler::trace")
    fields = set(x["name"] for x in hir_walk(t.hir["body"]) if x.get("k") == "field")
    if {"current_namespace", "current_index"} <= fields:
        res.append(ok("C15.K", "C15/K/trace/fields", t.loc(), "trace() = (current_namespace, current_index)"))
    else:
        res.append(bad("C15.K", "C15/K/trace/fields", t.loc(), "Compiler::trace must report current_namespace and current_index"))
    return res


# ---------------------------------------------------------------------------------------------------
# C15.G  a card's own instructions are recorded under the card's own index
# ---------------------------------------------------------------------------------------------------

def rule_g(F):
    """In every arm of process_card, everything the arm emits itself (push_instruction, encode_if_then's jump, local
    variable reads/writes, add_local and its errors, scope_end's pops ...) happens while the sub-index stack is at its
    entry depth; a sub-index is pushed only around the compilation of a child. Otherwise the trace table maps the card's
    own instructions (and compile errors) to one of its children."""
    res = []
    fn = F.fn("compiler::Compiler::process_card")
    arms, _pre, _tail = cs.arms_of(fn)
    if arms is None:
        raise AnchorMissing("match on CardBody in process_card")
    for arm in arms:
        names = [v for v in arm.variants if v != "_"]
        if not names:
            continue
        w = cw.Walk(F, fn, arm.env)
        w.walk(arm.body)
        emits = [ev for ev in w.events if ev[0] == "emit"]
        if not emits:
            continue
        off = [ev for ev in emits if ev[2]]
        key = "C15/G/%s/own-instructions-at-own-index" % "+".join(names)
        if off:
            ev = off[0]
            res.append(bad("C15.G", key, fn.loc(ev[3]),
                           "the %s arm calls %s while a child sub-index %s is pushed: the instructions (or the compile error) it produces are "
                           "recorded under the child's index, so a runtime error raised there (stack exhaustion, timeout) or the compile "
                           "error is located at the child instead of this card (%d such call(s))"
                           % ("/".join(names), short(ev[1]).rsplit("::", 1)[-1], path_s(ev[2]), len(off))))
        else:
            res.append(ok("C15.G", key, fn.loc(arm.body.get("ln")), "%d emitting call(s), all at the card's own index" % len(emits)))
    return res


# ---------------------------------------------------------------------------------------------------
# C15.F  every active call frame contributes one trace entry
# ---------------------------------------------------------------------------------------------------

def rule_f(F):
    """In the error constructor of Vm::_run (the closure that walks the call stack): inside the loop over the call
    stack, the push of a trace entry may only be conditional on the lookup of that frame's call position in
    program.trace succeeding; the loop body has no `continue`, `break` or `return`, and no other condition."""
    res = []
    from rules.c10 import dispatch_fn as _dispatch_fn
    run = _dispatch_fn(F)
    loops = []
    for x in hir_walk(run.hir["body"]):
        if x.get("k") == "match" and str(x.get("source", "")).startswith("ForLoopDesugar"):
            scrut = hir_strip(x["scrut"])
            if scrut.get("k") == "call" and scrut["args"]:
                it = hu.strip_casts(scrut["args"][0])
                if any(y.get("k") == "mcall" and y["name"] in ("iter_backwards", "iter") and "CallFrame" in (y.get("ty") or "")
                       for y in hir_walk(it)):
                    loops.append(x)
    if not loops:
        raise AnchorMissing("loop over the call stack in the error constructor of Vm::_run")
    for n, lp in enumerate(loops):
        key = "C15/F/_run/one-trace-entry-per-frame%s" % ("" if n == 0 else "#%d" % n)
        # loop body = the Some(..) arm of the inner match
        body = None
        elem_ids = []
        for y in hir_walk(lp):
            if y is not lp and y.get("k") == "match" and str(y.get("source", "")).startswith("ForLoopDesugar"):
                for a in y["arms"]:
                    if a["body"].get("k") != "break":
                        body = a["body"]
                        elem_ids = [i for i, _n in pat_bindings(a["pat"])]
                break
        if body is None:
            res.append(undecided("C15.F", key, run.loc(lp.get("ln")), "loop body not found"))
            continue
        jumps = [y for y in hir_walk(body) if y.get("k") in ("continue", "break", "ret")]
        pushes = [y for y in hir_walk(body) if y.get("k") == "mcall" and y["name"] == "push" and "Trace" in (hir_strip(y["recv"]).get("ty") or "") + (y["recv"].get("ty_adj") or "")]
        if not pushes:
            res.append(bad("C15.F", key, run.loc(lp.get("ln")), "the loop over the call stack does not push trace entries"))
            continue
        anc = hu.control_ancestors(body)
        probs = []
        if jumps:
            probs.append("the loop body contains `%s` (line %s): frames can be skipped" % (jumps[0]["k"], jumps[0].get("ln")))
        ifs = {id(y): y for y in hir_walk(body) if y.get("k") in ("if", "match")}
        for p in pushes:
            for kind, nid in anc.get(id(p), ()):
                node = ifs.get(nid)
                if node is None:
                    probs.append("push under a %s" % kind)
                    continue
                cond = hir_strip(node["cond"]) if node.get("k") == "if" else hir_strip(node["scrut"])
                init = cond.get("init") if cond.get("k") == "let" else cond
                init = hu.strip_casts(init) if init is not None else None
                # allowed: <..>.trace.get(&<elem>.src_instr_ptr)
                good = False
                if init is not None and init.get("k") == "mcall" and init["name"] == "get":
                    fc = hu.field_chain(init["recv"])
                    arg_fields = [z for z in hir_walk(init["args"][0]) if z.get("k") == "field" and z["name"] == "src_instr_ptr"
                                  and hir_local_id(hu.strip_all(z["e"])) in elem_ids]
                    if fc and fc[1][-1:] == ["trace"] and arg_fields:
                        good = True
                if not good:
                    probs.append("a trace entry is only pushed under a condition other than `program.trace.get(&frame.src_instr_ptr)` "
                                 "being Some (line %s)" % node.get("ln"))
        if probs:
            res.append(bad("C15.F", key, run.loc(lp.get("ln")),
                           "not every active call frame contributes its call card to the error trace: %s; trace[1..] is no longer the "
                           "chain of call cards (e.g. direct recursion through one call card has equal neighbouring frames)" % "; ".join(probs)))
        else:
            res.append(ok("C15.F", key, run.loc(lp.get("ln")), "each frame's call position is looked up and pushed, no frame is skipped"))
    return res


def rule_m(F):
    """C15.M: a location is (namespace of the module, position of the function *in that module*, card path). The compiler
    flattens the module tree into one stream; `FunctionIr.function_index` - which becomes `CardIndex::function` of every
    trace entry and compile-error location of that function - has to stay the position in `module.functions` (the enumerate
    index of the loop over them), not the position in the flattened stream: resolving namespace + index in the source
    module otherwise finds another function of that module, or none."""
    res = []
    g = F.fn("compiler::module::function_to_function_ir")
    key = "C15/M/function_to_function_ir/function-index-is-module-relative"
    fexpr = None
    for x in hir_walk(g.hir["body"]):
        if x.get("k") == "struct" and short(x["path"]["res"].get("path", "")).endswith("FunctionIr"):
            for fl in x["fields"]:
                if fl["name"] == "function_index":
                    fexpr = fl.get("e") or fl.get("expr")
    if fexpr is None:
        raise AnchorMissing("FunctionIr { function_index: .. } in function_to_function_ir")
    params = [p_.get("id") for p_ in g.hir["params"]]
    lid = hir_local_id(hu.strip_all(fexpr))
    if lid not in params:
        return [undecided("C15.M", key, g.loc(), "function_index is not a parameter of function_to_function_ir")]
    pidx = params.index(lid)
    sites = 0
    for f in F.fns:
        if not f.hir or f.is_closure:
            continue
        # for (IDX, ..) in <module>.functions.iter().enumerate()
        loop_idx = {}
        for m in hir_walk(f.hir["body"]):
            if m.get("k") == "match" and m.get("source") == "ForLoopDesugar":
                head = hu.strip_all((m.get("e") or m.get("scrut") or {}).get("args", [None])[0]) if (m.get("e") or m.get("scrut") or {}).get("k") == "call" else None
                chain = []
                e = head
                while e is not None and e.get("k") == "mcall":
                    chain.append(e["name"])
                    e = hu.strip_all(e["recv"])
                over_functions = e is not None and e.get("k") == "field" and e.get("name") == "functions"
                if chain[:1] == ["enumerate"] and over_functions and not ({"rev", "skip", "filter", "chain", "zip"} & set(chain)):
                    for y in hir_walk(m):
                        if y.get("k") == "match" and y is not m and y.get("source") == "ForLoopDesugar":
                            for a in y["arms"]:
                                bs = pat_bindings(a["pat"])
                                if bs:
                                    loop_idx[bs[0][0]] = True   # first binding of (idx, (name, function))
        for x in hir_walk(f.hir["body"]):
            if x.get("k") == "call" and "compiler::module::function_to_function_ir" in hir_callee(x) and len(x["args"]) > pidx:
                sites += 1
                a = hir_local_id(hu.strip_all(x["args"][pidx]))
                if a is not None and a in loop_idx:
                    res.append(ok("C15.M", key, f.loc(x.get("ln")), "function_index = the enumerate index of the loop over module.functions"))
                else:
                    res.append(bad("C15.M", key, f.loc(x.get("ln")),
                                   "the function index stored in FunctionIr (and so in every trace entry and compile-error location of the "
                                   "function) is not the function's position in its own module's `functions`: for a function of a sub-module "
                                   "the location `namespace + index` resolves to another function of that module or to none"))
    if sites < 1:
        raise AnchorMissing("call of function_to_function_ir")
    return res


def rule_r(F):
    """C15.R: a failure inside a script function that a host function called back into keeps its location. The nested
    interpreter loop hands back an ExecutionError {payload, trace}; wherever the re-entry point (Vm::run_function and its
    helpers) turns that into its own error type, the trace must go along. A projection to `.payload` alone drops the failing
    card: the outer loop then locates the error at the native's call card."""
    from cao.facts import DefUse, callee_names
    from cao import mirutil as mu
    from rules.c10 import dispatch_fn as _dispatch_fn
    res = []
    loop = _dispatch_fn(F)
    # callers of the interpreter loop other than Vm::run (transitively inside impl Vm)
    reentry = []
    for g in F.fns:
        if not g.mir or g.is_closure or not g.short.startswith("vm::Vm::") or g.short == "vm::Vm::run" or g is loop:
            continue
        if any(loop.short in callee_names(t["func"]) or "vm::Vm::_run" in callee_names(t["func"]) for _bi, t in mu.calls(g)):
            reentry.append(g)
    from cao.facts import CallGraph
    from_rf = CallGraph(F).reach("vm::Vm::run_function")
    n = 0
    for g in reentry:
        if g.short == "vm::Vm::_run":
            continue
        for c in F.closures_of.get(g.short, []):
            if not c.mir:
                continue
            reads = set()
            for b in c.blocks:
                for st in b["stmts"]:
                    if st["k"] != "assign":
                        continue
                    from cao.facts import rvalue_places
                    for pl in rvalue_places(st["rv"]):
                        for e_ in pl["p"]:
                            if e_["k"] == "field" and short(e_.get("owner", "")).endswith("ExecutionError"):
                                reads.add(e_["name"])
            if "payload" not in reads:
                continue
            n += 1
            key = "C15/R/%s/callback-error-keeps-its-location" % ("run_function" if g.short in from_rf else g.name)
            if "trace" in reads:
                res.append(ok("C15.R", key, c.loc(), "the nested error's trace is carried along with its payload"))
            else:
                res.append(bad("C15.R", key, c.loc(),
                               "%s keeps only the payload of the error the nested interpreter loop returned and drops its trace: a failure "
                               "inside a script function called back by a host function (a key function of std.sorted, any callback of a native) "
                               "is located at the native's call card, trace[0] is not the failing card" % g.name))
    if n == 0:
        res.append(note("C15.R", "C15/R/no-projection-found", "", "no re-entry point projects an ExecutionError to its payload"))
    return res


RULES = [
    Rule("C15.M", rule_m, 1, "the function index of a location is module-relative"),
    Rule("C15.R", rule_r, 0, "a failure inside a callback keeps its location"),
    Rule("C15.I", rule_i, 40, "compiler child numbering equals Card::get_child for every card kind"),
    Rule("C15.P", rule_p, 50, "runtime errors are located at the failing instruction's opcode position"),
    Rule("C15.C", rule_c, 4, "call frames record the CallFunction opcode position"),
    Rule("C15.K", rule_k, 4, "compile errors raised by Compiler carry the current card"),
    Rule("C15.G", rule_g, 30, "a card's own instructions are recorded under its own index"),
    Rule("C15.F", rule_f, 1, "every active call frame contributes one trace entry"),
]
