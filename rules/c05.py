"""C05 — Memory limit is enforced and garbage is reclaimed.

  C05.A  charge symmetry: alloc adds and dealloc subtracts the same function of the Layout.
  C05.F  a failed allocation refunds what it charged.
  C05.G  OutOfMemory is reported only after a collection was attempted, and the next-collection threshold is computed
         from the post-collection usage.
  C05.O  every pointer a runtime method obtains from the accounting allocator (directly or from a helper that returns one) is
         released, handed to an owner (object_list; a value whose Drop releases it) or returned on every exit.
  C05.L  layout symmetry: every dealloc site builds its Layout the same way as an alloc site (and vice versa); an owner whose
         Drop computes the released layout from one of its fields (len / capacity) gets that field set to the very value its
         buffer was allocated for, wherever it is built or the field is overwritten.
  C05.R  a reallocating table frees its old storage with the layout of the OLD capacity: in both adjust_capacity functions the
         capacity that enters the Layout handed to dealloc derives from the value taken out of `self.capacity`, not from
         the new capacity (the system allocator ignores the size, the accounting allocator refunds it).
  C05.C  whoever removes an object from object_list frees it; clear drains the list.
"""
import re
from cao.facts import (AnchorMissing, callee_names, short, op_local, op_place, DefUse, hir_walk, hir_callee, hir_strip,
                       hir_local_id)
from cao.rules import Rule, ok, bad, undecided, note, shared
from cao import mirutil as mu
from rules.c16 import origin_call_block

EXPLANATION = (
    "The accounting identities of the property hold at every allocation history iff they hold per site, and per-site "
    "facts are shape: (A) the HIR expression charged by CaoLangAllocator::alloc equals the one refunded by dealloc; (F) "
    "on the MIR of alloc every path from the fetch_add to an Err return passes a fetch_sub of the same field; (G) every "
    "path to Err(OutOfMemory) passes a call of RuntimeData::gc, and the value stored to next_gc is computed from a load "
    "of `allocated` that the gc call dominates; (O) in every method of the runtime every pointer obtained from the allocator (a call of alloc, or of a "
    "helper summarised as returning one) reaches object_list.push, dealloc, a helper summarised as doing that, or an "
    "aggregate of a type whose Drop releases that field, on every exit other than that allocation's own failure; (L) "
    "alloc/dealloc Layout constructors agree pairwise by resolved callee, generic arguments and operand shape, and the "
    "element count of an allocation is data-flow identical to the value stored in the field the owner's Drop sizes the "
    "release with; private helpers of the allocator are inlined before (A)(F)(G)(Q) are decided; (C) removal from object_list "
    "is always paired with free_object. Not decided: `accounted <= L` as an inequality over histories, and "
    "'live = reachable' after a collection (C02 decides the static part of that)."
)
ASSUMPTIONS = [
    "std::alloc::alloc/dealloc are the only real allocation primitives underneath (who-may-call checked in C05.L)",
    "atomic counters are only touched by CaoLangAllocator (checked: who-may-write of allocated/next_gc/limit)",
]

ALLOC = "alloc::caolang_alloc::CaoLangAllocator::alloc"
DEALLOC = "alloc::caolang_alloc::CaoLangAllocator::dealloc"
GC = "vm::runtime::RuntimeData::gc"
FREE_OBJECT = "vm::runtime::RuntimeData::free_object"


# ---------------------------------------------------------------------------------------------------
# following calls into private helpers: MIR inlining
# ---------------------------------------------------------------------------------------------------

def local_callee(F, t):
    """the crate-local, non-closure function with a MIR body that a call terminator resolves to (or None)"""
    func = t["func"]
    if "indirect" in func or not (func.get("resolved_local") or func.get("local")):
        return None
    for n in reversed(callee_names(func)):
        for g in F.by_short.get(n, []):
            if g.mir and not g.is_closure:
                return g
    return None


def private_helper(F, stop=()):
    """predicate for `inlined`: calls of private (not `pub`) functions of the crate, the rule's own anchors excepted"""
    def want(t):
        g = local_callee(F, t)
        if g is None or g.raw.get("vis") == "Public" or g.short in stop:
            return None
        return g
    return want


def _shift(x, lb):
    """deep copy of a MIR json value with every local index moved up by lb"""
    if isinstance(x, list):
        return [_shift(y, lb) for y in x]
    if isinstance(x, dict):
        d = {k: _shift(v, lb) for k, v in x.items()}
        if isinstance(d.get("l"), int) and ("p" in d or d.get("k") in ("live", "dead")):
            d["l"] += lb
        if d.get("k") == "index" and isinstance(d.get("local"), int):
            d["local"] += lb
        return d
    return x


def _retarget(t, bb):
    for k in ("target", "unwind", "otherwise"):
        if isinstance(t.get(k), int):
            t[k] += bb
    if t["k"] == "switch":
        t["targets"] = [[v, b + bb] for v, b in t["targets"]]


def inlined(F, fn, want, max_depth=3):
    """A copy of `fn` in which every call accepted by want(term) -> callee Fn is replaced by the callee's body (fresh locals,
    parameters assigned from the arguments, every `return` of the callee assigning the call's destination and continuing at
    the call's target). Inlining is semantics preserving, so whatever a rule proves about all paths of the result holds for
    the original; correlations between a helper's result and its internal branch are not kept (more paths, never fewer).
    Recursive helpers and anything deeper than max_depth stay calls."""
    if not fn.mir:
        return fn
    blocks = _shift(fn.mir["blocks"], 0)
    locals_ = list(fn.mir["locals"])
    depth = [0] * len(blocks)
    chain = [(fn.short,)] * len(blocks)
    bi = 0
    did = False
    while bi < len(blocks):
        t = blocks[bi]["term"]
        if t["k"] == "call" and depth[bi] < max_depth:
            g = want(t)
            if g is not None and g.short not in chain[bi] and len(t["args"]) == g.mir["arg_count"]:
                did = True
                lb, bb = len(locals_), len(blocks)
                locals_.extend(g.mir["locals"])
                for gb in g.mir["blocks"]:
                    nb = _shift(gb, lb)
                    _retarget(nb["term"], bb)
                    if nb["term"]["k"] == "return":
                        nb["stmts"].append({"k": "assign", "place": t["dest"], "ln": t.get("ln"), "exp": False,
                                            "rv": {"k": "use", "op": {"k": "move", "place": {"l": lb, "p": []}}}})
                        nb["term"] = {"k": "goto", "target": t["target"]} if t["target"] is not None else {"k": "unreachable"}
                    blocks.append(nb)
                    depth.append(depth[bi] + 1)
                    chain.append(chain[bi] + (g.short,))
                for i, a in enumerate(t["args"]):
                    blocks[bi]["stmts"].append({"k": "assign", "place": {"l": lb + 1 + i, "p": []}, "ln": t.get("ln"), "exp": False,
                                                "rv": {"k": "use", "op": a}})
                blocks[bi]["term"] = {"k": "goto", "target": bb, "inlined": g.short, "ln": t.get("ln")}
        bi += 1
    if not did:
        return fn
    raw = dict(fn.raw)
    raw["mir"] = dict(fn.mir, locals=locals_, blocks=blocks)
    from cao.facts import Fn
    return Fn(raw)


def allocator_bodies(F):
    """CaoLangAllocator::alloc / ::dealloc with their private helpers inlined (the collector, the real allocator and the
    trait forwarders stay calls: they are what the rules look for)"""
    want = private_helper(F, (ALLOC, DEALLOC, GC, FREE_OBJECT) + FORWARDERS)
    return inlined(F, F.fn(ALLOC), want), inlined(F, F.fn(DEALLOC), want)


# ---------------------------------------------------------------------------------------------------
# value expressions: data-flow identity of scalars inside one MIR body
# ---------------------------------------------------------------------------------------------------

PURE = ("core::str::", "std::str::", "core::num::", "std::cmp::Ord::", "std::cmp::max", "std::cmp::min", "std::mem::size_of",
        "std::mem::align_of", "std::alloc::Layout::size", "std::alloc::Layout::align", "core::slice::<impl [T]>::len", "core::slice::len",
        "<usize as std::cmp::Ord>::", "<u32 as std::cmp::Ord>::", "<u64 as std::cmp::Ord>::")
COMMUTATIVE = ("Add", "Mul", "BitAnd", "BitOr", "BitXor", "Eq", "Ne")


def _binop(op):
    for suf in ("WithOverflow", "Unchecked"):
        if op.endswith(suf):
            op = op[:-len(suf)]
    return op


def vexpr(f, du, op, depth=0):
    """Normal form of the value an operand holds: equal normal forms => equal values (copies, checked-arithmetic tuples and
    reborrows are looked through; two calls are the same value only if the callee is a pure function of immutable data and
    the arguments are the same values; any other call result is identified by its call site). ('unknown', ..) when the
    local has several definitions."""
    if op.get("k") == "const":
        return ("const", op.get("val", op.get("text")))
    p = op_place(op)
    if p is None:
        return ("unknown", "operand")
    return vplace(f, du, p, depth)


def vplace(f, du, p, depth=0):
    base = vlocal(f, du, p["l"], depth)
    proj = p["p"]
    if not proj:
        return base
    if len(proj) == 1 and proj[0]["k"] == "field" and proj[0].get("name") == "0" and base[0] in ("Add", "Sub", "Mul"):
        return base
    elems = tuple((e["k"], e.get("name") or e.get("variant") or "") for e in proj)
    if base[0] == "ref" and elems[0][0] == "deref":
        inner, rest = base[1], elems[1:]
        if not rest:
            return inner
        if inner[0] == "place":
            return ("place", inner[1], inner[2] + rest)
        return ("place", inner, rest)
    return ("place", base, elems)


def vlocal(f, du, l, depth=0):
    if depth > 25:
        return ("unknown", l)
    defs = du.defs.get(l, [])
    if not defs:
        return ("param", l) if 1 <= l <= f.mir["arg_count"] else ("unknown", l)
    if len(defs) != 1 or defs[0][3].get("place", defs[0][3].get("dest"))["p"]:
        return ("unknown", l)
    bi, si, kind, payload = defs[0]
    if kind == "call":
        names = callee_names(payload["func"])
        if any(n.startswith(PURE) for n in names):
            v = ("call", names[-1], tuple(payload["func"].get("resolved_args", payload["func"].get("args", [])))) + \
                tuple(vexpr(f, du, a, depth + 1) for a in payload["args"])
            # the length of a str is the length of its bytes: s.as_bytes().len() == s.len()
            if v[1] == "core::slice::len" and len(v) == 4 and v[3][0] == "ref" and v[3][1][0] == "place" and v[3][1][2] == (("deref", ""),):
                inner = v[3][1][1]
                if inner[0] == "call" and inner[1] == "core::str::as_bytes" and len(inner) == 4:
                    return ("call", "core::str::len", ()) + (inner[3],)
            return v
        return ("site", bi, names[-1] if names else "?")
    rv = payload["rv"]
    k = rv["k"]
    if k == "use":
        return vexpr(f, du, rv["op"], depth + 1)
    if k == "cast":
        return ("cast", rv.get("ty", ""), vexpr(f, du, rv["op"], depth + 1))
    if k in ("ref", "rawptr"):
        return ("ref", vplace(f, du, rv["place"], depth + 1))
    if k == "bin":
        op = _binop(rv["op"])
        a, b = vexpr(f, du, rv["l"], depth + 1), vexpr(f, du, rv["r"], depth + 1)
        if op in COMMUTATIVE and repr(b) < repr(a):
            a, b = b, a
        return (op, a, b)
    if k == "un":
        return ("un", rv["op"], vexpr(f, du, rv["x"], depth + 1))
    return ("unknown", l)


def v_known(v):
    if not isinstance(v, tuple):
        return True
    if v and v[0] == "unknown":
        return False
    return all(v_known(x) for x in v)


def v_subst(v, fn):
    """replace the ('param', i) leaves of a value expression"""
    if not isinstance(v, tuple):
        return v
    if len(v) == 2 and v[0] == "param":
        return fn(v[1])
    return tuple(v_subst(x, fn) for x in v)


def norm_hir(e, params):
    """structural normal form of a small HIR expression; locals are replaced by their type"""
    e = hir_strip(e)
    if e is None:
        return None
    k = e.get("k")
    if k == "bin":
        return ("bin", e["op"], norm_hir(e["l"], params), norm_hir(e["r"], params))
    if k == "mcall":
        return ("call", (hir_callee(e) or [e["name"]])[0], norm_hir(e["recv"], params)) + tuple(norm_hir(a, params) for a in e["args"])
    if k == "call":
        return ("call", (hir_callee(e) or ["?"])[0]) + tuple(norm_hir(a, params) for a in e["args"])
    if k == "path":
        r = e["path"]["res"]
        if r["k"] == "local":
            return ("local", e.get("ty", ""))
        return ("def", short(r.get("path", "")))
    if k == "lit":
        return ("lit", e["lit"].get("v"))
    if k == "cast":
        return ("cast", e.get("ty", ""), norm_hir(e["e"], params))
    if k == "field":
        return ("field", e["name"], norm_hir(e["e"], params))
    if k in ("addr_of",) or (k == "un" and e["op"] == "Deref"):
        return norm_hir(e["e"], params)
    return (k,)


def atomic_calls(fn, op_names, field):
    """call blocks of Atomic::<op> on (*self).<field>"""
    out = []
    du = DefUse(fn)
    for bi, t in mu.calls(fn):
        if not any(n.startswith("std::sync::atomic::Atomic") and n.rsplit("::", 1)[-1] in op_names for n in callee_names(t["func"])):
            continue
        a0 = op_local(t["args"][0]) if t["args"] else None
        if a0 is None:
            continue
        if mu.ref_of_field_chain(fn, du, a0, [field]):
            out.append((bi, t))
    return out


def rule_a(F):
    res = []
    fa, fd = F.fn(ALLOC), F.fn(DEALLOC)

    def charged(fn, op):
        # the expression passed as amount to fetch_add / fetch_sub, expanded through `let` bindings
        from cao import hirutil as hu
        inits = hu.let_inits(fn)
        for x in hir_walk(fn.hir["body"]):
            if x.get("k") == "mcall" and x["name"] == op:
                fc = hu.field_chain(x["recv"])
                if fc and fc[1][-1:] == ["allocated"]:
                    a = x["args"][0]
                    lid = hir_local_id(a)
                    if lid is not None and len(inits.get(lid, [])) == 1:
                        return norm_hir(inits[lid][0], None), x["ln"]
                    return norm_hir(a, None), x["ln"]
        return None, None
    ca, la = charged(fa, "fetch_add")
    cd, ld = charged(fd, "fetch_sub")
    fam, fdm = allocator_bodies(F)
    adds = atomic_calls(fam, ("fetch_add",), "allocated")
    subs = atomic_calls(fdm, ("fetch_sub",), "allocated")
    if ca is not None and cd is not None and ca != cd and len(adds) == 1 and len(subs) == 1:
        # written differently (one side through a helper or a `let`): compare the values on the bodies with the private
        # helpers inlined, parameters identified by their type
        va = v_subst(vexpr(fam, DefUse(fam), adds[0][1]["args"][1]), lambda i: ("param", fam.local_ty(i)))
        vd = v_subst(vexpr(fdm, DefUse(fdm), subs[0][1]["args"][1]), lambda i: ("param", fdm.local_ty(i)))
        if v_known(va) and va == vd:
            ca = cd = va
    if ca is None or cd is None:
        res.append(bad("C05.A", "C05/A/charge-symmetry", fa.loc(), "alloc must fetch_add and dealloc must fetch_sub the `allocated` counter (add=%s sub=%s)" % (ca is not None, cd is not None)))
    elif ca == cd:
        res.append(ok("C05.A", "C05/A/charge-symmetry", fa.loc(la), "alloc charges and dealloc refunds the same expression of the Layout", expr=str(ca)))
    else:
        res.append(bad("C05.A", "C05/A/charge-symmetry", fd.loc(ld), "alloc charges %s but dealloc refunds %s: the counter drifts with every object" % (ca, cd)))
    # every successful allocation is charged, every release is refunded (or neither, under the same condition)
    if adds and subs:
        cfa, cfd = fam.cfg, fdm.cfg
        ok_blocks = [bi for bi, b in enumerate(fam.blocks) if bi in cfa.reach and any(
            st["k"] == "assign" and st["place"]["l"] == 0 and not st["place"]["p"] and st["rv"]["k"] == "agg"
            and st["rv"]["agg"].get("variant") == "Ok" for st in b["stmts"])]
        if not ok_blocks:
            raise AnchorMissing("Ok(..) return in CaoLangAllocator::alloc")
        a_dom = all(any(cfa.dominates(ab, ob) for ab, _t in adds) for ob in ok_blocks)
        d_dom = all(any(cfd.dominates(sb, rb) for sb, _t in subs) for rb in cfd.return_blocks())
        key = "C05/A/every-allocation-charged-every-release-refunded"
        if a_dom and d_dom:
            res.append(ok("C05.A", key, fa.loc(), "the charge dominates every Ok return of alloc, the refund dominates every return of dealloc"))
        elif a_dom != d_dom:
            res.append(bad("C05.A", key, (fa if not a_dom else fd).loc(),
                           ("alloc can return Ok without charging `allocated` (e.g. an early return for a special layout) while dealloc "
                            "always refunds: every release of such a block lowers the counter below the bytes really outstanding, the "
                            "limit is exceeded and the counter underflows after clear") if not a_dom else
                           "dealloc can return without refunding what alloc always charges: the counter only grows"))
        else:
            res.append(undecided("C05.A", key, fa.loc(), "both the charge and the refund are conditional; their conditions are not compared"))
    # who may touch the counters
    for field in ("allocated", "next_gc", "limit"):
        writers = set()
        for f in F.fns:
            if not f.mir:
                continue
            if atomic_calls(f, ("store", "fetch_add", "fetch_sub", "swap", "fetch_max", "fetch_min", "compare_exchange"), field):
                writers.add(f.root or f.short)
        # the counters are private state of the allocator: only its own methods (and set_memory_limit for `limit`) write them
        allowed = set(w for w in writers if w.startswith("alloc::caolang_alloc::CaoLangAllocator::"))
        if field == "limit":
            allowed |= {"vm::runtime::RuntimeData::set_memory_limit"}
        if field == "allocated":
            allowed = {ALLOC, DEALLOC}
        extra = sorted(w for w in writers if w not in allowed)
        if extra:
            res.append(bad("C05.A", "C05/A/writers/%s" % field, "", "allocator counter `%s` is written outside the allocator: %s" % (field, extra)))
        else:
            res.append(ok("C05.A", "C05/A/writers/%s" % field, "", "`%s` written only by %s" % (field, sorted(writers))))
    return res


def rule_f(F):
    res = []
    fa = allocator_bodies(F)[0]
    cfg = fa.cfg
    adds = atomic_calls(fa, ("fetch_add",), "allocated")
    subs = atomic_calls(fa, ("fetch_sub",), "allocated")
    if not adds:
        raise AnchorMissing("fetch_add on `allocated` in CaoLangAllocator::alloc")
    err = mu.error_exit_blocks(fa)
    err = set(b for b in err if any(st["k"] == "assign" and st["place"]["l"] == 0 and mu.is_err_aggregate(st["rv"]) for st in fa.blocks[b]["stmts"]))
    add_b = adds[0][0]
    sub_bs = set(b for b, _t in subs)
    reach_err = [e for e in err if e in cfg.reachable_from(add_b)]
    if not reach_err:
        res.append(ok("C05.F", "C05/F/alloc/refund-on-failure", fa.loc(), "no failure exit after the charge"))
        return res
    leaks = [e for e in reach_err if not cfg.every_path_passes(cfg.succ[add_b][0], {e}, sub_bs)]
    if leaks:
        res.append(bad("C05.F", "C05/F/alloc/refund-on-failure", fa.loc(_first_ln(fa, leaks[0])),
                       "alloc returns Err after fetch_add without a fetch_sub: every refused allocation inflates `allocated` for good, "
                       "so later (smaller) requests are refused although memory is free"))
    else:
        res.append(ok("C05.F", "C05/F/alloc/refund-on-failure", fa.loc(), "every Err path after the charge refunds it", err_exits=len(reach_err)))
    return res


def _first_ln(fn, b):
    for st in fn.blocks[b]["stmts"]:
        if st.get("ln"):
            return st["ln"]
    return fn.blocks[b]["term"].get("ln")


def reaching(fn, du, local, use_block):
    """definitions of `local` that reach `use_block` (block granularity: a definition is killed by another one that lies
    on every path from it to the use)"""
    defs = du.defs.get(local, [])
    if len(defs) <= 1 or use_block is None:
        return defs
    cfg = fn.cfg
    blocks = set(d[0] for d in defs)
    out = []
    for d in defs:
        others = blocks - {d[0]}
        if d[0] == use_block:
            out.append(d)
            continue
        if use_block in others:
            continue
        starts = cfg.succ[d[0]]
        if any(use_block == s_ or use_block in cfg.reachable_from(s_, avoid=others) for s_ in starts if s_ not in others):
            out.append(d)
    return out


def slice_leaves(fn, du, local, depth=0, seen=None, use_block=None):
    """Backward slice of a scalar: returns list of ('call', block, term) / ('place', place) / ('const', v) leaves.
    Only definitions that reach the use are followed."""
    if seen is None:
        seen = set()
    if local in seen or depth > 12:
        return []
    seen.add(local)
    out = []
    for (bi, si, kind, payload) in reaching(fn, du, local, use_block):
        if kind == "call":
            names = callee_names(payload["func"])
            if any(n.rsplit("::", 1)[-1] in ("max", "min", "saturating_mul", "saturating_add", "wrapping_mul", "wrapping_add", "checked_mul",
                                             "unwrap_or", "clamp", "saturating_sub") for n in names):
                for a in payload["args"]:
                    l = op_local(a)
                    if l is not None:
                        out.extend(slice_leaves(fn, du, l, depth + 1, seen, bi))
            else:
                out.append(("call", bi, payload))
            continue
        rv = payload["rv"]
        k = rv["k"]
        ops = []
        if k in ("use", "cast"):
            ops = [rv["op"]]
        elif k == "bin":
            ops = [rv["l"], rv["r"]]
        elif k == "un":
            ops = [rv["x"]]
        for o in ops:
            if o.get("k") == "const":
                out.append(("const", o.get("val")))
                continue
            p = op_place(o)
            if p is None:
                continue
            if p["p"] and not all(e["k"] == "field" and e["name"] in ("0", "1") for e in p["p"]):
                out.append(("place", p))
            else:
                out.extend(slice_leaves(fn, du, p["l"], depth + 1, seen, bi))
    return out


def value_id(fn, du, op, at_block, path_blocks):
    """Identity of the value an operand denotes on a given path: constants by value, locals by (local, defining block on
    the path) after following plain copies."""
    if op.get("k") == "const":
        return ("const", op.get("val"))
    p = op_place(op)
    if p is None or p["p"]:
        return ("?", id(op))
    l = p["l"]
    for _ in range(10):
        defs = [d for d in du.defs.get(l, []) if d[0] in path_blocks]
        if not defs:
            return ("local", l, None)
        # the last definition on the path before at_block
        order = {b: n for n, b in enumerate(path_blocks)}
        limit_n = order.get(at_block, len(path_blocks))
        defs = [d for d in defs if order[d[0]] <= limit_n]
        if not defs:
            return ("local", l, None)
        d = max(defs, key=lambda d: order[d[0]])
        if d[2] == "assign" and d[3]["rv"]["k"] == "use":
            q = op_place(d[3]["rv"]["op"])
            if q is not None and not q["p"]:
                l = q["l"]
                at_block = d[0]
                continue
            if d[3]["rv"]["op"].get("k") == "const":
                return ("const", d[3]["rv"]["op"].get("val"))
        return ("def", l, d[0], d[1] if d[1] != "term" else -1)
    return ("?", l)


def feasible_path_avoiding(fn, du, target, avoid):
    """Is there a path entry -> target that avoids `avoid` and on which no comparison of the same two values is required
    to have two different outcomes? (syntactic contradiction check, no arithmetic reasoning)"""
    cfg = fn.cfg
    if target not in cfg.reachable_from(0, avoid=avoid):
        return False
    # enumerate simple paths (the allocator is loop-free apart from tracing boilerplate, which we cut at 4000 paths)
    stack = [(0, [0])]
    n = 0
    while stack:
        b, path = stack.pop()
        n += 1
        if n > 20000:
            return True
        if b == target:
            if not contradictory(fn, du, path):
                return True
            continue
        for s_ in cfg.succ[b]:
            if s_ in avoid or s_ in path:
                continue
            if target not in cfg.reachable_from(s_, avoid=avoid):
                continue
            stack.append((s_, path + [s_]))
    return False


def _comparison_of(fn, du, cond, block):
    """the comparison statement that computes the bool `cond` tested in `block`: in the block itself, or - through plain
    copies of single-assignment locals - wherever it was evaluated (`let over = a > b; .. if over`). -> (block, stmt)"""
    for _ in range(6):
        st = None
        for s_ in fn.blocks[block]["stmts"]:
            if s_["k"] == "assign" and s_["place"]["l"] == cond and not s_["place"]["p"]:
                st = s_
        if st is None:
            d = du.sole_def(cond)
            if d is None or d[2] != "assign":
                return None
            block, st = d[0], d[3]
        rv = st["rv"]
        if rv["k"] == "bin" and rv["op"] in ("Gt", "Lt", "Ge", "Le", "Eq", "Ne"):
            return block, st
        if rv["k"] == "use" and op_local(rv["op"]) is not None:
            cond = op_local(rv["op"])
            continue
        return None
    return None


def contradictory(fn, du, path):
    """does the path require one comparison of the same two values to come out both ways? Comparisons are normalised to
    `a > b` / `a == b` (a <= b is !(a > b), a < b is b > a, a >= b is !(b > a))."""
    facts = {}
    pos = {b: n for n, b in enumerate(path)}
    for n, b in enumerate(path[:-1]):
        t = fn.blocks[b]["term"]
        if t["k"] != "switch":
            continue
        cond = op_local(t["discr"])
        found = _comparison_of(fn, du, cond, b) if cond is not None else None
        if found is None:
            continue
        cb, st = found
        if cb not in pos or pos[cb] > n:
            continue
        nxt = path[n + 1]
        zero = dict((v, bb) for v, bb in t["targets"]).get(0)
        outcome = not (nxt == zero)
        if zero is not None and nxt == zero and t["otherwise"] == zero:
            continue
        a, c = value_id(fn, du, st["rv"]["l"], cb, path), value_id(fn, du, st["rv"]["r"], cb, path)
        if "?" in (a[0], c[0]):
            continue
        op = st["rv"]["op"]
        if op == "Lt":
            op, a, c = "Gt", c, a
        elif op == "Le":
            op, outcome = "Gt", not outcome
        elif op == "Ge":
            op, a, c, outcome = "Gt", c, a, not outcome
        elif op == "Ne":
            op, outcome = "Eq", not outcome
        if op == "Eq" and repr(c) < repr(a):
            a, c = c, a
        keys = [(op, a, c)]
        if op == "Gt" and not outcome:
            # !(a > min(u, v)) implies !(a > u) and !(a > v);  !(max(u, v) > c) implies !(u > c) and !(v > c)
            keys += [("Gt", a, m) for m in _minmax_parts(fn, du, c, path, "min")]
            keys += [("Gt", m, c) for m in _minmax_parts(fn, du, a, path, "max")]
        for key in keys:
            if key in facts and facts[key] != outcome:
                return True
        for key in keys[1:]:
            facts.setdefault(key, outcome)
        facts[keys[0]] = outcome
    # a later test may be the one that is implied: !(a > u) recorded after !(a > min(u, v)) is handled above; the converse
    # order (a > u seen first, then !(a > min(u, v))) is caught by the membership test of the derived keys
    return False


def _minmax_parts(fn, du, vid, path, which):
    """value ids of u and v when the value identified by `vid` is min(u, v) / max(u, v) (std::cmp / Ord)"""
    if vid[0] != "def" or vid[3] != -1:
        return []
    for (bi, si, kind, payload) in du.defs.get(vid[1], []):
        if bi == vid[2] and kind == "call":
            names = callee_names(payload["func"])
            if any(n.rsplit("::", 1)[-1] == which and (n.startswith("std::cmp::") or "as std::cmp::Ord>" in n or n.startswith("core::cmp::")) for n in names) \
                    and len(payload["args"]) == 2:
                parts = [value_id(fn, du, a, bi, path) for a in payload["args"]]
                return [p_ for p_ in parts if p_[0] != "?"]
    return []


def rule_g(F):
    res = []
    fa = allocator_bodies(F)[0]
    cfg = fa.cfg
    du = DefUse(fa)
    gc_blocks = [bi for bi, t in mu.calls(fa) if "vm::runtime::RuntimeData::gc" in callee_names(t["func"])]
    oom = [b for b in range(len(fa.blocks)) if any(st["k"] == "assign" and st["place"]["l"] == 0 and mu.is_err_aggregate(st["rv"]) for st in fa.blocks[b]["stmts"])]
    oom = [b for b in oom if b in cfg.reach]
    if not gc_blocks:
        res.append(bad("C05.G", "C05/G/alloc/collects", fa.loc(), "CaoLangAllocator::alloc never calls RuntimeData::gc"))
        return res
    if not oom:
        res.append(note("C05.G", "C05/G/alloc/oom-after-gc", fa.loc(), "alloc has no OutOfMemory exit"))
    else:
        no_gc = [e for e in oom if feasible_path_avoiding(fa, du, e, set(gc_blocks))]
        if no_gc:
            res.append(bad("C05.G", "C05/G/alloc/oom-after-gc", fa.loc(_first_ln(fa, no_gc[0])),
                           "OutOfMemory is returned on a path that never attempted a collection: a program whose garbage alone exceeds the "
                           "limit is refused although its live data would fit"))
        else:
            res.append(ok("C05.G", "C05/G/alloc/oom-after-gc", fa.loc(), "every OutOfMemory exit is preceded by a collection"))
    stores = atomic_calls(fa, ("store",), "next_gc")
    if not stores:
        res.append(undecided("C05.G", "C05/G/alloc/threshold-from-post-gc-usage", fa.loc(), "no store to next_gc in alloc"))
    for bi, t in stores:
        v = op_local(t["args"][1])
        leaves = slice_leaves(fa, du, v, use_block=bi) if v is not None else []
        usage = []
        for lf in leaves:
            if lf[0] == "call":
                nm = callee_names(lf[2]["func"])
                if any(n.startswith("std::sync::atomic::Atomic") for n in nm):
                    a0 = op_local(lf[2]["args"][0])
                    if a0 is not None and mu.ref_of_field_chain(fa, du, a0, ["allocated"]):
                        usage.append(lf[1])
        if not usage:
            res.append(undecided("C05.G", "C05/G/alloc/threshold-from-post-gc-usage", fa.loc(t.get("ln")), "next_gc is not derived from `allocated`"))
            continue
        pre = [u for u in usage if not any(cfg.dominates(g, u) and g != u for g in gc_blocks)]
        if pre:
            res.append(bad("C05.G", "C05/G/alloc/threshold-from-post-gc-usage", fa.loc(t.get("ln")),
                           "next_gc is computed from the usage measured *before* the collection (garbage included): it ratchets up towards "
                           "the limit, after which no collection ever runs again and pure garbage exhausts the memory limit"))
        else:
            res.append(ok("C05.G", "C05/G/alloc/threshold-from-post-gc-usage", fa.loc(t.get("ln")), "next_gc derives from `allocated` re-read after gc()"))
    return res


def rule_q(F):
    """C05.Q: the refusal test covers the request. Every comparison of the usage with the limit in CaoLangAllocator::alloc
    compares `usage that includes the pending request`: on every definition reaching the comparison the value is either
    an explicit sum with the request size, or a read of `allocated` taken after the request was charged to it (fetch_add
    dominating the read). A test on the survivors alone admits a request that takes the accounted usage past the limit."""
    res = []
    fa = allocator_bodies(F)[0]
    cfg = fa.cfg
    du = DefUse(fa)
    charges = atomic_calls(fa, ("fetch_add",), "allocated")

    def req_derived(l, at, depth=0):
        """is local l computed from the Layout (size/align) only?"""
        leaves = slice_leaves(fa, du, l, use_block=at)
        if not leaves:
            return False
        for lf in leaves:
            if lf[0] == "call" and any(n.startswith("std::alloc::Layout::") for n in callee_names(lf[2]["func"])):
                continue
            if lf[0] == "const":
                continue
            return False
        return any(lf[0] == "call" for lf in leaves)

    charged_blocks = [bi for bi, t in charges if op_local(t["args"][1]) is not None and req_derived(op_local(t["args"][1]), bi)]

    def includes(l, at, depth=0, seen=None):
        """every definition of l reaching block `at` carries the request; returns (bool, why)"""
        seen = seen or set()
        if depth > 10 or (l, at) in seen:
            return False, "cyclic definition"
        seen = seen | {(l, at)}
        defs = reaching(fa, du, l, at)
        if not defs:
            return False, "no definition"
        for (bi, si, kind, payload) in defs:
            if kind == "call":
                names = callee_names(payload["func"])
                a0 = op_local(payload["args"][0]) if payload["args"] else None
                if any(n.startswith("std::sync::atomic::Atomic") and n.rsplit("::", 1)[-1] == "load" for n in names) and \
                        a0 is not None and mu.ref_of_field_chain(fa, du, a0, ["allocated"]):
                    if any(c != bi and cfg.dominates(c, bi) for c in charged_blocks):
                        continue
                    return False, "the value of `allocated` read at line %s does not contain the request (it is charged later or never)" % payload.get("ln")
                return False, "call result %s" % (names[0] if names else "?")
            rv = payload["rv"]
            k = rv["k"]
            if k in ("use", "cast"):
                p = op_place(rv["op"])
                if p is None:
                    return False, "constant"
                good, why = includes(p["l"], bi, depth + 1, seen)
                if not good:
                    return False, why
            elif k == "bin" and rv["op"] in ("Add", "AddWithOverflow", "AddUnchecked"):
                ls = [op_local(rv["l"]), op_local(rv["r"])]
                if any(x is not None and req_derived(x, bi) for x in ls):
                    continue
                sub = [includes(x, bi, depth + 1, seen) for x in ls if x is not None]
                if not any(g for g, _ in sub):
                    return False, (sub[0][1] if sub else "sum of constants")
            else:
                return False, "computed by %s" % (rv.get("op") or k)
        return True, ""

    n = 0
    for bi, b in enumerate(fa.blocks):
        if bi not in cfg.reach:
            continue
        for st in b["stmts"]:
            if st["k"] != "assign" or st["rv"]["k"] != "bin" or st["rv"]["op"] not in ("Gt", "Ge", "Lt", "Le"):
                continue
            sides = [op_local(st["rv"]["l"]), op_local(st["rv"]["r"])]
            if None in sides:
                continue

            def is_limit(l):
                lv = slice_leaves(fa, du, l, use_block=bi)
                return bool(lv) and all(lf[0] == "call" and any(n.rsplit("::", 1)[-1] == "load" for n in callee_names(lf[2]["func"])) and
                                        op_local(lf[2]["args"][0]) is not None and
                                        mu.ref_of_field_chain(fa, du, op_local(lf[2]["args"][0]), ["limit"]) for lf in lv)
            if is_limit(sides[0]) == is_limit(sides[1]):
                continue
            usage = sides[1] if is_limit(sides[0]) else sides[0]
            key = "C05/Q/alloc/limit-test%s-includes-the-request" % ("" if n == 0 else "#%d" % n)
            n += 1
            good, why = includes(usage, bi)
            if good:
                res.append(ok("C05.Q", key, fa.loc(st.get("ln")), "the usage compared with the limit contains the request on every reaching definition"))
            else:
                res.append(bad("C05.Q", key, fa.loc(st.get("ln")),
                               "CaoLangAllocator::alloc compares a usage with the limit that does not contain the pending request (%s): after a "
                               "collection the survivors alone are tested, the request is then granted and charged, and the accounted usage "
                               "exceeds the configured limit by up to one request" % why))
    if n < 1:
        raise AnchorMissing("comparisons of the usage with the limit in CaoLangAllocator::alloc (found %d)" % n)
    return res


def is_alloc(t):
    return any(n in (ALLOC, "alloc::Allocator::alloc") or n.endswith("as alloc::Allocator>::alloc") for n in callee_names(t["func"]))


def _is_dealloc_name(n):
    return n in (DEALLOC, "alloc::Allocator::dealloc") or n.endswith("as alloc::Allocator>::dealloc")


def is_dealloc(t):
    return any(_is_dealloc_name(n) for n in callee_names(t["func"]))


# ---------------------------------------------------------------------------------------------------
# C05.O  who owns a pointer obtained from the accounting allocator
# ---------------------------------------------------------------------------------------------------

# std adaptors whose result carries the pointer (or the Result/Option around it) that went in
THROUGH = ("map_err", "branch", "cast", "as_ptr", "as_mut", "as_ref", "unwrap", "expect", "unwrap_unchecked", "ok_or", "ok_or_else",
           "new", "new_unchecked", "ok", "into", "from", "from_output", "add", "offset", "cast_mut", "cast_const", "inspect_err")
FAIL_VARIANTS = ("Err", "Break", "None")
FAIL_DISCR = {"std::result::Result": 1, "std::ops::ControlFlow": 1, "std::option::Option": 0}


def _adt_of(ty):
    return re.sub(r"<.*$", "", ty or "").lstrip("&").replace("mut ", "").strip()


def place_reads(place, T):
    """does reading `place` read (part of) a tainted local - the payload of a failure variant excepted"""
    return place["l"] in T and not any(e["k"] == "downcast" and e.get("variant") in FAIL_VARIANTS for e in place["p"])


def field_origin(f, du, op):
    """name of the struct field an operand was read from (through copies, casts and pointer adaptors)"""
    for _ in range(12):
        p = op_place(op)
        if p is None:
            return None
        names = [e["name"] for e in p["p"] if e["k"] == "field"]
        if names:
            return names[-1]
        d = du.sole_def(p["l"])
        if d is None:
            return None
        if d[2] == "call":
            if not d[3]["args"] or not any(n.rsplit("::", 1)[-1] in THROUGH for n in callee_names(d[3]["func"])):
                return None
            op = d[3]["args"][0]
            continue
        rv = d[3]["rv"]
        if rv["k"] in ("use", "cast"):
            op = rv["op"]
        elif rv["k"] in ("ref", "rawptr"):
            op = {"k": "copy", "place": rv["place"]}
        else:
            return None
    return None


def layout_capv(f, du, local, F=None):
    """value expression of the element count a Layout was built for; None when the layout has no run-time size. A crate
    function that returns a Layout and takes one value is a layout constructor whatever it is called: the layout is a
    function of that argument."""
    seen = set()
    for _ in range(14):
        if local is None or local in seen:
            return ("unknown", "layout")
        seen.add(local)
        ds = du.defs.get(local, [])
        if not ds and 1 <= local <= f.mir["arg_count"]:
            return ("unknown", "layout parameter")
        if len(ds) != 1:
            return ("unknown", "layout")
        _bi, _si, kind, payload = ds[0]
        if kind == "call":
            nm = callee_names(payload["func"])
            last = nm[0].rsplit("::", 1)[-1]
            args = payload["args"]
            if last in ("unwrap", "expect", "branch", "clone", "unwrap_unchecked"):
                local = op_local(args[0]) if args else None
                continue
            if nm[0].endswith("Layout::new"):
                return None
            if nm[0].endswith("Layout::array") or any(n.endswith("::layout") for n in nm):
                return vexpr(f, du, args[0]) if args else None
            if nm[0].endswith("Layout::from_size_align"):
                size = vexpr(f, du, args[0])
                if size[0] == "Mul":
                    def is_sz(v):
                        return v[0] == "call" and "size_of" in v[1]
                    if is_sz(size[1]) != is_sz(size[2]):
                        return size[2] if is_sz(size[1]) else size[1]
                if size[0] == "call" and "size_of" in size[1]:
                    return None
                return size
            g = local_callee(F, payload) if F is not None else None
            if g is not None and "Layout" in (g.raw.get("sig") or {}).get("output", "") and len(args) == 1:
                return vexpr(f, du, args[0])
            return ("unknown", "layout")
        rv = payload["rv"]
        if rv["k"] in ("use", "cast"):
            p = op_place(rv["op"])
            if p is None and const_layout(F, rv["op"]) is not None:
                return None
            local = p["l"] if p is not None else None
            continue
        return ("unknown", "layout")
    return ("unknown", "layout")


def sig_decided(sig):
    return bool(sig) and sig[0] not in ("?", "param")


class Src:
    """one pointer obtained from the accounting allocator inside a function: a call of Allocator::alloc, or a call of a
    helper that returns such a pointer"""

    def __init__(self, f, block, term, allocs, via):
        self.f, self.block, self.term, self.allocs, self.via = f, block, term, allocs, via
        self.T = set()
        self.sinks = {}
        self.ret_blocks = set()
        self.leak = False
        self.leak_ln = None
        self.escapes = False
        self.listed = False
        self.mismatch = None


class FnOwn:
    def __init__(self, f):
        self.f = f
        self.sources = []
        self.returned = []      # [(layout signature, capacity value in terms of the parameters)] of the pointers handed to the caller


class Own:
    """Per-function ownership facts, helpers summarised once: which calls yield a pointer from the accounting allocator,
    where each pointer is released / handed to an owner / returned, and what a function does with a pointer parameter."""

    def __init__(self, F):
        self.F = F
        self.memo = {}
        self.active = set()
        self.pmemo = {}
        self._owners = None
        self._du = {}

    @staticmethod
    def of(F):
        o = getattr(F, "_c05_own", None)
        if o is None:
            o = Own(F)
            F._c05_own = o
        return o

    def du(self, f):
        d = self._du.get(id(f))
        if d is None:
            d = self._du[id(f)] = DefUse(f)
        return d

    # ---- types whose Drop gives memory back to the accounting allocator --------------------------------
    def owners(self):
        if self._owners is None:
            out = {}
            priv = private_helper(self.F, FORWARDERS + (ALLOC, DEALLOC))
            cg = self.F.callgraph

            def want(t):
                # follow Drop into private helpers that release memory; layout constructors stay calls (they are the signature)
                g = priv(t)
                if g is not None and any(_is_dealloc_name(n) for n in cg.reach(g.short)):
                    return g
                return None
            for d in self.F.trait_impl_fns("std::ops::Drop", "drop"):
                if not d.mir:
                    continue
                adt = _adt_of(d.raw.get("impl_self"))
                body = inlined(self.F, d, want)
                du = DefUse(body)
                for _bi, t in mu.calls(body):
                    if not is_dealloc(t):
                        continue
                    capv = layout_capv_op(self.F, body, du, t["args"][2])
                    sf = None
                    if capv and capv[0] == "place" and capv[1] == ("param", 1) and capv[2][-1][0] == "field":
                        sf = capv[2][-1][1]
                    out.setdefault(adt, []).append(dict(ptr_field=field_origin(body, du, t["args"][1]), size_field=sf, capv=capv,
                                                        sig=layout_sig_op(self.F, body, du, t["args"][2]), fn=d, ln=t.get("ln")))
            self._owners = out
        return self._owners

    # ---- taint ------------------------------------------------------------------------------------------
    def taint(self, f, seeds, transparent=False):
        """locals that hold the seeded pointer, a value derived from it, or something containing it. transparent=True: only
        through values that ARE the pointer as far as ownership goes - copies, casts, std adaptors, tuples and std wrappers
        (Ok / Some); a struct of the crate that merely contains the pointer is a handle, not the pointer."""
        T = set(seeds)
        changed = True
        while changed:
            changed = False
            for b in f.blocks:
                for st in b["stmts"]:
                    if st["k"] != "assign" or st["place"]["l"] in T:
                        continue
                    rv = st["rv"]
                    if rv["k"] in ("use", "cast", "repeat", "agg"):
                        reads = [op_place(o) for o in (rv["ops"] if rv["k"] == "agg" else [rv["op"]])]
                    elif rv["k"] in ("ref", "rawptr"):
                        reads = [rv["place"]]
                    else:
                        continue
                    if transparent and rv["k"] == "agg" and not (rv["agg"]["k"] in ("tuple", "array") or (
                            rv["agg"]["k"] == "adt" and rv["agg"].get("path", "").startswith(("std::", "core::")))):
                        continue
                    if any(p is not None and place_reads(p, T) for p in reads):
                        T.add(st["place"]["l"])
                        changed = True
                t = b["term"]
                if t["k"] != "call" or t["dest"]["l"] in T:
                    continue
                hit = [i for i, a in enumerate(t["args"]) if op_place(a) is not None and place_reads(op_place(a), T)]
                if not hit:
                    continue
                names = callee_names(t["func"])
                g = local_callee(self.F, t)
                if g is not None:
                    carries = any(self.flows_to_return(g, i + 1, transparent) for i in hit) and not is_alloc(t) and not is_dealloc(t)
                else:
                    carries = any(n.rsplit("::", 1)[-1] in THROUGH for n in names)
                if carries:
                    T.add(t["dest"]["l"])
                    changed = True
        return T

    def flows_to_return(self, g, i, transparent=False):
        key = ("ret", g.short, i, transparent)
        if key in self.pmemo:
            return self.pmemo[key]
        if key in self.active or g.short in FORWARDERS:
            return False
        self.active.add(key)
        try:
            T = self.taint(g, {i}, transparent)
            r = 0 in T
        finally:
            self.active.discard(key)
        self.pmemo[key] = r
        return r

    # ---- where a tainted pointer stops being this function's responsibility -----------------------------
    def sinks_for(self, f, T):
        du = self.du(f)
        sinks = {}
        owners = self.owners()
        for bi, b in enumerate(f.blocks):
            for st in b["stmts"]:
                if st["k"] != "assign":
                    continue
                rv = st["rv"]
                if rv["k"] == "agg" and rv["agg"]["k"] == "adt" and short(rv["agg"]["path"]) in owners:
                    fields = rv["agg"].get("fields", [])
                    for o in owners[short(rv["agg"]["path"])]:
                        if o["ptr_field"] in fields:
                            p = op_place(rv["ops"][fields.index(o["ptr_field"])])
                            if p is not None and place_reads(p, T):
                                sinks[bi] = ("owner", short(rv["agg"]["path"]), st.get("ln"))
            t = b["term"]
            if t["k"] != "call":
                continue
            args = t["args"]

            def tainted(i):
                p = op_place(args[i]) if i < len(args) else None
                return p is not None and place_reads(p, T)
            nm = callee_names(t["func"])
            if is_dealloc(t):
                if tainted(1):
                    sinks[bi] = ("dealloc", layout_sig_op(self.F, f, du, args[2]), t.get("ln"))
                continue
            if is_alloc(t):
                continue
            if any(x.startswith("std::vec::Vec::") and x.endswith("::push") for x in nm):
                a0 = op_local(args[0])
                if a0 is not None and mu.ref_of_field_chain(f, du, a0, ["object_list"]) and tainted(1):
                    sinks[bi] = ("list", None, t.get("ln"))
                continue
            g = local_callee(self.F, t)
            if g is None or g.short in FORWARDERS:
                continue
            for i in range(len(args)):
                if tainted(i):
                    pf = self.param_flow(g, i + 1)
                    if pf is not None:
                        sinks[bi] = (pf[0], pf[1], t.get("ln"))
                        break
        return sinks

    def param_flow(self, g, i):
        """what g does with the pointer it receives as parameter i on EVERY path to its return: ('dealloc', layout) /
        ('list', None) it ends up in object_list / ('owner', type) / None (not on every path, or nothing)"""
        key = ("param", g.short, i)
        if key in self.pmemo:
            return self.pmemo[key]
        if key in self.active:
            return None
        self.active.add(key)
        try:
            r = None
            if g.short == FREE_OBJECT:
                r = ("dealloc", ("?",))
            else:
                T = self.taint(g, {i})
                sinks = self.sinks_for(g, T)
                if sinks:
                    _seen, rets = _search(g, 0, set(sinks), ())
                    if not rets:
                        kinds = set(k for k, _d, _l in sinks.values())
                        first = sinks[min(sinks)]
                        if kinds == {"dealloc"}:
                            sigs = set(d for _k, d, _l in sinks.values())
                            r = ("dealloc", first[1] if len(sigs) == 1 else ("?",))
                        elif "list" in kinds:
                            r = ("list", None)
                        else:
                            r = ("owner", first[1])
        finally:
            self.active.discard(key)
        self.pmemo[key] = r
        return r

    # ---- per function -----------------------------------------------------------------------------------
    def info(self, f):
        if f.short in self.memo:
            return self.memo[f.short]
        out = FnOwn(f)
        if f.short in self.active or not f.mir:
            return out
        self.active.add(f.short)
        try:
            du = self.du(f)
            cfg = f.cfg
            for bi, t in mu.calls(f):
                if bi not in cfg.reach or t["target"] is None or is_dealloc(t):
                    continue
                allocs, via = None, None
                if is_alloc(t):
                    allocs = [(layout_sig_op(self.F, f, du, t["args"][1]), layout_capv_op(self.F, f, du, t["args"][1]))]
                else:
                    g = local_callee(self.F, t)
                    if g is not None and g.short != f.short and g.short not in FORWARDERS:
                        gi = self.info(g)
                        if gi.returned:
                            argv = [vexpr(f, du, a) for a in t["args"]]

                            def at_call(i, argv=argv):
                                return argv[i - 1] if 1 <= i <= len(argv) else ("unknown", "parameter")
                            allocs = [(sig, None if capv is None else v_subst(capv, at_call)) for sig, capv in gi.returned]
                            via = g
                if allocs is None:
                    continue
                src = Src(f, bi, t, allocs, via)
                self.decide(src)
                out.sources.append(src)
                if src.escapes:
                    out.returned.extend(src.allocs)
        finally:
            self.active.discard(f.short)
        self.memo[f.short] = out
        return out

    def fail_edges(self, f, T, src_block):
        """edges taken only when the allocation itself failed: the Err / None / Break arm of a switch on the discriminant of
        a value all of whose definitions come from the allocation"""
        du = self.du(f)
        out = set()
        for bi, b in enumerate(f.blocks):
            t = b["term"]
            if t["k"] != "switch":
                continue
            d = op_local(t["discr"])
            dd = du.sole_def(d) if d is not None else None
            if dd is None or dd[2] != "assign" or dd[3]["rv"]["k"] != "discr":
                continue
            rv = dd[3]["rv"]
            x = rv["place"]
            fail = FAIL_DISCR.get(short(rv.get("adt", "")))
            if fail is None or x["p"] or x["l"] not in T:
                continue
            pure = True
            for (db, _si, kind, payload) in du.defs.get(x["l"], []):
                if kind == "call":
                    if db == src_block:
                        continue
                    if not any(op_place(a) is not None and place_reads(op_place(a), T) for a in payload["args"]):
                        pure = False
                else:
                    rr = payload["rv"]
                    reads = [op_place(o) for o in (rr["ops"] if rr["k"] == "agg" else [rr.get("op")] if rr["k"] in ("use", "cast") else [])]
                    if payload["place"]["p"] or not any(p is not None and place_reads(p, T) for p in reads):
                        pure = False
            if not pure:
                continue
            tm = dict((v, bb) for v, bb in t["targets"])
            tgt = tm.get(fail, t["otherwise"])
            okt = [bb for v, bb in t["targets"] if v != fail]
            if tgt not in okt:
                out.add((bi, tgt))
        return out

    def decide(self, src):
        f = src.f
        src.T = self.taint(f, {src.term["dest"]["l"]})
        sinks = self.sinks_for(f, src.T)
        sigs = [s_ for s_, _c in src.allocs if sig_decided(s_)]
        for b, (kind, detail, ln) in list(sinks.items()):
            if kind == "dealloc" and sig_decided(detail) and sigs and detail not in sigs:
                src.mismatch = (detail, ln)
                del sinks[b]
        src.sinks = sinks
        src.listed = any(k == "list" for k, _d, _l in sinks.values())
        # the pointer itself (in a tuple / Ok / Some at most, not inside a handle struct of the crate) becomes the result
        TR = self.taint(f, {src.term["dest"]["l"]}, transparent=True)
        for bi, b in enumerate(f.blocks):
            for st in b["stmts"]:
                if st["k"] == "assign" and st["place"]["l"] == 0 and 0 in TR:
                    rv = st["rv"]
                    reads = [op_place(o) for o in (rv["ops"] if rv["k"] == "agg" else [rv.get("op")] if rv["k"] in ("use", "cast") else [])]
                    if any(p is not None and place_reads(p, TR) for p in reads):
                        src.ret_blocks.add(bi)
            t = b["term"]
            if t["k"] == "call" and t["dest"]["l"] == 0 and 0 in TR and \
                    any(op_place(a) is not None and place_reads(op_place(a), TR) for a in t["args"]):
                src.ret_blocks.add(bi)
        forbidden = self.fail_edges(f, src.T, src.block)
        stops = set(sinks) | src.ret_blocks
        seen, rets = _search(f, src.term["target"], stops, forbidden)
        src.escapes = bool(seen & (src.ret_blocks - set(sinks)))
        if rets:
            src.leak = True
            errs = mu.error_exit_blocks(f)
            lines = sorted(x for x in (_first_ln(f, b) if f.blocks[b]["term"]["k"] != "call" else f.blocks[b]["term"].get("ln")
                                       for b in seen if b in errs and f.blocks[b]["term"].get("target", 0) is not None) if x)
            later = [x for x in lines if x > (src.term.get("ln") or 0)]
            src.leak_ln = (later or lines or [None])[0]


def _search(f, start, stops, forbidden):
    """blocks reachable from start without continuing past a block of `stops` and without taking a forbidden edge;
    second result: the return blocks reached"""
    cfg = f.cfg
    seen, dq, rets = {start}, [start], []
    while dq:
        b = dq.pop()
        if b in stops:
            continue
        if f.blocks[b]["term"]["k"] == "return":
            rets.append(b)
            continue
        for s_ in cfg.succ[b]:
            if (b, s_) in forbidden or s_ in seen:
                continue
            seen.add(s_)
            dq.append(s_)
    return seen, rets


def object_list_types(F):
    """the type(s) holding `object_list`, the list of everything the VM must eventually free"""
    out = set()
    for path, a in F.adts.items():
        for v in a.get("variants", []):
            if any(fd.get("name") == "object_list" for fd in v.get("fields", [])):
                out.add(path)
    if not out:
        raise AnchorMissing("a type with an `object_list` field")
    return out


def rule_o(F):
    """C05.O: every pointer a method of the runtime obtains from the accounting allocator - directly or from a helper that
    returns one - is, on every exit of that method other than the failure of that very allocation, released (dealloc,
    directly or in a helper), handed to an owner (pushed on object_list; stored in a value whose Drop releases it), or
    returned to the caller (then the caller is held to the same)."""
    res = []
    own = Own.of(F)
    rts = object_list_types(F)
    cells = 0
    cell_n = {}

    def cell_key(name):
        n = cell_n.get(name, 0)
        cell_n[name] = n + 1
        return "C05/O/%s%s" % (name, "" if n == 0 else "#%d" % n)

    def is_method(g):
        return g is not None and g.mir and not g.is_closure and not g.raw.get("impl_trait") and _adt_of(g.raw.get("impl_self")) in rts

    def stands_for(h, src, hkey, depth=0):
        """A private method that allocates the cell AND owns or releases it on all of its exits is decided once (above); every
        method of the runtime that obtains its object from it is an instance with the helper's verdict - it receives a
        registered object, there is nothing left it could leak."""
        if h.raw.get("vis") == "Public" or depth > 3:
            return 0
        n = 0
        for caller, _bi, ct in call_sites_of(F, h):
            g = F.fn(caller, required=False)
            if not is_method(g):
                continue
            key = cell_key(g.name)
            n += 1
            if src.leak:
                res.append(bad("C05.O", key, g.loc(ct.get("ln")), "%s creates its object through %s, which allocates the object cell and can return "
                               "without releasing it or handing it to an owner (see %s): the memory stays charged and is owned by nothing"
                               % (g.name, h.name, hkey)))
            else:
                res.append(ok("C05.O", key, g.loc(ct.get("ln")), "obtains its object from %s, where the cell reaches object_list.push or dealloc "
                              "on every exit (%s)" % (h.name, hkey), via=h.short))
            n += stands_for(g, src, key, depth + 1)
        return n
    for f in F.fns:
        if not f.mir or f.is_closure or f.raw.get("impl_trait") or _adt_of(f.raw.get("impl_self")) not in rts or f.short in FORWARDERS:
            continue
        srcs = [s_ for s_ in own.info(f).sources if s_.leak or not s_.escapes]
        if any(s_.escapes and not s_.leak for s_ in own.info(f).sources) and not call_sites_of(F, f):
            # handed to callers outside the crate: nobody inside is responsible for it
            mk = note if f.short in HOST_ONLY else undecided
            res.append(mk("C05.O", "C05/O/%s/returned" % f.name, f.loc(), "%s returns memory of the accounting allocator to its caller and has "
                          "no caller inside the crate: its release cannot be decided here" % f.name))
        if not srcs:
            continue
        prim = [s_ for s_ in srcs if s_.listed] or srcs[:1]
        n_o = 0
        for s_ in srcs:
            if s_ in prim:
                key = cell_key(f.name)
                what = "the object cell"
                cells += 1
            else:
                key = "C05/O/%s/payload%s" % (f.name, "" if n_o == 0 else "#%d" % n_o)
                n_o += 1
                what = "a buffer"
            ln = s_.term.get("ln")
            if s_.leak:
                extra = ""
                if s_.mismatch:
                    extra = " (the release at line %s uses another layout, %s, than the allocation)" % (s_.mismatch[1], s_.mismatch[0],)
                how = ("then returns early (line %s) when a later step fails" % s_.leak_ln) if s_.leak_ln else "and can return"
                res.append(bad("C05.O", key, f.loc(s_.leak_ln or ln),
                               "%s allocates %s (line %s), %s without releasing it or handing it to an owner%s: the memory stays charged "
                               "and is owned by nothing (neither a collection nor clear() frees it), so accounted memory no longer "
                               "returns to zero when the VM is cleared" % (f.name, what, ln, how, extra)))
            else:
                kinds = sorted(set(k for k, _d, _l in s_.sinks.values()))
                res.append(ok("C05.O", key, f.loc(ln), "%s reaches object_list.push, an owner that releases it, or dealloc on every exit" % what,
                              sinks=kinds, via=s_.via.short if s_.via else None))
            if s_ in prim:
                cells += stands_for(f, s_, key)
    if cells < 5:
        raise AnchorMissing("runtime methods that allocate an object cell (found %d)" % cells)
    return res


# ---------------------------------------------------------------------------------------------------
# C05.L
# ---------------------------------------------------------------------------------------------------

def const_layout(F, op):
    """A `const X: Layout = Layout::new::<T>()` is that constructor call wherever it is used; any other Layout constant is
    identified by its path (the same constant is the same layout)."""
    if F is None or op is None or op.get("k") != "const" or not op.get("text"):
        return None
    for g in F.by_short.get(short(op["text"]), []):
        if g.hir and str(g.kind).startswith("Const"):
            e = hir_strip(g.hir.get("body"))
            if e is not None and e.get("k") == "call" and not e["args"] and any(n.endswith("Layout::new") for n in hir_callee(e)):
                cal = e["f"]["path"].get("callee", {}) if e["f"].get("k") == "path" else {}
                return ("Layout::new", tuple(cal.get("resolved_args", cal.get("args", e["f"].get("path", {}).get("args", [])))))
            return ("const", g.short)
    return None


def layout_sig_op(F, f, du, op):
    """signature of the Layout an operand denotes (a local, or a constant)"""
    c = const_layout(F, op)
    if c is not None:
        return c
    l = op_local(op)
    return layout_sig(f, du, l, F=F) if l is not None else ("?",)


def layout_capv_op(F, f, du, op):
    if const_layout(F, op) is not None:
        return None
    return layout_capv(f, du, op_local(op), F)


def layout_sig(f, du, local, depth=0, F=None):
    """Signature of how a Layout operand was built."""
    seen = set()
    while depth < 12:
        depth += 1
        if local in seen:
            return ("?",)
        seen.add(local)
        ds = du.defs.get(local, [])
        if len(ds) != 1:
            if 1 <= local <= f.mir["arg_count"]:
                return ("param",)
            return ("?",)
        bi, si, kind, payload = ds[0]
        if kind == "call":
            nm = callee_names(payload["func"])
            last = nm[0].rsplit("::", 1)[-1]
            if last in ("unwrap", "expect", "branch", "clone", "unwrap_unchecked"):
                a0 = op_local(payload["args"][0])
                if a0 is None:
                    return ("?",)
                local = a0
                continue
            if nm[0].endswith("Layout::new"):
                return ("Layout::new", tuple(payload["func"].get("args", [])))
            if nm[0].endswith("Layout::array"):
                return ("Layout::array", tuple(payload["func"].get("args", [])))
            if nm[0].endswith("Layout::from_size_align"):
                return ("from_size_align", scalar_sig(f, du, payload["args"][0]), scalar_sig(f, du, payload["args"][1]))
            if any(n.endswith("::layout") for n in nm):
                return ("fn", nm[0])
            return ("call", nm[0])
        rv = payload["rv"]
        if rv["k"] in ("use", "cast"):
            p = op_place(rv["op"])
            if p is None:
                return const_layout(F, rv["op"]) or ("?",)
            local = p["l"]   # tuple field .0 of `Self::layout(cap)` is transparent
            continue
        return ("?",)
    return ("?",)


def scalar_sig(f, du, op, depth=0):
    if op.get("k") == "const":
        return ("const", op.get("val"))
    p = op_place(op)
    if p is None or depth > 8:
        return ("?",)
    if p["p"]:
        names = [e["name"] for e in p["p"] if e["k"] == "field"]
        if names and names[-1] in ("0", "1") and len(names) == 1:
            pass
        else:
            return ("X",)
    ds = du.defs.get(p["l"], [])
    if len(ds) != 1:
        return ("X",)
    bi, si, kind, payload = ds[0]
    if kind == "call":
        nm = callee_names(payload["func"])
        if nm[0].endswith("mem::size_of") or nm[0].endswith("mem::align_of"):
            return (nm[0].rsplit("::", 1)[-1], tuple(payload["func"].get("args", [])))
        return ("X",)
    rv = payload["rv"]
    if rv["k"] == "bin":
        return (rv["op"].replace("WithOverflow", ""), scalar_sig(f, du, rv["l"], depth + 1), scalar_sig(f, du, rv["r"], depth + 1))
    if rv["k"] in ("use", "cast"):
        return scalar_sig(f, du, rv["op"], depth + 1)
    return ("X",)


FORWARDERS = (ALLOC, DEALLOC, "<alloc::caolang_alloc::CaoLangAllocator as alloc::Allocator>::alloc",
              "<alloc::caolang_alloc::CaoLangAllocator as alloc::Allocator>::dealloc",
              "<alloc::caolang_alloc::AllocProxy as alloc::Allocator>::alloc", "<alloc::caolang_alloc::AllocProxy as alloc::Allocator>::dealloc",
              "<alloc::SysAllocator as alloc::Allocator>::alloc", "<alloc::SysAllocator as alloc::Allocator>::dealloc")


HOST_ONLY = {"vm::runtime::RuntimeData::write_to_memory": "raw scratch memory for embedders"}


def callers_of(F, name):
    return [a for a, es in F.callgraph.edges.items() if name in es and a != name]


def rule_l(F):
    res = []
    allocs, deallocs = [], []
    for f in F.fns:
        if not f.mir or f.short in FORWARDERS:
            continue
        du = None
        for bi, t in mu.calls(f):
            nm = callee_names(t["func"])
            is_a, is_d = is_alloc(t), is_dealloc(t)
            if not (is_a or is_d):
                continue
            if du is None:
                du = DefUse(f)
            lay = t["args"][1] if is_a else t["args"][2]
            sig = layout_sig_op(F, f, du, lay)
            (allocs if is_a else deallocs).append((f, t, sig))
    asigs = set(s for _f, _t, s in allocs)
    dsigs = set(s for _f, _t, s in deallocs)
    # a site inside a helper that hands the pointer to its caller (or releases its caller's pointer) stands for one site
    # per call of the helper
    own = Own.of(F)
    n_alloc = sum(site_multiplicity(F, own, f, t, True) for f, t, _s in allocs)
    n_dealloc = sum(site_multiplicity(F, own, f, t, False) for f, t, _s in deallocs)
    if n_alloc < 8 or n_dealloc < 6:
        raise AnchorMissing("allocation sites (found %d alloc, %d dealloc)" % (n_alloc, n_dealloc))
    counters = {}
    for f, t, sig in deallocs:
        name = (f.root or f.short).split("::")[-2] + "::" + (f.root or f.short).rsplit("::", 1)[-1] if "::" in (f.root or f.short) else f.short
        n = counters.get(("d", name), 0)
        counters[("d", name)] = n + 1
        key = "C05/L/dealloc/%s#%d" % (name, n)
        if sig[0] in ("?", "param"):
            res.append(undecided("C05.L", key, f.loc(t.get("ln")), "layout construction not recognised"))
        elif sig in asigs:
            res.append(ok("C05.L", key, f.loc(t.get("ln")), "released with the layout it was allocated with: %s" % (sig,), sig=str(sig)))
        else:
            res.append(bad("C05.L", key, f.loc(t.get("ln")),
                           "memory is released with layout %s but no allocation site builds its layout that way (allocated: %s): size/align "
                           "mismatch corrupts the accounting and is undefined behaviour for the system allocator" % (sig, sorted(map(str, asigs)))))
    for f, t, sig in allocs:
        name = (f.root or f.short).split("::")[-2] + "::" + (f.root or f.short).rsplit("::", 1)[-1] if "::" in (f.root or f.short) else f.short
        n = counters.get(("a", name), 0)
        counters[("a", name)] = n + 1
        key = "C05/L/alloc/%s#%d" % (name, n)
        if sig[0] in ("?", "param"):
            res.append(undecided("C05.L", key, f.loc(t.get("ln")), "layout construction not recognised"))
        elif sig in dsigs:
            res.append(ok("C05.L", key, f.loc(t.get("ln")), "has a release site with the same layout: %s" % (sig,), sig=str(sig)))
        elif (f.root or f.short) in HOST_ONLY and not callers_of(F, f.root or f.short):
            res.append(note("C05.L", key, f.loc(t.get("ln")), "host-only helper with no caller inside the crate (%s): memory it hands out is the "
                            "host's to manage; not reachable from any instruction or library function" % HOST_ONLY[f.root or f.short]))
        else:
            res.append(bad("C05.L", key, f.loc(t.get("ln")), "allocation with layout %s has no release site with the same layout" % (sig,)))
    res.extend(size_field_results(F, own))
    return res


def _fn_label(f):
    n = f.root or f.short
    return n.split("::")[-2] + "::" + n.rsplit("::", 1)[-1] if "::" in n else n


def call_sites_of(F, g):
    out = []
    for caller, sites in F.callgraph.sites.items():
        if caller == g.short:
            continue
        for bi, names, t in sites:
            if g.short in names:
                out.append((caller, bi, t))
    return out


def site_multiplicity(F, own, f, t, is_a, depth=0):
    """how many allocation (release) sites the call `t` in `f` stands for: one, or - when f is a helper whose pointer is
    returned to (received from) its callers - one per call of the helper"""
    if depth > 3 or f.is_closure:
        return 1
    helper = False
    if is_a:
        helper = any(s_.term is t and s_.escapes and not s_.leak for s_ in own.info(f).sources)
    else:
        p = op_local(t["args"][1])
        kind, payload = own.du(f).trace_back(p) if p is not None else (None, None)
        if kind == "arg" and own.param_flow(f, payload) is not None:
            helper = True
    if not helper:
        return 1
    n = 0
    for caller, _bi, ct in call_sites_of(F, f):
        cf = F.fn(caller, required=False)
        n += site_multiplicity(F, own, cf, ct, is_a, depth + 1) if (cf is not None and cf.mir and is_a and
                                                                     any(s_.term is ct and s_.escapes for s_ in own.info(cf).sources)) else 1
    return max(n, 1)


def _v_str(v):
    """readable form of a value expression"""
    if not isinstance(v, tuple) or not v:
        return str(v)
    k = v[0]
    if k == "param":
        return "arg%s" % v[1]
    if k == "const":
        return str(v[1])
    if k == "call":
        return "%s(%s)" % (v[1].rsplit("::", 1)[-1], ", ".join(_v_str(x) for x in v[3:]))
    if k == "site":
        return "%s(..)" % str(v[2]).rsplit("::", 1)[-1]
    if k == "ref":
        return "&" + _v_str(v[1])
    if k == "place":
        s_ = _v_str(v[1])
        for e in v[2]:
            s_ = "*" + s_ if e[0] == "deref" else s_ + "." + str(e[1])
        return s_
    if k == "cast":
        return _v_str(v[2])
    if k == "unknown":
        return "?"
    return "%s(%s)" % (k, ", ".join(_v_str(x) for x in v[1:]))


def size_field_results(F, own):
    """Layout symmetry for owners that release their buffer with a layout computed from one of their own fields
    (`Self::layout(self.len)`, `.. self.capacity * size_of::<T>() ..`): wherever such an object is constructed, or that
    field is overwritten, the buffer that goes with it was allocated for exactly the value stored in the field - the same
    local / the same pure function of the same arguments, not merely something of the same type. Otherwise the accounting
    allocator is charged for one size and refunded another for every object on which the two values differ."""
    res = []
    owners = dict((adt, [o for o in lst if o["size_field"]]) for adt, lst in own.owners().items())
    owners = dict((a, l) for a, l in owners.items() if l)
    if len(owners) < 3:
        raise AnchorMissing("owner types whose Drop releases a buffer with a layout computed from one of their fields (found %d: %s)"
                            % (len(owners), sorted(owners)))
    counters = {}

    def emit(f, adt, o, ln, srcs, v, what):
        tname = adt.rsplit("::", 1)[-1]
        base = "C05/L/size-field/%s.%s/%s" % (tname, o["size_field"], _fn_label(f))
        n = counters.get(base, 0)
        counters[base] = n + 1
        key = base + ("" if n == 0 else "#%d" % n)
        if not srcs:
            res.append(undecided("C05.L", key, f.loc(ln), "%s: the buffer that goes with the new `%s` is not allocated in this function" % (what, o["size_field"])))
            return
        cands = [(sig, capv) for s_ in srcs for sig, capv in s_.allocs]
        match = [(sig, capv) for sig, capv in cands if sig == o["sig"]]
        if not match:
            if all(sig_decided(sig) for sig, _c in cands) and sig_decided(o["sig"]):
                res.append(bad("C05.L", key, f.loc(ln), "%s: the buffer `%s` is allocated with layout %s but %s::drop releases it with %s" %
                               (what, o["ptr_field"], sorted(set(str(c[0]) for c in cands)), tname, o["sig"])))
            else:
                res.append(undecided("C05.L", key, f.loc(ln), "%s: layout construction of the buffer not recognised" % what))
            return
        for sig, capv in match:
            if capv is None or not v_known(capv) or not v_known(v):
                res.append(undecided("C05.L", key, f.loc(ln), "%s: cannot compare the allocated size (%s) with the value stored in `%s` (%s)" %
                                     (what, _v_str(capv), o["size_field"], _v_str(v))))
                return
            if capv != v:
                res.append(bad("C05.L", key, f.loc(ln),
                               "%s: the buffer `%s` is allocated with a layout for %s elements, but `%s` - from which %s::drop computes the "
                               "layout it releases (and the allocator refunds) - is set to %s: for every object on which the two differ the "
                               "accounted usage is charged one size and refunded another, so it drifts (underflows) as such objects are freed" %
                               (what, o["ptr_field"], _v_str(capv), o["size_field"], tname, _v_str(v))))
                return
        res.append(ok("C05.L", key, f.loc(ln), "%s: `%s` holds the very value the buffer `%s` was allocated for (%s)" %
                      (what, o["size_field"], o["ptr_field"], _v_str(v))))

    for f in F.fns:
        if not f.mir or f.short in FORWARDERS:
            continue
        du = None
        for bi, b in enumerate(f.blocks):
            if bi not in f.cfg.reach:
                continue
            for st in b["stmts"]:
                if st["k"] != "assign":
                    continue
                rv = st["rv"]
                # construction
                if rv["k"] == "agg" and rv["agg"]["k"] == "adt" and short(rv["agg"]["path"]) in owners:
                    adt = short(rv["agg"]["path"])
                    fields = rv["agg"].get("fields", [])
                    du = du or own.du(f)
                    for o in owners[adt]:
                        if o["ptr_field"] not in fields or o["size_field"] not in fields:
                            continue
                        p = op_place(rv["ops"][fields.index(o["ptr_field"])])
                        srcs = [s_ for s_ in own.info(f).sources if p is not None and place_reads(p, s_.T)]
                        v = vexpr(f, du, rv["ops"][fields.index(o["size_field"])])
                        emit(f, adt, o, st.get("ln"), srcs, v, "%s builds a %s" % (_fn_label(f), adt.rsplit("::", 1)[-1]))
                    continue
                # the size field is overwritten
                pe = st["place"]["p"]
                if pe and pe[-1]["k"] == "field" and pe[-1].get("owner") in owners:
                    adt = pe[-1]["owner"]
                    if any(d["fn"] is f for d in owners[adt]):
                        continue
                    du = du or own.du(f)
                    for o in owners[adt]:
                        if o["size_field"] != pe[-1]["name"]:
                            continue
                        v = vexpr(f, du, rv["op"]) if rv["k"] == "use" else ("unknown", "computed in place")
                        srcs = [s_ for s_ in own.info(f).sources if any(sig == o["sig"] for sig, _c in s_.allocs)]
                        emit(f, adt, o, st.get("ln"), srcs, v, "%s overwrites %s.%s" % (_fn_label(f), adt.rsplit("::", 1)[-1], o["size_field"]))
            t = b["term"]
            if t["k"] == "call" and t["args"] and any(n in ("std::mem::replace", "std::mem::swap", "std::mem::take") for n in callee_names(t["func"])):
                du = du or own.du(f)
                for ai, a in enumerate(t["args"][:2]):
                    l = op_local(a)
                    kind, payload = du.trace_back(l) if l is not None else (None, None)
                    if kind != "place" or not payload["p"] or payload["p"][-1]["k"] != "field" or payload["p"][-1].get("owner") not in owners:
                        continue
                    adt = payload["p"][-1]["owner"]
                    for o in owners[adt]:
                        if o["size_field"] != payload["p"][-1]["name"]:
                            continue
                        replace = any(n == "std::mem::replace" for n in callee_names(t["func"]))
                        v = vexpr(f, du, t["args"][1]) if (replace and ai == 0) else ("unknown", "swapped")
                        srcs = [s_ for s_ in own.info(f).sources if any(sig == o["sig"] for sig, _c in s_.allocs)]
                        emit(f, adt, o, t.get("ln"), srcs, v, "%s overwrites %s.%s" % (_fn_label(f), adt.rsplit("::", 1)[-1], o["size_field"]))
    return res


def _ref_target(du, l, depth=0):
    """the place a reference-typed local points at (through reborrows)"""
    d = du.sole_def(l) if l is not None else None
    if d is None or d[2] != "assign" or depth > 4:
        return None
    rv = d[3]["rv"]
    if rv["k"] in ("ref", "rawptr"):
        pl = rv["place"]
        if len(pl["p"]) == 1 and pl["p"][0]["k"] == "deref":
            inner = _ref_target(du, pl["l"], depth + 1)
            return inner if inner is not None else pl
        return pl
    if rv["k"] in ("use", "cast") and op_local(rv["op"]) is not None:
        return _ref_target(du, op_local(rv["op"]), depth + 1)
    return None


def _is_object_field(f, pl):
    """a field of an object the function was given (self or another parameter), not of a local"""
    return pl is not None and any(e["k"] == "field" for e in pl["p"]) and 1 <= pl["l"] <= f.mir["arg_count"]


def taken_out_of_object(f, du, op):
    """is the pointer operand storage that was taken out of an object the function works on: read from one of its fields,
    returned by mem::replace on such a field, or held by a local that was mem::swap-ped with such a field"""
    for _ in range(12):
        p = op_place(op)
        if p is None:
            return False
        if _is_object_field(f, p):
            return True
        x = p["l"]
        for _bi, t in mu.calls(f):
            nm = callee_names(t["func"])
            if any(n == "std::mem::swap" for n in nm) and len(t["args"]) == 2:
                a, b = (_ref_target(du, op_local(t["args"][0])), _ref_target(du, op_local(t["args"][1])))
                for u, v in ((a, b), (b, a)):
                    if u is not None and u["l"] == x and not u["p"] and _is_object_field(f, v):
                        return True
            if any(n in ("std::mem::replace", "std::mem::take") for n in nm) and t["dest"]["l"] == x and not t["dest"]["p"] and t["args"]:
                if _is_object_field(f, _ref_target(du, op_local(t["args"][0]))):
                    return True
        d = du.sole_def(x)
        if d is None:
            return False
        if d[2] == "call":
            if not d[3]["args"] or not any(n.rsplit("::", 1)[-1] in THROUGH for n in callee_names(d[3]["func"])):
                return False
            op = d[3]["args"][0]
            continue
        rv = d[3]["rv"]
        if rv["k"] in ("use", "cast"):
            op = rv["op"]
        else:
            return False
    return False


def reallocating_functions(F, own):
    """Functions that replace storage: they obtain new memory from the allocator (directly or from an allocating helper) and
    hand back memory that was taken out of the object they work on (read from / swapped with / replaced in one of its
    fields) - as opposed to rolling back their own fresh allocation. Found by what they do, in any type, however many
    there are. -> [(fn, [(block, dealloc term)])]"""
    out = []
    for f in F.fns:
        if not f.mir or f.is_closure or f.short in FORWARDERS:
            continue
        deallocs = [(bi, t) for bi, t in mu.calls(f) if is_dealloc(t) and bi in f.cfg.reach]
        if not deallocs or not own.info(f).sources:
            continue
        du = own.du(f)
        old = [(bi, t) for bi, t in deallocs if taken_out_of_object(f, du, t["args"][1])]
        if old:
            out.append((f, old))
    return out


def rule_r(F):
    res = []
    own = Own.of(F)
    found = reallocating_functions(F, own)
    if not found:
        raise AnchorMissing("functions that allocate new storage and release the storage they replace")
    for f, deallocs in found:
        du = own.du(f)
        cfg = f.cfg
        tname = f.short.split("::")[-2] if "::" in f.short else f.short
        adt = _adt_of(f.raw.get("impl_self"))
        size_fields = set(o["size_field"] for o in own.owners().get(adt, []) if o["size_field"]) or {"capacity"}

        # where the size field is overwritten (assignment, or mem::replace / swap / take through a reference to it)
        stores = []
        for bi, b in enumerate(f.blocks):
            for si, st in enumerate(b["stmts"]):
                if st["k"] == "assign" and st["place"]["p"] and st["place"]["p"][-1]["k"] == "field" and st["place"]["p"][-1]["name"] in size_fields:
                    stores.append((bi, si))
            t = b["term"]
            if t["k"] == "call" and any(n in ("std::mem::replace", "std::mem::swap", "std::mem::take") for n in callee_names(t["func"])):
                for a in t["args"][:2]:
                    a0 = op_local(a)
                    if a0 is not None and any(mu.ref_of_field_chain(f, du, a0, [sf]) for sf in size_fields):
                        stores.append((bi, len(b["stmts"])))

        def after_store(bi, si):
            for (bj, sj) in stores:
                if (bj == bi and sj < si) or any(bi == x or bi in cfg.reachable_from(x) for x in cfg.succ[bj]):
                    return True
            return False

        def field_tag(q, bi, si):
            if any(e["k"] == "field" and e["name"] in size_fields for e in q["p"]):
                return "stale-field" if after_store(bi, si) else "field"
            return None

        def leaves(l, depth=0, seen=None):
            seen = set() if seen is None else seen
            out = set()
            if l in seen or depth > 25:
                return out
            seen.add(l)
            ds = [d for d in du.defs.get(l, []) if not d[3].get("place", d[3].get("dest"))["p"]]
            if not ds:
                if 1 <= l <= f.mir["arg_count"]:
                    out.add("param")
                return out
            for d in ds:
                si = d[1] if d[1] != "term" else len(f.blocks[d[0]]["stmts"])
                if d[2] == "call":
                    nm = callee_names(d[3]["func"])
                    if any(n.endswith("mem::replace") for n in nm):
                        a0 = op_local(d[3]["args"][0])
                        if a0 is not None and any(mu.ref_of_field_chain(f, du, a0, [sf]) for sf in size_fields):
                            out.add("old")
                            continue
                    for a in d[3]["args"]:
                        q = op_place(a)
                        if q is not None:
                            tag = field_tag(q, d[0], si)
                            if tag:
                                out.add(tag)
                            out |= leaves(q["l"], depth + 1, seen)
                else:
                    from cao.facts import rvalue_places
                    for q in rvalue_places(d[3]["rv"]):
                        tag = field_tag(q, d[0], si)
                        if tag:
                            out.add(tag)
                        else:
                            out |= leaves(q["l"], depth + 1, seen)
            return out
        for n, (bi, t) in enumerate(deallocs):
            key = "C05/R/%s::%s/old-storage-freed-with-old-capacity%s" % (tname, f.name, "" if n == 0 else "#%d" % n)
            lay = op_local(t["args"][-1])
            lv = leaves(lay) if lay is not None else set()
            if "old" in lv or "field" in lv:
                res.append(ok("C05.R", key, f.loc(t.get("ln")), "the layout of the freed block is computed from the capacity read out of self.capacity (%s)" % sorted(lv)))
            elif "param" in lv or "stale-field" in lv:
                res.append(bad("C05.R", key, f.loc(t.get("ln")),
                               "%s::%s frees the old storage with a layout computed from the NEW capacity%s: the accounting "
                               "allocator refunds the size of the new block for the old one, so a growing table is never charged for its "
                               "growth, the limit is not enforced for live tables and the counter underflows when the table is dropped"
                               % (tname, f.name, " (the size field is read after it was overwritten)" if "param" not in lv else "")))
            else:
                res.append(undecided("C05.R", key, f.loc(t.get("ln")), "origin of the freed block's layout not understood"))
    return res


def rule_c(F):
    res = []
    REMOVERS = ("swap_remove", "remove", "pop", "drain", "clear", "truncate", "take", "replace", "retain")
    for f in F.fns:
        if not f.mir or f.is_closure:
            continue
        du = DefUse(f)
        removes = []
        for bi, t in mu.calls(f):
            nm = callee_names(t["func"])
            if not any(n.rsplit("::", 1)[-1] in REMOVERS and (n.startswith("std::vec::Vec") or n.startswith("std::mem::")) for n in nm):
                continue
            a0 = op_local(t["args"][0]) if t["args"] else None
            if a0 is not None and mu.ref_of_field_chain(f, du, a0, ["object_list"]):
                removes.append(t)
        if not removes:
            continue
        # the objects taken out may be freed in a closure of the function (`.into_iter().for_each(|o| self.free_object(o))`)
        frees = [t for g in [f] + F.closures_of.get(f.short, []) if g.mir
                 for bi, t in mu.calls(g) if "vm::runtime::RuntimeData::free_object" in callee_names(t["func"])]
        key = "C05/C/%s/removal-frees" % f.name
        if frees:
            res.append(ok("C05.C", key, f.loc(removes[0].get("ln")), "objects removed from object_list are passed to free_object"))
        else:
            res.append(bad("C05.C", key, f.loc(removes[0].get("ln")), "%s removes objects from object_list without freeing them" % f.name))
    # converse: whoever frees an object has taken it out of object_list (a pointer left in the list is freed again by the
    # next sweep or clear)
    for f in F.fns:
        if not f.mir:
            continue
        frees = [t for bi, t in mu.calls(f) if "vm::runtime::RuntimeData::free_object" in callee_names(t["func"])]
        if not frees:
            continue
        owner = F.fn(f.root) if f.is_closure else f
        removes_here = False
        for g in [owner] + F.closures_of.get(owner.short, []):
            if not g.mir:
                continue
            gdu = DefUse(g)
            for bi, t in mu.calls(g):
                nm = callee_names(t["func"])
                if any(n.rsplit("::", 1)[-1] in REMOVERS and (n.startswith("std::vec::Vec") or n.startswith("std::mem::")) for n in nm):
                    a0 = op_local(t["args"][0]) if t["args"] else None
                    if a0 is not None and mu.ref_of_field_chain(g, gdu, a0, ["object_list"]):
                        removes_here = True
        key = "C05/C/%s/frees-only-what-it-removed" % (owner.name)
        if any(r["key"] == key for r in res):
            continue
        if removes_here:
            res.append(ok("C05.C", key, f.loc(frees[0].get("ln")), "free_object is called where the object is taken out of object_list"))
        else:
            res.append(bad("C05.C", key, f.loc(frees[0].get("ln")),
                           "%s frees an object that stays registered in object_list: the next collection or clear() frees it a second time "
                           "(and refunds it twice)" % owner.short))
    clear = F.fn("vm::runtime::RuntimeData::clear")
    if drains_object_list(F, clear):
        res.append(ok("C05.C", "C05/C/clear/frees-objects", clear.loc(), "RuntimeData::clear takes every object out of object_list and frees it"))
    else:
        res.append(bad("C05.C", "C05/C/clear/frees-objects", clear.loc(), "RuntimeData::clear no longer frees the objects"))
    return res


LIST_REMOVERS = ("swap_remove", "remove", "pop", "drain", "clear", "truncate", "take", "replace", "retain")


def drains_object_list(F, g):
    """does g - itself or in a private helper - empty object_list as a whole (take / replace / drain) and pass what it took
    out to free_object"""
    cached = getattr(g, "_c05_drains", None)
    if cached is not None:
        return cached
    body = inlined(F, g, private_helper(F, (FREE_OBJECT, GC, ALLOC, DEALLOC) + FORWARDERS))
    du = DefUse(body)
    whole = frees = False
    # free_object may be called from a closure of g or of an inlined helper (iterator adaptors)
    roots = {g.short} | set(b["term"]["inlined"] for b in body.blocks if b["term"].get("inlined"))
    for r in roots:
        for c in F.closures_of.get(r, []):
            if c.mir and any(FREE_OBJECT in callee_names(t["func"]) for _bi, t in mu.calls(c)):
                frees = True
    for _bi, t in mu.calls(body):
        nm = callee_names(t["func"])
        if FREE_OBJECT in nm:
            frees = True
        if any(n.rsplit("::", 1)[-1] in ("take", "replace", "drain") and (n.startswith("std::vec::Vec") or n.startswith("std::mem::")) for n in nm):
            a0 = op_local(t["args"][0]) if t["args"] else None
            if a0 is not None and mu.ref_of_field_chain(body, du, a0, ["object_list"]):
                whole = True
    g._c05_drains = whole and frees
    return g._c05_drains


def rule_m(F):
    """C05.M: changing the limit keeps the accounting invariants. In every function that stores a new value into the
    allocator's `limit` (the constructor aside): (1) the usage is known to fit under the *new* limit - the VM is cleared on
    every path to the store, or whatever decides not to clear depends on the new value (the function's parameter), not on
    the limit still stored in the allocator; (2) the collection threshold is derived again from the new limit on every path
    from the store to the return (it is limit / 4: a threshold computed from the old limit makes the VM collect - and
    account - differently from a new VM with the same limit until the next clear)."""
    res = []
    n = 0
    for f in F.fns:
        if not f.mir or f.is_closure or not (f.path.startswith("vm::") or f.path.startswith("alloc::")) or f.name in ("new", "default"):
            continue
        stores = atomic_calls(f, ("store",), "limit")
        if not stores:
            continue
        cfg = f.cfg
        du = DefUse(f)
        rets = cfg.return_blocks()
        for k, (bi, t) in enumerate(stores):
            n += 1
            # (2) threshold recomputed afterwards
            resets = set(b for b, t2 in mu.calls(f) if any(x.endswith("reset_gc_threshold") for x in callee_names(t2["func"])))
            resets |= set(b for b, _t2 in atomic_calls(f, ("store",), "next_gc"))
            key2 = "C05/M/%s/threshold-follows-the-new-limit" % f.name
            if t.get("target") is not None and cfg.every_path_passes(t["target"], rets, resets):
                res.append(ok("C05.M", key2, f.loc(t.get("ln")), "next_gc is derived again after the limit was stored"))
            else:
                res.append(bad("C05.M", key2, f.loc(t.get("ln")),
                               "%s stores a new memory limit and can return without deriving the collection threshold from it again: next_gc "
                               "still reflects the old limit (a quarter of it), so a VM that was just given limit L collects - and accounts - "
                               "unlike a new or a cleared VM with limit L, until the next clear()" % f.name))
            # (1) usage fits under the new limit
            key1 = "C05/M/%s/usage-fits-the-new-limit" % f.name
            clears = [b for b, t2 in mu.calls(f) if local_callee(F, t2) is not None and drains_object_list(F, local_callee(F, t2))]
            if any(cfg.dominates(c, bi) and c != bi for c in clears):
                res.append(ok("C05.M", key1, f.loc(t.get("ln")), "the VM is cleared on every path to the store of the new limit"))
                continue
            # conditional / no clearing: what decides must involve the parameter carrying the new limit
            new_l = op_local(t["args"][1]) if len(t["args"]) > 1 else None
            kind, payload = du.trace_back(new_l) if new_l is not None else (None, None)
            param = payload if kind == "arg" else None
            decided_on_param = False
            for c in clears:
                for g in sorted(cfg.dom[c], key=lambda x: -len(cfg.dom[x])):
                    tt = f.blocks[g]["term"]
                    if g != c and tt["k"] == "switch":
                        dl = op_local(tt["discr"])
                        leaves = slice_leaves(f, du, dl, use_block=g) if dl is not None else []
                        for lf in leaves:
                            if lf[0] == "place" and param is not None and lf[1]["l"] == param:
                                decided_on_param = True
                        # direct use of the parameter in the comparison
                        for st in f.blocks[g]["stmts"]:
                            if st["k"] == "assign" and st["place"]["l"] == dl and st["rv"]["k"] == "bin":
                                for side in ("l", "r"):
                                    sl = op_local(st["rv"][side])
                                    if sl is not None:
                                        kk, pp = du.trace_back(sl)
                                        if kk == "arg" and pp == param:
                                            decided_on_param = True
                        break
            if decided_on_param:
                res.append(ok("C05.M", key1, f.loc(t.get("ln")), "clearing is decided by comparing the usage with the new limit"))
            else:
                res.append(bad("C05.M", key1, f.loc(t.get("ln")),
                               "%s stores a new memory limit without clearing the VM on every path, and what decides whether to clear does not "
                               "depend on the new value (it is evaluated against the limit still stored in the allocator, which the usage never "
                               "exceeds): lowering the limit below the size of the live data leaves accounted usage above the configured limit"
                               % f.name))
    if n < 1:
        raise AnchorMissing("functions that store a new memory limit")
    return res


def _c02_rule_k(F):
    from rules import c02 as _c02
    return _c02.rule_k(F)


def _c02_rule_u(F):
    from rules import c02 as _c02
    return _c02.rule_u(F)


RULES = [
    Rule("C05.M", rule_m, 2, "changing the limit keeps usage <= limit and re-derives the threshold"),
    Rule("C05.K", shared(_c02_rule_k, "C02.K", "C05.K"), 9, "guarded objects stay live: the collector never overwrites Protected (shared with C02.K)"),
    Rule("C05.U", shared(_c02_rule_u, "C02.U", "C05.U"), 1, "survivors are unmarked after every collection, so the next one reclaims what became garbage (shared with C02.U)"),
    Rule("C05.A", rule_a, 5, "charge symmetry and who-may-write of the allocator counters"),
    Rule("C05.F", rule_f, 1, "a failed allocation refunds its charge"),
    Rule("C05.G", rule_g, 2, "collect before refusing; threshold from post-collection usage"),
    Rule("C05.Q", rule_q, 1, "the limit test covers survivors plus the pending request"),
    Rule("C05.O", rule_o, 7, "every pointer from the accounting allocator is owned, released or returned on every exit of the runtime's methods"),
    Rule("C05.L", rule_l, 20, "alloc/dealloc layout symmetry; the size field an owner's Drop releases with holds the allocated element count"),
    Rule("C05.R", rule_r, 3, "reallocation frees the old storage with the old capacity's layout"),
    Rule("C05.C", rule_c, 5, "removal from object_list frees; clear drains"),
]
