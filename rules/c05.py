"""C05 — Memory limit is enforced and garbage is reclaimed.

  C05.A  charge symmetry: alloc adds and dealloc subtracts the same function of the Layout.
  C05.F  a failed allocation refunds what it charged.
  C05.G  OutOfMemory is reported only after a collection was attempted, and the next-collection threshold is computed
         from the post-collection usage.
  C05.O  the object cell allocated by every RuntimeData::init_* is handed to object_list or released on every exit.
  C05.L  layout symmetry: every dealloc site builds its Layout the same way as an alloc site (and vice versa).
  C05.R  a reallocating table frees its old storage with the layout of the OLD capacity: in both adjust_capacity functions the
         capacity that enters the Layout handed to dealloc derives from the value taken out of `self.capacity`, not from
         the new capacity (the system allocator ignores the size, the accounting allocator refunds it).
  C05.C  whoever removes an object from object_list frees it; clear drains the list.
"""
from cao.facts import (AnchorMissing, callee_names, short, op_local, op_place, DefUse, hir_walk, hir_callee, hir_strip,
                       hir_local_id)
from cao.rules import Rule, ok, bad, undecided, note, shared
from cao import mirutil as mu
from rules.c16 import origin_call_block

EXPLANATION = (
    "The accounting identities of the property hold at every allocation history iff they hold per site, and per-site "
    "facts are shape: (A) the HIR expression charged by CaoLangAllocator::alloc equals the one refunded by dealloc; (F) "
    "on the MIR of alloc every path from the fetch_add to an Err return passes a fetch_sub of the same field; (G) every "
    "path to Err(OutOfMemory) passes a call of RuntimeData::gc, and the value stored to next_gc is computed from a load "
    "of `allocated` that the gc call dominates; (O) in every init_* the pointer returned by the first allocation reaches "
    "object_list.push or dealloc on every exit other than that allocation's own failure; (L) alloc/dealloc Layout "
    "constructors agree pairwise by resolved callee, generic arguments and operand shape; (C) removal from object_list "
    "is always paired with free_object. Not decided: `accounted <= L` as an inequality over histories, and "
    "'live = reachable' after a collection (C02 decides the static part of that)."
)
ASSUMPTIONS = [
    "std::alloc::alloc/dealloc are the only real allocation primitives underneath (who-may-call checked in C05.L)",
    "atomic counters are only touched by CaoLangAllocator (checked: who-may-write of allocated/next_gc/limit)",
]

ALLOC = "alloc::caolang_alloc::CaoLangAllocator::alloc"
DEALLOC = "alloc::caolang_alloc::CaoLangAllocator::dealloc"


def norm_hir(e, params):
    """structural normal form of a small HIR expression; locals are replaced by their type"""
    e = hir_strip(e)
    if e is None:
        return None
    k = e.get("k")
    if k == "bin":
        return ("bin", e["op"], norm_hir(e["l"], params), norm_hir(e["r"], params))
    if k == "mcall":
        return ("call", (hir_callee(e) or [e["name"]])[0], norm_hir(e["recv"], params)) + tuple(norm_hir(a, params) for a in e["args"])
    if k == "call":
        return ("call", (hir_callee(e) or ["?"])[0]) + tuple(norm_hir(a, params) for a in e["args"])
    if k == "path":
        r = e["path"]["res"]
        if r["k"] == "local":
            return ("local", e.get("ty", ""))
        return ("def", short(r.get("path", "")))
    if k == "lit":
        return ("lit", e["lit"].get("v"))
    if k == "cast":
        return ("cast", e.get("ty", ""), norm_hir(e["e"], params))
    if k == "field":
        return ("field", e["name"], norm_hir(e["e"], params))
    if k in ("addr_of",) or (k == "un" and e["op"] == "Deref"):
        return norm_hir(e["e"], params)
    return (k,)


def atomic_calls(fn, op_names, field):
    """call blocks of Atomic::<op> on (*self).<field>"""
    out = []
    du = DefUse(fn)
    for bi, t in mu.calls(fn):
        if not any(n.startswith("std::sync::atomic::Atomic") and n.rsplit("::", 1)[-1] in op_names for n in callee_names(t["func"])):
            continue
        a0 = op_local(t["args"][0]) if t["args"] else None
        if a0 is None:
            continue
        if mu.ref_of_field_chain(fn, du, a0, [field]):
            out.append((bi, t))
    return out


def rule_a(F):
    res = []
    fa, fd = F.fn(ALLOC), F.fn(DEALLOC)

    def charged(fn, op):
        # the expression passed as amount to fetch_add / fetch_sub, expanded through `let` bindings
        from cao import hirutil as hu
        inits = hu.let_inits(fn)
        for x in hir_walk(fn.hir["body"]):
            if x.get("k") == "mcall" and x["name"] == op:
                fc = hu.field_chain(x["recv"])
                if fc and fc[1][-1:] == ["allocated"]:
                    a = x["args"][0]
                    lid = hir_local_id(a)
                    if lid is not None and len(inits.get(lid, [])) == 1:
                        return norm_hir(inits[lid][0], None), x["ln"]
                    return norm_hir(a, None), x["ln"]
        return None, None
    ca, la = charged(fa, "fetch_add")
    cd, ld = charged(fd, "fetch_sub")
    if ca is None or cd is None:
        res.append(bad("C05.A", "C05/A/charge-symmetry", fa.loc(), "alloc must fetch_add and dealloc must fetch_sub the `allocated` counter (add=%s sub=%s)" % (ca is not None, cd is not None)))
    elif ca == cd:
        res.append(ok("C05.A", "C05/A/charge-symmetry", fa.loc(la), "alloc charges and dealloc refunds the same expression of the Layout", expr=str(ca)))
    else:
        res.append(bad("C05.A", "C05/A/charge-symmetry", fd.loc(ld), "alloc charges %s but dealloc refunds %s: the counter drifts with every object" % (ca, cd)))
    # every successful allocation is charged, every release is refunded (or neither, under the same condition)
    adds = atomic_calls(fa, ("fetch_add",), "allocated")
    subs = atomic_calls(fd, ("fetch_sub",), "allocated")
    if adds and subs:
        cfa, cfd = fa.cfg, fd.cfg
        ok_blocks = [bi for bi, b in enumerate(fa.blocks) if bi in cfa.reach and any(
            st["k"] == "assign" and st["place"]["l"] == 0 and not st["place"]["p"] and st["rv"]["k"] == "agg"
            and st["rv"]["agg"].get("variant") == "Ok" for st in b["stmts"])]
        if not ok_blocks:
            raise AnchorMissing("Ok(..) return in CaoLangAllocator::alloc")
        a_dom = all(any(cfa.dominates(ab, ob) for ab, _t in adds) for ob in ok_blocks)
        d_dom = all(any(cfd.dominates(sb, rb) for sb, _t in subs) for rb in cfd.return_blocks())
        key = "C05/A/every-allocation-charged-every-release-refunded"
        if a_dom and d_dom:
            res.append(ok("C05.A", key, fa.loc(), "the charge dominates every Ok return of alloc, the refund dominates every return of dealloc"))
        elif a_dom != d_dom:
            res.append(bad("C05.A", key, (fa if not a_dom else fd).loc(),
                           ("alloc can return Ok without charging `allocated` (e.g. an early return for a special layout) while dealloc "
                            "always refunds: every release of such a block lowers the counter below the bytes really outstanding, the "
                            "limit is exceeded and the counter underflows after clear") if not a_dom else
                           "dealloc can return without refunding what alloc always charges: the counter only grows"))
        else:
            res.append(undecided("C05.A", key, fa.loc(), "both the charge and the refund are conditional; their conditions are not compared"))
    # who may touch the counters
    for field in ("allocated", "next_gc", "limit"):
        writers = set()
        for f in F.fns:
            if not f.mir:
                continue
            if atomic_calls(f, ("store", "fetch_add", "fetch_sub", "swap", "fetch_max", "fetch_min", "compare_exchange"), field):
                writers.add(f.root or f.short)
        # the counters are private state of the allocator: only its own methods (and set_memory_limit for `limit`) write them
        allowed = set(w for w in writers if w.startswith("alloc::caolang_alloc::CaoLangAllocator::"))
        if field == "limit":
            allowed |= {"vm::runtime::RuntimeData::set_memory_limit"}
        if field == "allocated":
            allowed = {ALLOC, DEALLOC}
        extra = sorted(w for w in writers if w not in allowed)
        if extra:
            res.append(bad("C05.A", "C05/A/writers/%s" % field, "", "allocator counter `%s` is written outside the allocator: %s" % (field, extra)))
        else:
            res.append(ok("C05.A", "C05/A/writers/%s" % field, "", "`%s` written only by %s" % (field, sorted(writers))))
    return res


def rule_f(F):
    res = []
    fa = F.fn(ALLOC)
    cfg = fa.cfg
    adds = atomic_calls(fa, ("fetch_add",), "allocated")
    subs = atomic_calls(fa, ("fetch_sub",), "allocated")
    if not adds:
        raise AnchorMissing("fetch_add on `allocated` in CaoLangAllocator::alloc")
    err = mu.error_exit_blocks(fa)
    err = set(b for b in err if any(st["k"] == "assign" and st["place"]["l"] == 0 and mu.is_err_aggregate(st["rv"]) for st in fa.blocks[b]["stmts"]))
    add_b = adds[0][0]
    sub_bs = set(b for b, _t in subs)
    reach_err = [e for e in err if e in cfg.reachable_from(add_b)]
    if not reach_err:
        res.append(ok("C05.F", "C05/F/alloc/refund-on-failure", fa.loc(), "no failure exit after the charge"))
        return res
    leaks = [e for e in reach_err if not cfg.every_path_passes(cfg.succ[add_b][0], {e}, sub_bs)]
    if leaks:
        res.append(bad("C05.F", "C05/F/alloc/refund-on-failure", fa.loc(_first_ln(fa, leaks[0])),
                       "alloc returns Err after fetch_add without a fetch_sub: every refused allocation inflates `allocated` for good, "
                       "so later (smaller) requests are refused although memory is free"))
    else:
        res.append(ok("C05.F", "C05/F/alloc/refund-on-failure", fa.loc(), "every Err path after the charge refunds it", err_exits=len(reach_err)))
    return res


def _first_ln(fn, b):
    for st in fn.blocks[b]["stmts"]:
        if st.get("ln"):
            return st["ln"]
    return fn.blocks[b]["term"].get("ln")


def reaching(fn, du, local, use_block):
    """definitions of `local` that reach `use_block` (block granularity: a definition is killed by another one that lies
    on every path from it to the use)"""
    defs = du.defs.get(local, [])
    if len(defs) <= 1 or use_block is None:
        return defs
    cfg = fn.cfg
    blocks = set(d[0] for d in defs)
    out = []
    for d in defs:
        others = blocks - {d[0]}
        if d[0] == use_block:
            out.append(d)
            continue
        if use_block in others:
            continue
        starts = cfg.succ[d[0]]
        if any(use_block == s_ or use_block in cfg.reachable_from(s_, avoid=others) for s_ in starts if s_ not in others):
            out.append(d)
    return out


def slice_leaves(fn, du, local, depth=0, seen=None, use_block=None):
    """Backward slice of a scalar: returns list of ('call', block, term) / ('place', place) / ('const', v) leaves.
    Only definitions that reach the use are followed."""
    if seen is None:
        seen = set()
    if local in seen or depth > 12:
        return []
    seen.add(local)
    out = []
    for (bi, si, kind, payload) in reaching(fn, du, local, use_block):
        if kind == "call":
            names = callee_names(payload["func"])
            if any(n.rsplit("::", 1)[-1] in ("max", "min", "saturating_mul", "saturating_add", "wrapping_mul", "wrapping_add", "checked_mul",
                                             "unwrap_or", "clamp", "saturating_sub") for n in names):
                for a in payload["args"]:
                    l = op_local(a)
                    if l is not None:
                        out.extend(slice_leaves(fn, du, l, depth + 1, seen, bi))
            else:
                out.append(("call", bi, payload))
            continue
        rv = payload["rv"]
        k = rv["k"]
        ops = []
        if k in ("use", "cast"):
            ops = [rv["op"]]
        elif k == "bin":
            ops = [rv["l"], rv["r"]]
        elif k == "un":
            ops = [rv["x"]]
        for o in ops:
            if o.get("k") == "const":
                out.append(("const", o.get("val")))
                continue
            p = op_place(o)
            if p is None:
                continue
            if p["p"] and not all(e["k"] == "field" and e["name"] in ("0", "1") for e in p["p"]):
                out.append(("place", p))
            else:
                out.extend(slice_leaves(fn, du, p["l"], depth + 1, seen, bi))
    return out


def value_id(fn, du, op, at_block, path_blocks):
    """Identity of the value an operand denotes on a given path: constants by value, locals by (local, defining block on
    the path) after following plain copies."""
    if op.get("k") == "const":
        return ("const", op.get("val"))
    p = op_place(op)
    if p is None or p["p"]:
        return ("?", id(op))
    l = p["l"]
    for _ in range(10):
        defs = [d for d in du.defs.get(l, []) if d[0] in path_blocks]
        if not defs:
            return ("local", l, None)
        # the last definition on the path before at_block
        order = {b: n for n, b in enumerate(path_blocks)}
        limit_n = order.get(at_block, len(path_blocks))
        defs = [d for d in defs if order[d[0]] <= limit_n]
        if not defs:
            return ("local", l, None)
        d = max(defs, key=lambda d: order[d[0]])
        if d[2] == "assign" and d[3]["rv"]["k"] == "use":
            q = op_place(d[3]["rv"]["op"])
            if q is not None and not q["p"]:
                l = q["l"]
                at_block = d[0]
                continue
            if d[3]["rv"]["op"].get("k") == "const":
                return ("const", d[3]["rv"]["op"].get("val"))
        return ("def", l, d[0], d[1] if d[1] != "term" else -1)
    return ("?", l)


def feasible_path_avoiding(fn, du, target, avoid):
    """Is there a path entry -> target that avoids `avoid` and on which no comparison of the same two values is required
    to have two different outcomes? (syntactic contradiction check, no arithmetic reasoning)"""
    cfg = fn.cfg
    if target not in cfg.reachable_from(0, avoid=avoid):
        return False
    # enumerate simple paths (the allocator is loop-free apart from tracing boilerplate, which we cut at 4000 paths)
    stack = [(0, [0])]
    n = 0
    while stack:
        b, path = stack.pop()
        n += 1
        if n > 20000:
            return True
        if b == target:
            if not contradictory(fn, du, path):
                return True
            continue
        for s_ in cfg.succ[b]:
            if s_ in avoid or s_ in path:
                continue
            if target not in cfg.reachable_from(s_, avoid=avoid):
                continue
            stack.append((s_, path + [s_]))
    return False


def contradictory(fn, du, path):
    facts = {}
    for n, b in enumerate(path[:-1]):
        t = fn.blocks[b]["term"]
        if t["k"] != "switch":
            continue
        cond = op_local(t["discr"])
        st = None
        for s_ in fn.blocks[b]["stmts"]:
            if s_["k"] == "assign" and s_["place"]["l"] == cond and s_["rv"]["k"] == "bin" and s_["rv"]["op"] in ("Gt", "Lt", "Ge", "Le", "Eq", "Ne"):
                st = s_
        if st is None:
            continue
        nxt = path[n + 1]
        zero = dict((v, bb) for v, bb in t["targets"]).get(0)
        outcome = not (nxt == zero)
        if zero is not None and nxt == zero and t["otherwise"] == zero:
            continue
        key = (st["rv"]["op"], value_id(fn, du, st["rv"]["l"], b, path), value_id(fn, du, st["rv"]["r"], b, path))
        if "?" in (key[1][0], key[2][0]):
            continue
        if key in facts and facts[key] != outcome:
            return True
        facts[key] = outcome
    return False


def rule_g(F):
    res = []
    fa = F.fn(ALLOC)
    cfg = fa.cfg
    du = DefUse(fa)
    gc_blocks = [bi for bi, t in mu.calls(fa) if "vm::runtime::RuntimeData::gc" in callee_names(t["func"])]
    oom = [b for b in range(len(fa.blocks)) if any(st["k"] == "assign" and st["place"]["l"] == 0 and mu.is_err_aggregate(st["rv"]) for st in fa.blocks[b]["stmts"])]
    oom = [b for b in oom if b in cfg.reach]
    if not gc_blocks:
        res.append(bad("C05.G", "C05/G/alloc/collects", fa.loc(), "CaoLangAllocator::alloc never calls RuntimeData::gc"))
        return res
    if not oom:
        res.append(note("C05.G", "C05/G/alloc/oom-after-gc", fa.loc(), "alloc has no OutOfMemory exit"))
    else:
        no_gc = [e for e in oom if feasible_path_avoiding(fa, du, e, set(gc_blocks))]
        if no_gc:
            res.append(bad("C05.G", "C05/G/alloc/oom-after-gc", fa.loc(_first_ln(fa, no_gc[0])),
                           "OutOfMemory is returned on a path that never attempted a collection: a program whose garbage alone exceeds the "
                           "limit is refused although its live data would fit"))
        else:
            res.append(ok("C05.G", "C05/G/alloc/oom-after-gc", fa.loc(), "every OutOfMemory exit is preceded by a collection"))
    stores = atomic_calls(fa, ("store",), "next_gc")
    if not stores:
        res.append(undecided("C05.G", "C05/G/alloc/threshold-from-post-gc-usage", fa.loc(), "no store to next_gc in alloc"))
    for bi, t in stores:
        v = op_local(t["args"][1])
        leaves = slice_leaves(fa, du, v, use_block=bi) if v is not None else []
        usage = []
        for lf in leaves:
            if lf[0] == "call":
                nm = callee_names(lf[2]["func"])
                if any(n.startswith("std::sync::atomic::Atomic") for n in nm):
                    a0 = op_local(lf[2]["args"][0])
                    if a0 is not None and mu.ref_of_field_chain(fa, du, a0, ["allocated"]):
                        usage.append(lf[1])
        if not usage:
            res.append(undecided("C05.G", "C05/G/alloc/threshold-from-post-gc-usage", fa.loc(t.get("ln")), "next_gc is not derived from `allocated`"))
            continue
        pre = [u for u in usage if not any(cfg.dominates(g, u) and g != u for g in gc_blocks)]
        if pre:
            res.append(bad("C05.G", "C05/G/alloc/threshold-from-post-gc-usage", fa.loc(t.get("ln")),
                           "next_gc is computed from the usage measured *before* the collection (garbage included): it ratchets up towards "
                           "the limit, after which no collection ever runs again and pure garbage exhausts the memory limit"))
        else:
            res.append(ok("C05.G", "C05/G/alloc/threshold-from-post-gc-usage", fa.loc(t.get("ln")), "next_gc derives from `allocated` re-read after gc()"))
    return res


def rule_q(F):
    """C05.Q: the refusal test covers the request. Every comparison of the usage with the limit in CaoLangAllocator::alloc
    compares `usage that includes the pending request`: on every definition reaching the comparison the value is either
    an explicit sum with the request size, or a read of `allocated` taken after the request was charged to it (fetch_add
    dominating the read). A test on the survivors alone admits a request that takes the accounted usage past the limit."""
    res = []
    fa = F.fn(ALLOC)
    cfg = fa.cfg
    du = DefUse(fa)
    charges = atomic_calls(fa, ("fetch_add",), "allocated")

    def req_derived(l, at, depth=0):
        """is local l computed from the Layout (size/align) only?"""
        leaves = slice_leaves(fa, du, l, use_block=at)
        if not leaves:
            return False
        for lf in leaves:
            if lf[0] == "call" and any(n.startswith("std::alloc::Layout::") for n in callee_names(lf[2]["func"])):
                continue
            if lf[0] == "const":
                continue
            return False
        return any(lf[0] == "call" for lf in leaves)

    charged_blocks = [bi for bi, t in charges if op_local(t["args"][1]) is not None and req_derived(op_local(t["args"][1]), bi)]

    def includes(l, at, depth=0, seen=None):
        """every definition of l reaching block `at` carries the request; returns (bool, why)"""
        seen = seen or set()
        if depth > 10 or (l, at) in seen:
            return False, "cyclic definition"
        seen = seen | {(l, at)}
        defs = reaching(fa, du, l, at)
        if not defs:
            return False, "no definition"
        for (bi, si, kind, payload) in defs:
            if kind == "call":
                names = callee_names(payload["func"])
                a0 = op_local(payload["args"][0]) if payload["args"] else None
                if any(n.startswith("std::sync::atomic::Atomic") and n.rsplit("::", 1)[-1] == "load" for n in names) and \
                        a0 is not None and mu.ref_of_field_chain(fa, du, a0, ["allocated"]):
                    if any(c != bi and cfg.dominates(c, bi) for c in charged_blocks):
                        continue
                    return False, "the value of `allocated` read at line %s does not contain the request (it is charged later or never)" % payload.get("ln")
                return False, "call result %s" % (names[0] if names else "?")
            rv = payload["rv"]
            k = rv["k"]
            if k in ("use", "cast"):
                p = op_place(rv["op"])
                if p is None:
                    return False, "constant"
                good, why = includes(p["l"], bi, depth + 1, seen)
                if not good:
                    return False, why
            elif k == "bin" and rv["op"] in ("Add", "AddWithOverflow", "AddUnchecked"):
                ls = [op_local(rv["l"]), op_local(rv["r"])]
                if any(x is not None and req_derived(x, bi) for x in ls):
                    continue
                sub = [includes(x, bi, depth + 1, seen) for x in ls if x is not None]
                if not any(g for g, _ in sub):
                    return False, (sub[0][1] if sub else "sum of constants")
            else:
                return False, "computed by %s" % (rv.get("op") or k)
        return True, ""

    n = 0
    for bi, b in enumerate(fa.blocks):
        if bi not in cfg.reach:
            continue
        for st in b["stmts"]:
            if st["k"] != "assign" or st["rv"]["k"] != "bin" or st["rv"]["op"] not in ("Gt", "Ge", "Lt", "Le"):
                continue
            sides = [op_local(st["rv"]["l"]), op_local(st["rv"]["r"])]
            if None in sides:
                continue

            def is_limit(l):
                lv = slice_leaves(fa, du, l, use_block=bi)
                return bool(lv) and all(lf[0] == "call" and any(n.rsplit("::", 1)[-1] == "load" for n in callee_names(lf[2]["func"])) and
                                        op_local(lf[2]["args"][0]) is not None and
                                        mu.ref_of_field_chain(fa, du, op_local(lf[2]["args"][0]), ["limit"]) for lf in lv)
            if is_limit(sides[0]) == is_limit(sides[1]):
                continue
            usage = sides[1] if is_limit(sides[0]) else sides[0]
            key = "C05/Q/alloc/limit-test%s-includes-the-request" % ("" if n == 0 else "#%d" % n)
            n += 1
            good, why = includes(usage, bi)
            if good:
                res.append(ok("C05.Q", key, fa.loc(st.get("ln")), "the usage compared with the limit contains the request on every reaching definition"))
            else:
                res.append(bad("C05.Q", key, fa.loc(st.get("ln")),
                               "CaoLangAllocator::alloc compares a usage with the limit that does not contain the pending request (%s): after a "
                               "collection the survivors alone are tested, the request is then granted and charged, and the accounted usage "
                               "exceeds the configured limit by up to one request" % why))
    if n < 1:
        raise AnchorMissing("comparisons of the usage with the limit in CaoLangAllocator::alloc (found %d)" % n)
    return res


def is_alloc(t):
    return any(n in (ALLOC, "alloc::Allocator::alloc") or n.endswith("as alloc::Allocator>::alloc") for n in callee_names(t["func"]))


def is_dealloc(t):
    return any(n in (DEALLOC, "alloc::Allocator::dealloc") or n.endswith("as alloc::Allocator>::dealloc") for n in callee_names(t["func"]))


def rule_o(F):
    res = []
    n = 0
    for f in F.fns:
        if not f.mir or f.is_closure or not f.short.startswith("vm::runtime::RuntimeData::init_"):
            continue
        n += 1
        cfg = f.cfg
        du = DefUse(f)
        allocs = [(bi, t) for bi, t in mu.calls(f) if is_alloc(t)]
        if not allocs:
            res.append(undecided("C05.O", "C05/O/%s" % f.name, f.loc(), "no allocation found"))
            continue
        first = allocs[0]
        sinks = set()
        for bi, t in mu.calls(f):
            nm = callee_names(t["func"])
            if any(x.startswith("std::vec::Vec::") and x.endswith("::push") for x in nm):
                a0 = op_local(t["args"][0])
                if a0 is not None and mu.ref_of_field_chain(f, du, a0, ["object_list"]):
                    sinks.add(bi)
            if is_dealloc(t) or "vm::runtime::RuntimeData::free_object" in nm:
                sinks.add(bi)
        own_fail = set()
        for bi, t in mu.calls(f):
            if any(x.endswith("from_residual") for x in callee_names(t["func"])) and t["dest"]["l"] == 0:
                a0 = op_local(t["args"][0])
                if a0 is not None and origin_call_block(f, du, a0) == first[0]:
                    own_fail.add(bi)
        rets = set(cfg.return_blocks())
        start = first[1]["target"]
        r = cfg.reachable_from(start, avoid=sinks | own_fail)
        key = "C05/O/%s" % f.name
        if r & rets:
            # which exit leaks?
            leak = None
            for bi, t in mu.calls(f):
                if bi in r and any(x.endswith("from_residual") for x in callee_names(t["func"])) and t["dest"]["l"] == 0:
                    leak = t.get("ln")
            res.append(bad("C05.O", key, f.loc(leak),
                           "%s allocates the object cell, then returns early (line %s) when a later step fails without releasing it: the cell "
                           "stays charged and unreachable, so accounted memory no longer returns to zero when the VM is cleared" % (f.name, leak)))
        else:
            res.append(ok("C05.O", key, f.loc(), "the object cell reaches object_list.push or dealloc on every exit", allocs=len(allocs)))
    if n < 5:
        raise AnchorMissing("RuntimeData::init_* functions (found %d)" % n)
    return res


# ---------------------------------------------------------------------------------------------------
# C05.L
# ---------------------------------------------------------------------------------------------------

def layout_sig(f, du, local, depth=0):
    """Signature of how a Layout operand was built."""
    seen = set()
    while depth < 12:
        depth += 1
        if local in seen:
            return ("?",)
        seen.add(local)
        ds = du.defs.get(local, [])
        if len(ds) != 1:
            if 1 <= local <= f.mir["arg_count"]:
                return ("param",)
            return ("?",)
        bi, si, kind, payload = ds[0]
        if kind == "call":
            nm = callee_names(payload["func"])
            last = nm[0].rsplit("::", 1)[-1]
            if last in ("unwrap", "expect", "branch", "clone", "unwrap_unchecked"):
                a0 = op_local(payload["args"][0])
                if a0 is None:
                    return ("?",)
                local = a0
                continue
            if nm[0].endswith("Layout::new"):
                return ("Layout::new", tuple(payload["func"].get("args", [])))
            if nm[0].endswith("Layout::array"):
                return ("Layout::array", tuple(payload["func"].get("args", [])))
            if nm[0].endswith("Layout::from_size_align"):
                return ("from_size_align", scalar_sig(f, du, payload["args"][0]), scalar_sig(f, du, payload["args"][1]))
            if any(n.endswith("::layout") for n in nm):
                return ("fn", nm[0])
            return ("call", nm[0])
        rv = payload["rv"]
        if rv["k"] in ("use", "cast"):
            p = op_place(rv["op"])
            if p is None:
                return ("?",)
            local = p["l"]   # tuple field .0 of `Self::layout(cap)` is transparent
            continue
        return ("?",)
    return ("?",)


def scalar_sig(f, du, op, depth=0):
    if op.get("k") == "const":
        return ("const", op.get("val"))
    p = op_place(op)
    if p is None or depth > 8:
        return ("?",)
    if p["p"]:
        names = [e["name"] for e in p["p"] if e["k"] == "field"]
        if names and names[-1] in ("0", "1") and len(names) == 1:
            pass
        else:
            return ("X",)
    ds = du.defs.get(p["l"], [])
    if len(ds) != 1:
        return ("X",)
    bi, si, kind, payload = ds[0]
    if kind == "call":
        nm = callee_names(payload["func"])
        if nm[0].endswith("mem::size_of") or nm[0].endswith("mem::align_of"):
            return (nm[0].rsplit("::", 1)[-1], tuple(payload["func"].get("args", [])))
        return ("X",)
    rv = payload["rv"]
    if rv["k"] == "bin":
        return (rv["op"].replace("WithOverflow", ""), scalar_sig(f, du, rv["l"], depth + 1), scalar_sig(f, du, rv["r"], depth + 1))
    if rv["k"] in ("use", "cast"):
        return scalar_sig(f, du, rv["op"], depth + 1)
    return ("X",)


FORWARDERS = (ALLOC, DEALLOC, "<alloc::caolang_alloc::CaoLangAllocator as alloc::Allocator>::alloc",
              "<alloc::caolang_alloc::CaoLangAllocator as alloc::Allocator>::dealloc",
              "<alloc::caolang_alloc::AllocProxy as alloc::Allocator>::alloc", "<alloc::caolang_alloc::AllocProxy as alloc::Allocator>::dealloc",
              "<alloc::SysAllocator as alloc::Allocator>::alloc", "<alloc::SysAllocator as alloc::Allocator>::dealloc")


HOST_ONLY = {"vm::runtime::RuntimeData::write_to_memory": "raw scratch memory for embedders"}


def callers_of(F, name):
    return [a for a, es in F.callgraph.edges.items() if name in es and a != name]


def rule_l(F):
    res = []
    allocs, deallocs = [], []
    for f in F.fns:
        if not f.mir or f.short in FORWARDERS:
            continue
        du = None
        for bi, t in mu.calls(f):
            nm = callee_names(t["func"])
            is_a, is_d = is_alloc(t), is_dealloc(t)
            if not (is_a or is_d):
                continue
            if du is None:
                du = DefUse(f)
            lay = t["args"][1] if is_a else t["args"][2]
            l = op_local(lay)
            sig = layout_sig(f, du, l) if l is not None else ("?",)
            (allocs if is_a else deallocs).append((f, t, sig))
    asigs = set(s for _f, _t, s in allocs)
    dsigs = set(s for _f, _t, s in deallocs)
    if len(allocs) < 8 or len(deallocs) < 6:
        raise AnchorMissing("allocation sites (found %d alloc, %d dealloc)" % (len(allocs), len(deallocs)))
    counters = {}
    for f, t, sig in deallocs:
        name = (f.root or f.short).split("::")[-2] + "::" + (f.root or f.short).rsplit("::", 1)[-1] if "::" in (f.root or f.short) else f.short
        n = counters.get(("d", name), 0)
        counters[("d", name)] = n + 1
        key = "C05/L/dealloc/%s#%d" % (name, n)
        if sig[0] in ("?", "param"):
            res.append(undecided("C05.L", key, f.loc(t.get("ln")), "layout construction not recognised"))
        elif sig in asigs:
            res.append(ok("C05.L", key, f.loc(t.get("ln")), "released with the layout it was allocated with: %s" % (sig,), sig=str(sig)))
        else:
            res.append(bad("C05.L", key, f.loc(t.get("ln")),
                           "memory is released with layout %s but no allocation site builds its layout that way (allocated: %s): size/align "
                           "mismatch corrupts the accounting and is undefined behaviour for the system allocator" % (sig, sorted(map(str, asigs)))))
    for f, t, sig in allocs:
        name = (f.root or f.short).split("::")[-2] + "::" + (f.root or f.short).rsplit("::", 1)[-1] if "::" in (f.root or f.short) else f.short
        n = counters.get(("a", name), 0)
        counters[("a", name)] = n + 1
        key = "C05/L/alloc/%s#%d" % (name, n)
        if sig[0] in ("?", "param"):
            res.append(undecided("C05.L", key, f.loc(t.get("ln")), "layout construction not recognised"))
        elif sig in dsigs:
            res.append(ok("C05.L", key, f.loc(t.get("ln")), "has a release site with the same layout: %s" % (sig,), sig=str(sig)))
        elif (f.root or f.short) in HOST_ONLY and not callers_of(F, f.root or f.short):
            res.append(note("C05.L", key, f.loc(t.get("ln")), "host-only helper with no caller inside the crate (%s): memory it hands out is the "
                            "host's to manage; not reachable from any instruction or library function" % HOST_ONLY[f.root or f.short]))
        else:
            res.append(bad("C05.L", key, f.loc(t.get("ln")), "allocation with layout %s has no release site with the same layout" % (sig,)))
    return res


def rule_r(F):
    res = []
    for path in ("collections::hash_map::CaoHashMap::adjust_capacity", "collections::handle_table::HandleTable::adjust_capacity"):
        f = F.fn(path)
        du = DefUse(f)
        tname = path.split("::")[-2]
        deallocs = [(bi, t) for bi, t in mu.calls(f) if any(n.endswith("Allocator::dealloc") or n.endswith("::dealloc") for n in callee_names(t["func"]))]
        if not deallocs:
            raise AnchorMissing("dealloc in %s" % path)

        def leaves(l, depth=0, seen=None):
            seen = set() if seen is None else seen
            out = set()
            if l in seen or depth > 25:
                return out
            seen.add(l)
            ds = [d for d in du.defs.get(l, []) if not d[3].get("place", d[3].get("dest"))["p"]]
            if not ds:
                if 1 <= l <= f.mir["arg_count"]:
                    out.add("param")
                return out
            for d in ds:
                if d[2] == "call":
                    nm = callee_names(d[3]["func"])
                    if any(n.endswith("mem::replace") for n in nm):
                        a0 = op_local(d[3]["args"][0])
                        if a0 is not None and mu.ref_of_field_chain(f, du, a0, ["capacity"]):
                            out.add("old")
                            continue
                    for a in d[3]["args"]:
                        q = op_place(a)
                        if q is not None:
                            if any(e["k"] == "field" and e["name"] == "capacity" for e in q["p"]):
                                out.add("field")
                            out |= leaves(q["l"], depth + 1, seen)
                else:
                    from cao.facts import rvalue_places
                    for q in rvalue_places(d[3]["rv"]):
                        if any(e["k"] == "field" and e["name"] == "capacity" for e in q["p"]):
                            out.add("field")
                        else:
                            out |= leaves(q["l"], depth + 1, seen)
            return out
        for n, (bi, t) in enumerate(deallocs):
            key = "C05/R/%s::adjust_capacity/old-storage-freed-with-old-capacity%s" % (tname, "" if n == 0 else "#%d" % n)
            lay = op_local(t["args"][-1])
            lv = leaves(lay) if lay is not None else set()
            if "old" in lv or "field" in lv:
                res.append(ok("C05.R", key, f.loc(t.get("ln")), "the layout of the freed block is computed from the capacity read out of self.capacity (%s)" % sorted(lv)))
            elif "param" in lv:
                res.append(bad("C05.R", key, f.loc(t.get("ln")),
                               "%s::adjust_capacity frees the old storage with a layout computed from the NEW capacity: the accounting "
                               "allocator refunds the size of the new block for the old one, so a growing table is never charged for its "
                               "growth, the limit is not enforced for live tables and the counter underflows when the table is dropped" % tname))
            else:
                res.append(undecided("C05.R", key, f.loc(t.get("ln")), "origin of the freed block's layout not understood"))
    return res


def rule_c(F):
    res = []
    REMOVERS = ("swap_remove", "remove", "pop", "drain", "clear", "truncate", "take", "replace", "retain")
    for f in F.fns:
        if not f.mir or f.is_closure:
            continue
        du = DefUse(f)
        removes = []
        for bi, t in mu.calls(f):
            nm = callee_names(t["func"])
            if not any(n.rsplit("::", 1)[-1] in REMOVERS and (n.startswith("std::vec::Vec") or n.startswith("std::mem::")) for n in nm):
                continue
            a0 = op_local(t["args"][0]) if t["args"] else None
            if a0 is not None and mu.ref_of_field_chain(f, du, a0, ["object_list"]):
                removes.append(t)
        if not removes:
            continue
        frees = [t for bi, t in mu.calls(f) if "vm::runtime::RuntimeData::free_object" in callee_names(t["func"])]
        key = "C05/C/%s/removal-frees" % f.name
        if frees:
            res.append(ok("C05.C", key, f.loc(removes[0].get("ln")), "objects removed from object_list are passed to free_object"))
        else:
            res.append(bad("C05.C", key, f.loc(removes[0].get("ln")), "%s removes objects from object_list without freeing them" % f.name))
    # converse: whoever frees an object has taken it out of object_list (a pointer left in the list is freed again by the
    # next sweep or clear)
    for f in F.fns:
        if not f.mir:
            continue
        frees = [t for bi, t in mu.calls(f) if "vm::runtime::RuntimeData::free_object" in callee_names(t["func"])]
        if not frees:
            continue
        owner = F.fn(f.root) if f.is_closure else f
        removes_here = False
        for g in [owner] + F.closures_of.get(owner.short, []):
            if not g.mir:
                continue
            gdu = DefUse(g)
            for bi, t in mu.calls(g):
                nm = callee_names(t["func"])
                if any(n.rsplit("::", 1)[-1] in REMOVERS and (n.startswith("std::vec::Vec") or n.startswith("std::mem::")) for n in nm):
                    a0 = op_local(t["args"][0]) if t["args"] else None
                    if a0 is not None and mu.ref_of_field_chain(g, gdu, a0, ["object_list"]):
                        removes_here = True
        key = "C05/C/%s/frees-only-what-it-removed" % (owner.name)
        if any(r["key"] == key for r in res):
            continue
        if removes_here:
            res.append(ok("C05.C", key, f.loc(frees[0].get("ln")), "free_object is called where the object is taken out of object_list"))
        else:
            res.append(bad("C05.C", key, f.loc(frees[0].get("ln")),
                           "%s frees an object that stays registered in object_list: the next collection or clear() frees it a second time "
                           "(and refunds it twice)" % owner.short))
    clear = F.fn("vm::runtime::RuntimeData::clear")
    called = set()
    for _bi, names, _t in F.callgraph.sites.get(clear.short, []):
        called.update(names)
    if "vm::runtime::RuntimeData::clear_objects" in called:
        res.append(ok("C05.C", "C05/C/clear/frees-objects", clear.loc(), "RuntimeData::clear calls clear_objects"))
    else:
        res.append(bad("C05.C", "C05/C/clear/frees-objects", clear.loc(), "RuntimeData::clear no longer frees the objects"))
    return res


def rule_m(F):
    """C05.M: changing the limit keeps the accounting invariants. In every function that stores a new value into the
    allocator's `limit` (the constructor aside): (1) the usage is known to fit under the *new* limit - the VM is cleared on
    every path to the store, or whatever decides not to clear depends on the new value (the function's parameter), not on
    the limit still stored in the allocator; (2) the collection threshold is derived again from the new limit on every path
    from the store to the return (it is limit / 4: a threshold computed from the old limit makes the VM collect - and
    account - differently from a new VM with the same limit until the next clear)."""
    res = []
    n = 0
    for f in F.fns:
        if not f.mir or f.is_closure or not (f.path.startswith("vm::") or f.path.startswith("alloc::")) or f.name in ("new", "default"):
            continue
        stores = atomic_calls(f, ("store",), "limit")
        if not stores:
            continue
        cfg = f.cfg
        du = DefUse(f)
        rets = cfg.return_blocks()
        for k, (bi, t) in enumerate(stores):
            n += 1
            # (2) threshold recomputed afterwards
            resets = set(b for b, t2 in mu.calls(f) if any(x.endswith("reset_gc_threshold") for x in callee_names(t2["func"])))
            resets |= set(b for b, _t2 in atomic_calls(f, ("store",), "next_gc"))
            key2 = "C05/M/%s/threshold-follows-the-new-limit" % f.name
            if t.get("target") is not None and cfg.every_path_passes(t["target"], rets, resets):
                res.append(ok("C05.M", key2, f.loc(t.get("ln")), "next_gc is derived again after the limit was stored"))
            else:
                res.append(bad("C05.M", key2, f.loc(t.get("ln")),
                               "%s stores a new memory limit and can return without deriving the collection threshold from it again: next_gc "
                               "still reflects the old limit (a quarter of it), so a VM that was just given limit L collects - and accounts - "
                               "unlike a new or a cleared VM with limit L, until the next clear()" % f.name))
            # (1) usage fits under the new limit
            key1 = "C05/M/%s/usage-fits-the-new-limit" % f.name
            clears = [b for b, t2 in mu.calls(f) if any(x.endswith("RuntimeData::clear") or x.endswith("::clear_objects") for x in callee_names(t2["func"]))]
            if any(cfg.dominates(c, bi) and c != bi for c in clears):
                res.append(ok("C05.M", key1, f.loc(t.get("ln")), "the VM is cleared on every path to the store of the new limit"))
                continue
            # conditional / no clearing: what decides must involve the parameter carrying the new limit
            new_l = op_local(t["args"][1]) if len(t["args"]) > 1 else None
            kind, payload = du.trace_back(new_l) if new_l is not None else (None, None)
            param = payload if kind == "arg" else None
            decided_on_param = False
            for c in clears:
                for g in sorted(cfg.dom[c], key=lambda x: -len(cfg.dom[x])):
                    tt = f.blocks[g]["term"]
                    if g != c and tt["k"] == "switch":
                        dl = op_local(tt["discr"])
                        leaves = slice_leaves(f, du, dl, use_block=g) if dl is not None else []
                        for lf in leaves:
                            if lf[0] == "place" and param is not None and lf[1]["l"] == param:
                                decided_on_param = True
                        # direct use of the parameter in the comparison
                        for st in f.blocks[g]["stmts"]:
                            if st["k"] == "assign" and st["place"]["l"] == dl and st["rv"]["k"] == "bin":
                                for side in ("l", "r"):
                                    sl = op_local(st["rv"][side])
                                    if sl is not None:
                                        kk, pp = du.trace_back(sl)
                                        if kk == "arg" and pp == param:
                                            decided_on_param = True
                        break
            if decided_on_param:
                res.append(ok("C05.M", key1, f.loc(t.get("ln")), "clearing is decided by comparing the usage with the new limit"))
            else:
                res.append(bad("C05.M", key1, f.loc(t.get("ln")),
                               "%s stores a new memory limit without clearing the VM on every path, and what decides whether to clear does not "
                               "depend on the new value (it is evaluated against the limit still stored in the allocator, which the usage never "
                               "exceeds): lowering the limit below the size of the live data leaves accounted usage above the configured limit"
                               % f.name))
    if n < 1:
        raise AnchorMissing("functions that store a new memory limit")
    return res


def _c02_rule_k(F):
    from rules import c02 as _c02
    return _c02.rule_k(F)


def _c02_rule_u(F):
    from rules import c02 as _c02
    return _c02.rule_u(F)


RULES = [
    Rule("C05.M", rule_m, 2, "changing the limit keeps usage <= limit and re-derives the threshold"),
    Rule("C05.K", shared(_c02_rule_k, "C02.K", "C05.K"), 9, "guarded objects stay live: the collector never overwrites Protected (shared with C02.K)"),
    Rule("C05.U", shared(_c02_rule_u, "C02.U", "C05.U"), 1, "survivors are unmarked after every collection, so the next one reclaims what became garbage (shared with C02.U)"),
    Rule("C05.A", rule_a, 5, "charge symmetry and who-may-write of the allocator counters"),
    Rule("C05.F", rule_f, 1, "a failed allocation refunds its charge"),
    Rule("C05.G", rule_g, 2, "collect before refusing; threshold from post-collection usage"),
    Rule("C05.Q", rule_q, 1, "the limit test covers survivors plus the pending request"),
    Rule("C05.O", rule_o, 6, "object cells are owned or released on every exit of init_*"),
    Rule("C05.L", rule_l, 14, "alloc/dealloc layout symmetry"),
    Rule("C05.R", rule_r, 3, "reallocation frees the old storage with the old capacity's layout"),
    Rule("C05.C", rule_c, 5, "removal from object_list frees; clear drains"),
]
