"""C16 — The module editing API is index-consistent and atomic.

  C16.S  child-shape agreement of the seven per-kind accessors of impl Card (num_children, iter_children,
         iter_children_mut, get_child, get_child_mut, remove_child, insert_child) for every CardBody variant, and
         failure on every index outside the shape.
  C16.A  failed edits are no-ops: Module::swap_cards compensates every completed replace on each error path;
         insert_card/remove_card have no error exit after a mutation.
  C16.W  walk/get wiring: visit_children* enumerate iter_children*, get_card* descend with get_child*.
"""
from cao.facts import callee_names, DefUse, op_local, op_place, op_const, short, hir_walk, hir_callee
from cao.rules import Rule, ok, bad, undecided, note
from cao import cardshape as cs
from cao import mirutil as mu
from cao import hirutil as hu

EXPLANATION = (
    "C16.S abstracts each arm of the seven Card accessors (HIR with typeck types) into its decision structure over "
    "the child index: comparisons of i with literals and Vec lengths and the payload place acted on; it case-splits "
    "over all orderings of i relative to the slot boundaries (list lengths 0,1,2; i up to two past the end) and "
    "requires all accessors to address the same place at the same index for each of the CardBody variants, count == "
    "number of enumerated children, and every index outside the shape to report failure without an effect. C16.A is "
    "a path rule on the MIR of Module::swap_cards/insert_card/remove_card: every error exit is reached with an even "
    "number of completed replace_card calls, the second undoing the first (same index operand, card = the first's "
    "result); a call counts as failed (not completed) on the paths that take the Err branch of its own result (`?`, "
    "match, if let, is_err); no error exit follows a mutation other than through the failure branch of a mutator that "
    "is a no-op when it fails (insert_child/remove_child by C16.S, private helpers by the same analysis). C16.W checks "
    "by resolved callee identity, following private helpers of the same impl, that the walkers number children with "
    "iter_children(_mut).enumerate(), that get_card(_mut) descends with get_child(_mut) and that the top level card is "
    "looked up with the first component of the index (data flow from first()/split_first().0/[0]/a function returning "
    "such a value, e.g. begin()), so walk indices resolve iff C16.S holds. Helper functions called by the accessors are "
    "inlined by the case-split evaluator. Not decided: equality of edit sequences with a tree-edit model (history property)."
)
ASSUMPTIONS = [
    "Vec::insert/remove/get and slice get behave as documented (std is trusted)",
    "the idioms recognised by the case-split evaluator are listed in cao/cardshape.py; an unrecognised idiom is reported undecided and trips the floor",
]

ACCESSORS = ("num_children", "iter_children", "iter_children_mut", "get_child", "get_child_mut", "remove_child", "insert_child")


def place_s(p):
    return ".".join(str(x) for x in p) if p else "<payload>"


def out_s(o):
    if o[0] == "slot":
        return "slot " + place_s(o[1])
    if o[0] == "elem":
        return "%s[%d]" % (place_s(o[1]), o[2])
    if o[0] == "list":
        return "%s@%d" % (place_s(o[1]), o[2])
    return o[0]


def reference_shape(acc, variant):
    """(fixed outcomes, list place|None) from get_child."""
    fixed = []
    i = 0
    while i < 8:
        o = acc.outcome("get_child", variant, i, 0)
        if o[0] == "fail":
            break
        if o[0] not in ("slot", "elem"):
            raise cs.Undecided("get_child yields %s at %d" % (o, i))
        fixed.append(o)
        i += 1
    nf = len(fixed)
    lst = None
    o = acc.outcome("get_child", variant, nf, 2)
    if o[0] == "elem":
        lst = o[1]
        if o[2] != 0:
            raise cs.Undecided("list starts at offset %d" % o[2])
    elif o[0] != "fail":
        raise cs.Undecided("get_child yields %s past the fixed part" % (o,))
    return fixed, lst


def expected(name, fixed, lst, i, L):
    nf = len(fixed)
    if i < nf:
        return fixed[i]
    if lst is not None:
        k = i - nf
        if name in ("get_child", "get_child_mut") and k < L:
            return ("elem", lst, k)
        if name == "remove_child" and k < L:
            return ("list", lst, k)
        if name == "insert_child" and k <= L:
            return ("list", lst, k)
    return ("fail",)


def rule_s(F):
    res = []
    acc = cs.Accessors(F)
    for v in acc.variants:
        try:
            fixed, lst = reference_shape(acc, v)
        except cs.Undecided as e:
            res.append(undecided("C16.S", "C16/S/get_child/%s" % v, acc.fns["get_child"].loc(), "reference shape: %s" % e))
            continue
        shape_s = "[%s]%s" % (", ".join(out_s(o) for o in fixed), (" ++ " + place_s(lst) + "[..]") if lst is not None else "")
        res.append(ok("C16.S", "C16/S/get_child/%s" % v, acc.fns["get_child"].loc(), "shape %s" % shape_s, shape=shape_s))
        nf = len(fixed)
        # count
        try:
            c, cp = cs.count_shape(acc, v)
            if c == nf and cp == lst:
                res.append(ok("C16.S", "C16/S/num_children/%s" % v, acc.fns["num_children"].loc(), "count %d%s" % (c, " + len" if cp is not None else "")))
            else:
                res.append(bad("C16.S", "C16/S/num_children/%s" % v, acc.fns["num_children"].loc(),
                               "num_children = %d%s but get_child resolves %s" % (c, (" + len(%s)" % place_s(cp)) if cp is not None else "", shape_s)))
        except cs.Undecided as e:
            res.append(undecided("C16.S", "C16/S/num_children/%s" % v, acc.fns["num_children"].loc(), str(e)))
        # iterators
        for it in ("iter_children", "iter_children_mut"):
            try:
                fx, lp = cs.iter_shape(acc, it, v)
                if fx == fixed and lp == lst:
                    res.append(ok("C16.S", "C16/S/%s/%s" % (it, v), acc.fns[it].loc(), "enumerates %s" % shape_s))
                else:
                    got = "[%s]%s" % (", ".join(out_s(o) for o in fx), (" ++ " + place_s(lp) + "[..]") if lp is not None else "")
                    res.append(bad("C16.S", "C16/S/%s/%s" % (it, v), acc.fns[it].loc(),
                                   "%s enumerates %s but get_child resolves indices as %s" % (it, got, shape_s)))
            except cs.Undecided as e:
                res.append(undecided("C16.S", "C16/S/%s/%s" % (it, v), acc.fns[it].loc(), str(e)))
        # indexed accessors
        for name in ("get_child_mut", "remove_child", "insert_child"):
            problems = []
            und = None
            for L in (0, 1, 2):
                for i in range(0, nf + L + 3):
                    try:
                        got = acc.outcome(name, v, i, L)
                    except cs.Undecided as e:
                        und = str(e)
                        break
                    want = expected(name, fixed, lst, i, L)
                    if got != want:
                        problems.append((i, L, got, want))
                if und:
                    break
            fn = acc.fns[name]
            if und:
                res.append(undecided("C16.S", "C16/S/%s/%s" % (name, v), fn.loc(), und))
                continue
            silent = [p for p in problems if p[2][0] == "silent"]
            other = [p for p in problems if p[2][0] != "silent"]
            if silent:
                i, L, got, want = silent[0]
                res.append(bad("C16.S", "C16/S/%s/%s/out-of-range-succeeds" % (name, v), fn.loc(),
                               "%s(%d, ..) on a %s with %d list children reports success but changes nothing: an invalid index must "
                               "fail (the inserted card is silently dropped)" % (name, i, v, L)))
            if other:
                i, L, got, want = other[0]
                res.append(bad("C16.S", "C16/S/%s/%s" % (name, v), fn.loc(),
                               "%s(%d) with %d list children acts on %s, get_child(%d) addresses %s" % (name, i, L, out_s(got), i, out_s(want))))
            if not problems:
                res.append(ok("C16.S", "C16/S/%s/%s" % (name, v), fn.loc(), "agrees with get_child on all orderings (L=0..2)"))
    return res


# ---------------------------------------------------------------------------------------------------
# C16.A
# ---------------------------------------------------------------------------------------------------

def paths_to(cfg, targets, limit=20000):
    """All simple paths entry -> any target (acyclic expected). Returns list of block lists."""
    out = []
    stack = [(0, [0])]
    while stack:
        b, path = stack.pop()
        if b in targets:
            out.append(path)
            continue
        for s_ in cfg.succ[b]:
            if s_ in path:
                continue
            stack.append((s_, path + [s_]))
            if len(stack) + len(out) > limit:
                raise cs.Undecided("too many paths")
    return out


THROUGH = ("map_err", "branch", "ok_or", "ok_or_else", "map", "from_residual", "into")


def origin_call_block(fn, du, local, depth=0):
    """Follow a value back through Result/Option adaptors to the call that produced it: returns block index or None."""
    seen = set()
    while depth < 30:
        depth += 1
        if local in seen:
            return None
        seen.add(local)
        defs = du.defs.get(local, [])
        if len(defs) != 1:
            # residual locals are assigned from a downcast field of the branch result
            cands = [d for d in defs if d[2] == "assign"]
            if len(cands) != 1:
                return None
            defs = cands
        bi, si, kind, payload = defs[0]
        if kind == "call":
            names = callee_names(payload["func"])
            if any(n.rsplit("::", 1)[-1] in THROUGH for n in names) and payload["args"]:
                nl = None
                a0 = payload["args"][0]
                if a0.get("k") in ("copy", "move"):
                    nl = a0["place"]["l"]
                if nl is None:
                    return None
                local = nl
                continue
            return bi
        rv = payload["rv"]
        if rv["k"] in ("use", "cast"):
            op = rv["op"]
            if op.get("k") in ("copy", "move"):
                local = op["place"]["l"]
                continue
        if rv["k"] in ("ref",):
            local = rv["place"]["l"]
            continue
        return None
    return None


def _switch_target(t, value):
    """Successor of a switch terminator taken for discriminant `value` (None if the value is not possible)."""
    listed = {v: tgt for v, tgt in t["targets"]}
    if value in listed:
        return listed[value]
    return t["otherwise"]


def failure_edges(f, du, call_block):
    """CFG edges (s, t) that are taken only if the Result/Option produced by the call in `call_block` is Err/None (the
    callee reported failure). Recognised: a switch on the discriminant of the value (directly, or after `?`'s
    Try::branch, map_err/map/ok_or adaptors, which all keep Ok-ness), i.e. `match r {Ok..,Err..}`, `if let`, `let else`,
    `?`; and a switch on r.is_err()/is_ok()/is_none()/is_some()."""
    edges = set()
    for bi, b in enumerate(f.blocks):
        t = b["term"]
        if t["k"] != "switch":
            continue
        dl = op_local(t["discr"])
        if dl is None:
            continue
        d = du.sole_def(dl)
        if d is None:
            continue
        if d[2] == "assign" and d[3]["rv"]["k"] == "discr":
            pl = d[3]["rv"]["place"]
            if any(x["k"] != "deref" for x in pl["p"]):
                continue
            src = pl["l"]
            if origin_call_block(f, du, src) != call_block:
                continue
            ty = f.local_ty(src)
            while ty.startswith("&"):
                ty = ty[1:].lstrip()
                if ty.startswith("mut "):
                    ty = ty[4:]
            if ty.startswith("std::option::Option<"):
                failv = 0
            elif ty.startswith("std::result::Result<") or ty.startswith("std::ops::ControlFlow<"):
                failv = 1
            else:
                continue
            edges.add((bi, _switch_target(t, failv)))
        elif d[2] == "call":
            names = [n.rsplit("::", 1)[-1] for n in callee_names(d[3]["func"])]
            if any(n in ("is_err", "is_none") for n in names):
                failv = 1
            elif any(n in ("is_ok", "is_some") for n in names):
                failv = 0
            else:
                continue
            a0 = op_local(d[3]["args"][0]) if d[3]["args"] else None
            if a0 is None or origin_call_block(f, du, a0) != call_block:
                continue
            edges.add((bi, _switch_target(t, failv)))
    return edges


def _copy_root(du, local):
    """follow plain copies/moves of a local back to where the value was produced"""
    seen = set()
    while local not in seen:
        seen.add(local)
        d = du.sole_def(local)
        if d is None or d[2] != "assign":
            return local
        rv = d[3]["rv"]
        if rv["k"] == "use" and rv["op"].get("k") in ("copy", "move") and not rv["op"]["place"]["p"]:
            local = rv["op"]["place"]["l"]
            continue
        return local
    return local


def index_equality_guards(f, du, repl_blocks):
    """Blocks of the calls that compare the two CardIndex operands for equality and whose "equal" outcome leaves the
    function without reaching a replace_card: `a == b` / `a != b` (PartialEq), `match a.cmp(b) {Equal => ..}` (Ord::cmp is
    Equal iff the indices are equal), `a.partial_cmp(b)` matched against Some(Equal). The outcome is located by the
    switch on the call's result (bool, or the Ordering discriminant 0 = Equal); an eq/ne whose result is not switched on
    directly is still accepted as a comparison (dominance is checked by the caller, as before)."""
    out = []
    for bi, t in mu.calls(f):
        tys = t.get("arg_tys", [])
        if len(tys) != 2 or not all("CardIndex" in x for x in tys):
            continue
        lasts = set(n.rsplit("::", 1)[-1] for n in callee_names(t["func"]))
        names = callee_names(t["func"])
        if any(n.endswith("PartialEq::eq") or n.endswith("PartialEq::ne") for n in names):
            kind = "ne" if "ne" in lasts else "eq"
        elif any(n.endswith("Ord::cmp") for n in names):
            kind = "cmp"
        elif any(n.endswith("PartialOrd::partial_cmp") for n in names):
            kind = "partial_cmp"
        else:
            continue
        if t["dest"]["p"]:
            continue
        d = t["dest"]["l"]
        equal_targets = []
        for si, b in enumerate(f.blocks):
            st = b["term"]
            if st["k"] != "switch":
                continue
            x = op_local(st["discr"])
            if x is None:
                continue
            x = _copy_root(du, x)
            if kind in ("eq", "ne"):
                truth = kind == "eq"          # value of the call's result that means "equal"
                dx = du.sole_def(x)
                if x != d and dx is not None and dx[2] == "assign" and dx[3]["rv"]["k"] == "un" and dx[3]["rv"]["op"] == "Not":
                    inner = op_local(dx[3]["rv"]["x"])
                    if inner is not None and _copy_root(du, inner) == d:
                        x = d
                        truth = not truth
                if x != d:
                    continue
                equal_targets.append(_switch_target(st, 1 if truth else 0))
            else:
                dx = du.sole_def(x)
                if dx is None or dx[2] != "assign" or dx[3]["rv"]["k"] != "discr":
                    continue
                pl = dx[3]["rv"]["place"]
                if _copy_root(du, pl["l"]) != d:
                    continue
                proj = [(e["k"], e.get("variant"), e.get("name")) for e in pl["p"] if e["k"] != "deref"]
                want = [] if kind == "cmp" else [("downcast", "Some", None), ("field", None, "0")]
                if proj != want:
                    continue
                equal_targets.append(_switch_target(st, 0))   # Ordering::Equal = 0
        if equal_targets:
            if all(not (f.cfg.reachable_from(tg) & repl_blocks) for tg in equal_targets):
                out.append(bi)
        elif kind in ("eq", "ne"):
            out.append(bi)
    return out


def reachable_avoiding_edges(cfg, start, edges):
    seen = {start}
    stack = [start]
    while stack:
        a = stack.pop()
        for s_ in cfg.succ[a]:
            if (a, s_) in edges or s_ in seen:
                continue
            seen.add(s_)
            stack.append(s_)
    return seen


def _vis_module(g):
    """module path a private item is restricted to ('' for pub(crate), None for public items)"""
    v = g.raw.get("vis", "Public")
    if not v.startswith("Restricted("):
        return None
    inner = v[v.index("~") + 1:].strip().rstrip(")") if "~" in v else ""
    inner = inner.rstrip(")")
    return inner.split("::", 1)[1] if "::" in inner else ""


def same_scope_private(F, f, names):
    """The callee (if any) among `names` that is a private helper of f: a function (associated or free) whose visibility
    is restricted to a module that contains f - i.e. code only f's own module can call - and whose body is in the
    facts. pub(crate)/public functions are interfaces of their own, not helpers."""
    for n in names:
        g = F.fn(n, required=False)
        if g is None or g.mir is None or g.is_closure or g.short == f.short:
            continue
        m = _vis_module(g)
        if not m:
            continue
        if not (f.short.startswith(m + "::") and g.short.startswith(m + "::")):
            continue
        return g
    return None


MUT = ("std::vec::Vec::insert", "std::vec::Vec::remove", "compiler::card::Card::insert_child",
       "compiler::card::Card::remove_child", "std::mem::replace", "core::mem::replace", "std::vec::Vec::push",
       "std::vec::Vec::swap_remove")
# mutators that report failure and are no-ops when they fail (decided by C16.S: failure without an effect)
NOOP_ON_FAILURE = ("compiler::card::Card::insert_child", "compiler::card::Card::remove_child")


def mutation_sites(F, g, _stack=()):
    """(sites, late) of function g: sites = [(block, term, noop_on_failure)] of the calls that mutate the module (direct
    mutators, Result::map adaptors holding the mutating closure, private helpers that contain a mutation); late = the
    sites after which an error exit is still reachable other than through the site's own failure branch."""
    gerr = mu.error_exit_blocks(g)
    gerr = set(b for b in gerr if g.blocks[b]["term"]["k"] != "unreachable" and not (g.blocks[b]["term"]["k"] == "call" and g.blocks[b]["term"]["target"] is None))
    du = DefUse(g)
    sites = []
    helper_late = []
    for bi, t in mu.calls(g):
        names = callee_names(t["func"])
        if any(n in MUT for n in names):
            sites.append((bi, t, any(n in NOOP_ON_FAILURE for n in names)))
        elif any(n.endswith("Result::map") for n in names):
            # closures passed to Result::map (replace_card) hold the mutation: count them as mutation at the adaptor call
            sites.append((bi, t, False))
        else:
            h = same_scope_private(F, g, names)
            if h is not None and h.short not in _stack and len(_stack) < 4:
                hs, hlate = mutation_sites(F, h, _stack + (g.short,))
                if hs:
                    # a helper that itself mutates last is a no-op when it fails; otherwise its failure follows a mutation
                    sites.append((bi, t, not hlate))
                    helper_late.extend(hlate)
    late = list(helper_late)
    for bi, t, noop in sites:
        if t["target"] is None:
            continue
        avoid = failure_edges(g, du, bi) if noop else set()
        after = reachable_avoiding_edges(g.cfg, t["target"], avoid)
        if after & gerr:
            late.append((t["ln"], sorted(after & gerr)))
    return sites, late


def rule_a(F):
    res = []
    f = F.fn("compiler::module::Module::swap_cards")
    cfg = f.cfg
    du = DefUse(f)
    err = mu.error_exit_blocks(f)
    err = set(b for b in err if f.blocks[b]["term"]["k"] != "unreachable" and not (f.blocks[b]["term"]["k"] == "call" and f.blocks[b]["term"]["target"] is None))
    repl = {}
    for bi, t in mu.calls(f):
        if "compiler::module::Module::replace_card" in callee_names(t["func"]):
            repl[bi] = t
    if len(repl) < 2:
        res.append(undecided("C16.A", "C16/A/swap_cards", f.loc(), "fewer than two replace_card calls found"))
    else:
        try:
            n_paths = 0
            problems = []
            fail_edges = {b: failure_edges(f, du, b) for b in repl}
            for e in sorted(err & cfg.reach):
                for path in paths_to(cfg, {e}):
                    n_paths += 1
                    calls = [b for b in path if b in repl]
                    # a `?` exit belongs to the call whose result it propagates: that call failed and did nothing
                    t = f.blocks[e]["term"]
                    failed = None
                    if t["k"] == "call" and any(n.endswith("from_residual") for n in callee_names(t["func"])):
                        a0 = t["args"][0]
                        if a0.get("k") in ("copy", "move"):
                            failed = origin_call_block(f, du, a0["place"]["l"])
                    # ... and so does an exit reached through the Err branch of a `match`/`if let`/is_err() on that result
                    steps = set(zip(path, path[1:]))
                    failed_set = set(b for b in calls if fail_edges[b] & steps)
                    if failed is not None:
                        failed_set.add(failed)
                    completed = [b for b in calls if b not in failed_set]
                    if len(completed) % 2 != 0:
                        problems.append("error exit at line %s is reached after %d completed replace_card call(s) (line %s) without compensation"
                                        % (f.blocks[e]["term"].get("ln") or _ln(f, e), len(completed), ",".join(str(repl[b]["ln"]) for b in completed)))
                        continue
                    for a, b2 in zip(completed[0::2], completed[1::2]):
                        ia = op_local(repl[a]["args"][1])
                        ib = op_local(repl[b2]["args"][1])
                        same_idx = ia is not None and ib is not None and _same_origin(f, du, ia, ib)
                        cb = op_local(repl[b2]["args"][2])
                        from_first = cb is not None and origin_call_block(f, du, cb) == a
                        if not (same_idx and from_first):
                            problems.append("replace_card at line %s does not undo the one at line %s (same index: %s, restores the removed card: %s)"
                                            % (repl[b2]["ln"], repl[a]["ln"], same_idx, from_first))
            if problems:
                res.append(bad("C16.A", "C16/A/swap_cards/error-paths-restore", f.loc(), "; ".join(sorted(set(problems)))))
            else:
                res.append(ok("C16.A", "C16/A/swap_cards/error-paths-restore", f.loc(),
                              "%d error path(s): each is reached with every completed replace_card undone" % n_paths,
                              error_paths=n_paths, replace_calls=len(repl)))
        except cs.Undecided as e:
            res.append(undecided("C16.A", "C16/A/swap_cards/error-paths-restore", f.loc(), str(e)))
    # swapping a card with itself: the take-out / put-back protocol would exchange the card with its own placeholder, so
    # equal indices have to be answered before the first replace_card
    eqs = index_equality_guards(f, du, set(repl))
    first_repl = [b for b in repl if not any(cfg.dominates(o, b) and o != b for o in repl)]
    key = "C16/A/swap_cards/same-index-is-identity"
    if eqs and repl and all(any(cfg.dominates(e, r) for e in eqs) for r in first_repl):
        res.append(ok("C16.A", key, f.loc(), "equal indices are tested before the first card is taken out"))
    else:
        res.append(bad("C16.A", key, f.loc(),
                       "swap_cards takes the first card out (leaving a placeholder) without having compared the two indices (==, or the Equal "
                       "outcome of cmp, returning before any replace_card): for equal "
                       "indices the card is exchanged with its own placeholder - the call returns Ok and the card is replaced by ScalarNil"))
    # a swap is refused on structural grounds only by looking at whole indices: a test that compares the in-function paths of
    # the two indices without their `function` component treats cards of different functions as relatives
    anc = hu.control_ancestors(f.hir["body"])
    ifs = {id(x): x for x in hir_walk(f.hir["body"]) if x.get("k") == "if"}
    partial = []
    for x in hir_walk(f.hir["body"]):
        if x.get("k") == "ret" and hu.is_error_ret(x):
            for kind, nid in anc.get(id(x), ()):
                node = ifs.get(nid)
                if node is None:
                    continue
                names = set(y["name"] for y in hir_walk(node["cond"]) if y.get("k") == "field")
                calls = set(c for y in hir_walk(node["cond"]) if y.get("k") in ("call", "mcall") for c in hir_callee(y))
                if "card_index" in names and "function" not in names and not any(c.endswith("get_card") or c.endswith("replace_card") for c in calls):
                    partial.append(node)
    key = "C16/A/swap_cards/refusals-compare-whole-indices"
    if partial:
        res.append(bad("C16.A", key, f.loc(partial[0]["ln"]),
                       "swap_cards refuses a swap after comparing only the in-function paths (`card_index`) of the two indices, not their "
                       "`function`: two unrelated cards in different functions whose paths are prefix-related (0.0 and 1.0.1) cannot be swapped"))
    else:
        res.append(ok("C16.A", key, f.loc(), "no refusal is decided on partial indices"))
    # insert_card / remove_card: no error exit after a mutation
    for name in ("insert_card", "remove_card", "replace_card"):
        g = F.fn("compiler::module::Module::" + name)
        muts, late = mutation_sites(F, g)
        if not muts:
            res.append(undecided("C16.A", "C16/A/%s/mutation-is-last-fallible-step" % name, g.loc(), "no mutation call found"))
            continue
        if late:
            res.append(bad("C16.A", "C16/A/%s/mutation-is-last-fallible-step" % name, g.loc(late[0][0]),
                           "an error return is reachable after the module was mutated at line %s" % late[0][0]))
        else:
            res.append(ok("C16.A", "C16/A/%s/mutation-is-last-fallible-step" % name, g.loc(),
                          "%d mutation site(s), none followed by an error exit" % len(muts), mutations=len(muts)))
    return res


def _ln(f, b):
    for st in f.blocks[b]["stmts"]:
        if st.get("ln"):
            return st["ln"]
    return "?"


def _same_origin(f, du, a, b):
    def root(l):
        seen = set()
        while l not in seen:
            seen.add(l)
            d = du.sole_def(l)
            if d is None or d[2] != "assign":
                return l
            rv = d[3]["rv"]
            if rv["k"] in ("use", "cast") and rv["op"].get("k") in ("copy", "move") and not rv["op"]["place"]["p"]:
                l = rv["op"]["place"]["l"]
                continue
            if rv["k"] == "ref" and len(rv["place"]["p"]) == 1 and rv["place"]["p"][0]["k"] == "deref":
                l = rv["place"]["l"]
                continue
            return l
        return l
    return root(a) == root(b)


# ---------------------------------------------------------------------------------------------------
# C16.W
# ---------------------------------------------------------------------------------------------------

FIRST = "<first index component>"

WIRING = [
    ("compiler::module::visit_children", ["compiler::card::Card::iter_children", "std::iter::Iterator::enumerate", "compiler::module::CardIndex::set_current_index", "compiler::module::CardIndex::push_subindex", "compiler::module::CardIndex::pop_subindex"]),
    ("compiler::module::visit_children_mut", ["compiler::card::Card::iter_children_mut", "std::iter::Iterator::enumerate", "compiler::module::CardIndex::set_current_index", "compiler::module::CardIndex::push_subindex", "compiler::module::CardIndex::pop_subindex"]),
    ("compiler::module::Module::get_card", ["compiler::card::Card::get_child", FIRST]),
    ("compiler::module::Module::get_card_mut", ["compiler::card::Card::get_child_mut", FIRST]),
    ("compiler::module::Module::remove_card", ["compiler::card::Card::get_child_mut", "compiler::card::Card::remove_child"]),
    ("compiler::module::Module::insert_card", ["compiler::card::Card::get_child_mut", "compiler::card::Card::insert_child"]),
    ("compiler::module::Module::replace_card", ["compiler::module::Module::get_card_mut"]),
    ("compiler::module::Module::walk_cards", ["compiler::module::visit_children", "compiler::module::CardIndex::push_subindex", "compiler::module::CardIndex::pop_subindex"]),
    ("compiler::module::Module::walk_cards_mut", ["compiler::module::visit_children_mut", "compiler::module::CardIndex::push_subindex", "compiler::module::CardIndex::pop_subindex"]),
]


def private_closure(F, f):
    """f and the private functions of the same impl (module for free fns) it reaches through calls: the code a
    maintainer may have moved out of f without changing who is responsible for it."""
    cg = F.callgraph
    out = [f]
    seen = {f.short}
    i = 0
    while i < len(out):
        g = out[i]
        i += 1
        bodies = [g] + list(F.closures_of.get(g.short, []))
        for b in bodies:
            for _bi, names, _t in cg.sites.get(b.short, []):
                h = same_scope_private(F, f, names)
                if h is not None and h.short not in seen:
                    seen.add(h.short)
                    out.append(h)
    return out


# value-preserving adaptors on the way from "first element of the index" to the lookup's index operand
_ADAPT = ("branch", "ok_or", "ok_or_else", "map", "copied", "cloned", "into", "unwrap", "expect", "from", "try_into", "unwrap_or_default")
_VIEW = ("deref", "deref_mut", "as_slice", "as_mut_slice", "as_ref", "as_mut", "borrow", "borrow_mut")


def _value_defs(du, local):
    """whole-local definitions of `local`, not counting the ones that only carry an error (`?` residual, Err/None)"""
    keep = []
    for d in du.defs.get(local, []):
        if d[3].get("place", d[3].get("dest"))["p"]:
            continue
        if d[2] == "call" and any(n.endswith("from_residual") for n in callee_names(d[3]["func"])):
            continue
        if d[2] == "assign" and (mu.is_err_aggregate(d[3]["rv"]) or mu.is_none_aggregate(d[3]["rv"])):
            continue
        keep.append(d)
    return keep


def _strip_ref(ty):
    ty = ty.strip()
    while ty.startswith("&"):
        ty = ty[1:].lstrip()
        if ty.startswith("mut "):
            ty = ty[4:].lstrip()
    return ty


def root_arg(f, du, place):
    """The argument of f that `place` is a part / a view of (fields, derefs, borrows, Deref/as_slice views); None if
    it is not derived from exactly one argument that way."""
    seen = set()
    while True:
        if any(x["k"] not in ("deref", "field") for x in place["p"]):
            return None
        local = place["l"]
        if local in seen:
            return None
        seen.add(local)
        if 1 <= local <= f.mir["arg_count"] and not du.defs.get(local):
            return local
        d = du.sole_def(local)
        if d is None:
            return None
        if d[2] == "call":
            lasts = [n.rsplit("::", 1)[-1] for n in callee_names(d[3]["func"])]
            if not any(n in _VIEW for n in lasts) or len(d[3]["args"]) != 1:
                return None
            place = op_place(d[3]["args"][0])
        else:
            rv = d[3]["rv"]
            if rv["k"] in ("use", "cast"):
                place = op_place(rv["op"])
            elif rv["k"] in ("ref", "rawptr"):
                place = rv["place"]
            else:
                return None
        if place is None:
            return None


def _is_zero(du, op):
    if op_const(op) is not None:
        return op_const(op) == 0
    l = op_local(op)
    if l is None:
        return False
    kind, payload = du.trace_back(l)
    return kind == "const" and payload.get("val") == 0


def first_component(F, f, du, local, depth=0):
    """Is the value of `local` the first element of the index slice of one of f's arguments?
    -> ('first', arg local) | ('no', why) | None (not understood).
    Accepted ways to take it: slice first()/split_first().0/get(0)/[0], or a crate function whose return value is
    (by the same analysis) the first element of a slice of its argument (CardIndex::begin and anything like it), seen
    through `?`, ok_or, map, copies, casts, derefs."""
    tup0 = False
    seen = set()
    while True:
        if local in seen:
            return None
        seen.add(local)
        ds = _value_defs(du, local)
        if len(ds) != 1:
            return None
        _bi, _si, kind, pl = ds[0]
        if kind == "assign":
            rv = pl["rv"]
            if rv["k"] in ("use", "cast"):
                if rv["op"].get("k") == "const":
                    return ("no", "a constant")
                place = op_place(rv["op"])
            elif rv["k"] in ("ref", "rawptr"):
                place = rv["place"]
            elif rv["k"] == "agg" and rv["agg"]["k"] == "adt" and rv["agg"].get("variant") in ("Ok", "Some") and len(rv["ops"]) == 1:
                if rv["ops"][0].get("k") == "const":
                    return ("no", "a constant")
                place = op_place(rv["ops"][0])
            else:
                return None
            if place is None:
                return None
            dc = None
            for n, x in enumerate(place["p"]):
                if x["k"] == "deref":
                    continue
                if x["k"] == "downcast":
                    dc = x["variant"]
                    continue
                if x["k"] == "field":
                    if dc in ("Continue", "Some", "Ok") and x["name"] == "0":
                        dc = None
                        continue
                    if dc is None and n == 0 and _strip_ref(f.local_ty(place["l"])).startswith("("):
                        if x["name"] == "0":
                            tup0 = True
                            continue
                        return ("no", "component .%s of a tuple" % x["name"])
                    return None
                if x["k"] == "index":
                    base = {"l": place["l"], "p": place["p"][:n]}
                    if not _strip_ref(_place_ty_hint(f, base)).startswith("["):
                        return None
                    kind2, payload = du.trace_back(x["local"])
                    if kind2 == "const" and payload.get("val") == 0:
                        a = root_arg(f, du, base)
                        return ("first", a) if a is not None else None
                    return ("no", "an element other than the first")
                return None
            local = place["l"]
            continue
        # call
        t = pl
        names = callee_names(t["func"])
        lasts = [n.rsplit("::", 1)[-1] for n in names]
        args = t["args"]

        def origin(op):
            p0 = op_place(op)
            if p0 is None:
                return None
            a = root_arg(f, du, p0)
            return ("first", a) if a is not None else None
        if any(n in ("core::slice::first", "core::slice::first_mut") for n in names):
            return origin(args[0])
        if any(n in ("core::slice::split_first", "core::slice::split_first_mut") for n in names):
            return origin(args[0]) if tup0 else ("no", "the rest of split_first")
        if any(n in ("core::slice::last", "core::slice::last_mut", "core::slice::split_last", "core::slice::split_last_mut") for n in names):
            return ("no", "the last element")
        if any(n in ("core::slice::get", "core::slice::get_mut", "std::ops::Index::index", "core::slice::get_unchecked") for n in names) and len(args) == 2:
            if _is_zero(du, args[1]):
                return origin(args[0])
            return ("no", "an element other than the first")
        if any(n in _ADAPT for n in lasts) and args:
            p0 = op_place(args[0])
            if p0 is None or p0["p"]:
                return None
            local = p0["l"]
            continue
        if depth < 4:
            for n in names:
                g = F.fn(n, required=False)
                if g is None or g.mir is None or g.is_closure:
                    continue
                r = first_component(F, g, DefUse(g), 0, depth + 1)
                if r is not None and r[0] == "first":
                    if r[1] - 1 < len(args):
                        return origin(args[r[1] - 1])
                    return None
                return r
        return None


def _place_ty_hint(f, place):
    """type of a place that is a local seen through derefs only (enough for `(*indices)[i]`); '' otherwise"""
    if all(x["k"] == "deref" for x in place["p"]):
        return f.local_ty(place["l"])
    return ""


def top_level_lookup(F, fns):
    """How the functions `fns` (a function and its private helpers) choose the top level card: for every lookup in the
    function's card list (slice get/get_mut/index on [Card]) the origin of its index operand."""
    out = []
    for g in fns:
        du = None
        for bi, t in mu.calls(g):
            names = callee_names(t["func"])
            if not any(n in ("core::slice::get", "core::slice::get_mut", "std::ops::Index::index", "std::ops::IndexMut::index_mut") for n in names):
                continue
            tys = t.get("arg_tys", [])
            if len(tys) != 2 or _strip_ref(tys[0]) not in ("[compiler::card::Card]", "std::vec::Vec<compiler::card::Card>") or len(t["args"]) != 2:
                continue
            du = du or DefUse(g)
            l = op_local(t["args"][1])
            if l is None:
                r = ("no", "a constant") if t["args"][1].get("k") == "const" else None
            else:
                r = first_component(F, g, du, l)
            if r is not None and r[0] == "first" and "CardIndex" not in g.local_ty(r[1]):
                r = None
            out.append((g, t, r))
    return out


def _json_fields(o, out):
    if isinstance(o, dict):
        if o.get("k") == "field" and "name" in o:
            out.append(o["name"])
        for v in o.values():
            _json_fields(v, out)
    elif isinstance(o, list):
        for v in o:
            _json_fields(v, out)


def foreign_module_access(F, fns):
    """[(fn, line)] of the places in `fns` and their closures that read the `submodules` field (the only way from a Module to
    cards outside its own `functions`)."""
    out = []
    for g in fns:
        for b in [g] + list(F.closures_of.get(g.short, [])):
            if b.mir is None:
                continue
            for bl in b.blocks:
                for st in list(bl["stmts"]) + [bl["term"]]:
                    names = []
                    _json_fields(st, names)
                    if "submodules" in names:
                        out.append((b, st.get("ln")))
    return out


def rule_w(F):
    res = []
    cg = F.callgraph
    for fn_name, needs in WIRING:
        f = F.fn(fn_name)
        callees = set()
        fns = private_closure(F, f)
        for g in fns:
            for _bi, names, _t in cg.sites.get(g.short, []):
                callees.update(names)
            # closures of this function (map/ok_or_else closures may hold the calls)
            for c in F.closures_of.get(g.short, []):
                for _bi, names, _t in cg.sites.get(c.short, []):
                    callees.update(names)
        missing = [n for n in needs if n != FIRST and n not in callees]
        key = "C16/W/%s" % fn_name.rsplit("::", 1)[-1]
        if missing:
            res.append(bad("C16.W", key, f.loc(), "%s no longer goes through %s: walk indices and lookups are numbered by different code" % (f.name, ", ".join(m.rsplit("::", 1)[-1] for m in missing))))
            continue
        uses = [n.rsplit("::", 1)[-1] for n in needs if n != FIRST]
        if FIRST in needs:
            # the walkers report the position in the function's card list as the first component of an index: the lookup
            # has to select the top level card with exactly that component (CardIndex::begin or any equivalent spelling)
            looks = top_level_lookup(F, fns)
            good = [x for x in looks if x[2] is not None and x[2][0] == "first"]
            wrong = [x for x in looks if x[2] is not None and x[2][0] == "no"]
            if wrong:
                g, t, r = wrong[0]
                res.append(bad("C16.W", key, g.loc(t["ln"]), "%s selects the top level card with %s instead of the first component of the index: walk indices and "
                               "lookups are numbered by different code" % (f.name, r[1])))
                continue
            if not good or len(good) != len(looks):
                res.append(undecided("C16.W", key, f.loc(), "could not establish that the top level card is selected with the first component of the index "
                                     "(%d lookup(s) in the card list, %d understood)" % (len(looks), len(good))))
                continue
            uses.append("the first index component for the top level card")
        if f.name in ("walk_cards", "walk_cards_mut"):
            # A CardIndex is (position in self.functions, child path): it has no module component, so get_card(self, ..) can
            # only resolve cards of the module's own functions. A walker (incl. its private helpers and closures) that reaches
            # cards through another module's function list reports indices that resolve to a different card or to nothing.
            foreign = foreign_module_access(F, fns)
            if foreign:
                g, ln = foreign[0]
                res.append(bad("C16.W", key, g.loc(ln), "%s also visits cards that are not in self.functions (it reads `submodules` in %s): the reported "
                               "CardIndex has no module component, get_card/replace_card on the walked module resolve it to a different card or fail"
                               % (f.name, g.name)))
                continue
            uses.append("visits only the module's own functions")
        res.append(ok("C16.W", key, f.loc(), "uses " + ", ".join(uses)))
    # CardIndex push/pop/set_current_index operate on the last element of `indices`
    return res


RULES = [
    Rule("C16.S", rule_s, 290, "seven accessors agree on the child shape of every CardBody variant; invalid indices fail"),
    Rule("C16.A", rule_a, 6, "failed edits are no-ops (swap_cards compensation, mutation is the last fallible step)"),
    Rule("C16.W", rule_w, 9, "walkers enumerate with iter_children*, lookups descend with get_child*"),
]
