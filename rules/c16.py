"""C16 — The module editing API is index-consistent and atomic.

  C16.S  child-shape agreement of the seven per-kind accessors of impl Card (num_children, iter_children,
         iter_children_mut, get_child, get_child_mut, remove_child, insert_child) for every CardBody variant, and
         failure on every index outside the shape.
  C16.A  failed edits are no-ops: Module::swap_cards compensates every completed replace on each error path;
         insert_card/remove_card have no error exit after a mutation.
  C16.W  walk/get wiring: visit_children* enumerate iter_children*, get_card* descend with get_child*.
"""
from cao.facts import callee_names, DefUse, op_local, short, hir_walk, hir_callee
from cao.rules import Rule, ok, bad, undecided, note
from cao import cardshape as cs
from cao import mirutil as mu
from cao import hirutil as hu

EXPLANATION = (
    "C16.S abstracts each arm of the seven Card accessors (HIR with typeck types) into its decision structure over "
    "the child index: comparisons of i with literals and Vec lengths and the payload place acted on; it case-splits "
    "over all orderings of i relative to the slot boundaries (list lengths 0,1,2; i up to two past the end) and "
    "requires all accessors to address the same place at the same index for each of the CardBody variants, count == "
    "number of enumerated children, and every index outside the shape to report failure without an effect. C16.A is "
    "a path rule on the MIR of Module::swap_cards/insert_card/remove_card: every error exit is reached with an even "
    "number of completed replace_card calls, the second undoing the first (same index operand, card = the first's "
    "result); no error exit follows a mutation. C16.W checks by resolved callee identity that the walkers number "
    "children with iter_children(_mut).enumerate() and that get_card(_mut) descends with get_child(_mut), so walk "
    "indices resolve iff C16.S holds. Not decided: equality of edit sequences with a tree-edit model (history property)."
)
ASSUMPTIONS = [
    "Vec::insert/remove/get and slice get behave as documented (std is trusted)",
    "the idioms recognised by the case-split evaluator are listed in cao/cardshape.py; an unrecognised idiom is reported undecided and trips the floor",
]

ACCESSORS = ("num_children", "iter_children", "iter_children_mut", "get_child", "get_child_mut", "remove_child", "insert_child")


def place_s(p):
    return ".".join(str(x) for x in p) if p else "<payload>"


def out_s(o):
    if o[0] == "slot":
        return "slot " + place_s(o[1])
    if o[0] == "elem":
        return "%s[%d]" % (place_s(o[1]), o[2])
    if o[0] == "list":
        return "%s@%d" % (place_s(o[1]), o[2])
    return o[0]


def reference_shape(acc, variant):
    """(fixed outcomes, list place|None) from get_child."""
    fixed = []
    i = 0
    while i < 8:
        o = acc.outcome("get_child", variant, i, 0)
        if o[0] == "fail":
            break
        if o[0] not in ("slot", "elem"):
            raise cs.Undecided("get_child yields %s at %d" % (o, i))
        fixed.append(o)
        i += 1
    nf = len(fixed)
    lst = None
    o = acc.outcome("get_child", variant, nf, 2)
    if o[0] == "elem":
        lst = o[1]
        if o[2] != 0:
            raise cs.Undecided("list starts at offset %d" % o[2])
    elif o[0] != "fail":
        raise cs.Undecided("get_child yields %s past the fixed part" % (o,))
    return fixed, lst


def expected(name, fixed, lst, i, L):
    nf = len(fixed)
    if i < nf:
        return fixed[i]
    if lst is not None:
        k = i - nf
        if name in ("get_child", "get_child_mut") and k < L:
            return ("elem", lst, k)
        if name == "remove_child" and k < L:
            return ("list", lst, k)
        if name == "insert_child" and k <= L:
            return ("list", lst, k)
    return ("fail",)


def rule_s(F):
    res = []
    acc = cs.Accessors(F)
    for v in acc.variants:
        try:
            fixed, lst = reference_shape(acc, v)
        except cs.Undecided as e:
            res.append(undecided("C16.S", "C16/S/get_child/%s" % v, acc.fns["get_child"].loc(), "reference shape: %s" % e))
            continue
        shape_s = "[%s]%s" % (", ".join(out_s(o) for o in fixed), (" ++ " + place_s(lst) + "[..]") if lst is not None else "")
        res.append(ok("C16.S", "C16/S/get_child/%s" % v, acc.fns["get_child"].loc(), "shape %s" % shape_s, shape=shape_s))
        nf = len(fixed)
        # count
        try:
            c, cp = cs.count_shape(acc, v)
            if c == nf and cp == lst:
                res.append(ok("C16.S", "C16/S/num_children/%s" % v, acc.fns["num_children"].loc(), "count %d%s" % (c, " + len" if cp is not None else "")))
            else:
                res.append(bad("C16.S", "C16/S/num_children/%s" % v, acc.fns["num_children"].loc(),
                               "num_children = %d%s but get_child resolves %s" % (c, (" + len(%s)" % place_s(cp)) if cp is not None else "", shape_s)))
        except cs.Undecided as e:
            res.append(undecided("C16.S", "C16/S/num_children/%s" % v, acc.fns["num_children"].loc(), str(e)))
        # iterators
        for it in ("iter_children", "iter_children_mut"):
            try:
                fx, lp = cs.iter_shape(acc, it, v)
                if fx == fixed and lp == lst:
                    res.append(ok("C16.S", "C16/S/%s/%s" % (it, v), acc.fns[it].loc(), "enumerates %s" % shape_s))
                else:
                    got = "[%s]%s" % (", ".join(out_s(o) for o in fx), (" ++ " + place_s(lp) + "[..]") if lp is not None else "")
                    res.append(bad("C16.S", "C16/S/%s/%s" % (it, v), acc.fns[it].loc(),
                                   "%s enumerates %s but get_child resolves indices as %s" % (it, got, shape_s)))
            except cs.Undecided as e:
                res.append(undecided("C16.S", "C16/S/%s/%s" % (it, v), acc.fns[it].loc(), str(e)))
        # indexed accessors
        for name in ("get_child_mut", "remove_child", "insert_child"):
            problems = []
            und = None
            for L in (0, 1, 2):
                for i in range(0, nf + L + 3):
                    try:
                        got = acc.outcome(name, v, i, L)
                    except cs.Undecided as e:
                        und = str(e)
                        break
                    want = expected(name, fixed, lst, i, L)
                    if got != want:
                        problems.append((i, L, got, want))
                if und:
                    break
            fn = acc.fns[name]
            if und:
                res.append(undecided("C16.S", "C16/S/%s/%s" % (name, v), fn.loc(), und))
                continue
            silent = [p for p in problems if p[2][0] == "silent"]
            other = [p for p in problems if p[2][0] != "silent"]
            if silent:
                i, L, got, want = silent[0]
                res.append(bad("C16.S", "C16/S/%s/%s/out-of-range-succeeds" % (name, v), fn.loc(),
                               "%s(%d, ..) on a %s with %d list children reports success but changes nothing: an invalid index must "
                               "fail (the inserted card is silently dropped)" % (name, i, v, L)))
            if other:
                i, L, got, want = other[0]
                res.append(bad("C16.S", "C16/S/%s/%s" % (name, v), fn.loc(),
                               "%s(%d) with %d list children acts on %s, get_child(%d) addresses %s" % (name, i, L, out_s(got), i, out_s(want))))
            if not problems:
                res.append(ok("C16.S", "C16/S/%s/%s" % (name, v), fn.loc(), "agrees with get_child on all orderings (L=0..2)"))
    return res


# ---------------------------------------------------------------------------------------------------
# C16.A
# ---------------------------------------------------------------------------------------------------

def paths_to(cfg, targets, limit=20000):
    """All simple paths entry -> any target (acyclic expected). Returns list of block lists."""
    out = []
    stack = [(0, [0])]
    while stack:
        b, path = stack.pop()
        if b in targets:
            out.append(path)
            continue
        for s_ in cfg.succ[b]:
            if s_ in path:
                continue
            stack.append((s_, path + [s_]))
            if len(stack) + len(out) > limit:
                raise cs.Undecided("too many paths")
    return out


THROUGH = ("map_err", "branch", "ok_or", "ok_or_else", "map", "from_residual", "into")


def origin_call_block(fn, du, local, depth=0):
    """Follow a value back through Result/Option adaptors to the call that produced it: returns block index or None."""
    seen = set()
    while depth < 30:
        depth += 1
        if local in seen:
            return None
        seen.add(local)
        defs = du.defs.get(local, [])
        if len(defs) != 1:
            # residual locals are assigned from a downcast field of the branch result
            cands = [d for d in defs if d[2] == "assign"]
            if len(cands) != 1:
                return None
            defs = cands
        bi, si, kind, payload = defs[0]
        if kind == "call":
            names = callee_names(payload["func"])
            if any(n.rsplit("::", 1)[-1] in THROUGH for n in names) and payload["args"]:
                nl = None
                a0 = payload["args"][0]
                if a0.get("k") in ("copy", "move"):
                    nl = a0["place"]["l"]
                if nl is None:
                    return None
                local = nl
                continue
            return bi
        rv = payload["rv"]
        if rv["k"] in ("use", "cast"):
            op = rv["op"]
            if op.get("k") in ("copy", "move"):
                local = op["place"]["l"]
                continue
        if rv["k"] in ("ref",):
            local = rv["place"]["l"]
            continue
        return None
    return None


def rule_a(F):
    res = []
    f = F.fn("compiler::module::Module::swap_cards")
    cfg = f.cfg
    du = DefUse(f)
    err = mu.error_exit_blocks(f)
    err = set(b for b in err if f.blocks[b]["term"]["k"] != "unreachable" and not (f.blocks[b]["term"]["k"] == "call" and f.blocks[b]["term"]["target"] is None))
    repl = {}
    for bi, t in mu.calls(f):
        if "compiler::module::Module::replace_card" in callee_names(t["func"]):
            repl[bi] = t
    if len(repl) < 2:
        res.append(undecided("C16.A", "C16/A/swap_cards", f.loc(), "fewer than two replace_card calls found"))
    else:
        try:
            n_paths = 0
            problems = []
            for e in sorted(err & cfg.reach):
                for path in paths_to(cfg, {e}):
                    n_paths += 1
                    calls = [b for b in path if b in repl]
                    # a `?` exit belongs to the call whose result it propagates: that call failed and did nothing
                    t = f.blocks[e]["term"]
                    failed = None
                    if t["k"] == "call" and any(n.endswith("from_residual") for n in callee_names(t["func"])):
                        a0 = t["args"][0]
                        if a0.get("k") in ("copy", "move"):
                            failed = origin_call_block(f, du, a0["place"]["l"])
                    completed = [b for b in calls if b != failed]
                    if len(completed) % 2 != 0:
                        problems.append("error exit at line %s is reached after %d completed replace_card call(s) (line %s) without compensation"
                                        % (f.blocks[e]["term"].get("ln") or _ln(f, e), len(completed), ",".join(str(repl[b]["ln"]) for b in completed)))
                        continue
                    for a, b2 in zip(completed[0::2], completed[1::2]):
                        ia = op_local(repl[a]["args"][1])
                        ib = op_local(repl[b2]["args"][1])
                        same_idx = ia is not None and ib is not None and _same_origin(f, du, ia, ib)
                        cb = op_local(repl[b2]["args"][2])
                        from_first = cb is not None and origin_call_block(f, du, cb) == a
                        if not (same_idx and from_first):
                            problems.append("replace_card at line %s does not undo the one at line %s (same index: %s, restores the removed card: %s)"
                                            % (repl[b2]["ln"], repl[a]["ln"], same_idx, from_first))
            if problems:
                res.append(bad("C16.A", "C16/A/swap_cards/error-paths-restore", f.loc(), "; ".join(sorted(set(problems)))))
            else:
                res.append(ok("C16.A", "C16/A/swap_cards/error-paths-restore", f.loc(),
                              "%d error path(s): each is reached with every completed replace_card undone" % n_paths,
                              error_paths=n_paths, replace_calls=len(repl)))
        except cs.Undecided as e:
            res.append(undecided("C16.A", "C16/A/swap_cards/error-paths-restore", f.loc(), str(e)))
    # swapping a card with itself: the take-out / put-back protocol would exchange the card with its own placeholder, so
    # equal indices have to be answered before the first replace_card
    eqs = []
    for bi, b in enumerate(f.blocks):
        t = b["term"]
        if t["k"] == "call" and any(n.endswith("PartialEq::eq") or n.endswith("PartialEq::ne") for n in callee_names(t["func"])):
            tys = t.get("arg_tys", [])
            if len(tys) == 2 and all("CardIndex" in x for x in tys):
                eqs.append(bi)
    first_repl = [b for b in repl if not any(cfg.dominates(o, b) and o != b for o in repl)]
    key = "C16/A/swap_cards/same-index-is-identity"
    if eqs and repl and all(any(cfg.dominates(e, r) for e in eqs) for r in first_repl):
        res.append(ok("C16.A", key, f.loc(), "equal indices are tested before the first card is taken out"))
    else:
        res.append(bad("C16.A", key, f.loc(),
                       "swap_cards takes the first card out (leaving a placeholder) without having compared the two indices: for equal "
                       "indices the card is exchanged with its own placeholder - the call returns Ok and the card is replaced by ScalarNil"))
    # a swap is refused on structural grounds only by looking at whole indices: a test that compares the in-function paths of
    # the two indices without their `function` component treats cards of different functions as relatives
    anc = hu.control_ancestors(f.hir["body"])
    ifs = {id(x): x for x in hir_walk(f.hir["body"]) if x.get("k") == "if"}
    partial = []
    for x in hir_walk(f.hir["body"]):
        if x.get("k") == "ret" and hu.is_error_ret(x):
            for kind, nid in anc.get(id(x), ()):
                node = ifs.get(nid)
                if node is None:
                    continue
                names = set(y["name"] for y in hir_walk(node["cond"]) if y.get("k") == "field")
                calls = set(c for y in hir_walk(node["cond"]) if y.get("k") in ("call", "mcall") for c in hir_callee(y))
                if "card_index" in names and "function" not in names and not any(c.endswith("get_card") or c.endswith("replace_card") for c in calls):
                    partial.append(node)
    key = "C16/A/swap_cards/refusals-compare-whole-indices"
    if partial:
        res.append(bad("C16.A", key, f.loc(partial[0]["ln"]),
                       "swap_cards refuses a swap after comparing only the in-function paths (`card_index`) of the two indices, not their "
                       "`function`: two unrelated cards in different functions whose paths are prefix-related (0.0 and 1.0.1) cannot be swapped"))
    else:
        res.append(ok("C16.A", key, f.loc(), "no refusal is decided on partial indices"))
    # insert_card / remove_card: no error exit after a mutation
    MUT = ("std::vec::Vec::insert", "std::vec::Vec::remove", "compiler::card::Card::insert_child",
           "compiler::card::Card::remove_child", "std::mem::replace", "core::mem::replace", "std::vec::Vec::push",
           "std::vec::Vec::swap_remove")
    for name in ("insert_card", "remove_card", "replace_card"):
        g = F.fn("compiler::module::Module::" + name)
        gerr = mu.error_exit_blocks(g)
        gerr = set(b for b in gerr if g.blocks[b]["term"]["k"] != "unreachable" and not (g.blocks[b]["term"]["k"] == "call" and g.blocks[b]["term"]["target"] is None))
        muts = [(bi, t) for bi, t in mu.calls(g) if any(n in MUT for n in callee_names(t["func"]))]
        # closures passed to Result::map (replace_card) hold the mutation: count them as mutation at the adaptor call
        for bi, t in mu.calls(g):
            if any(n.endswith("Result::map") for n in callee_names(t["func"])):
                muts.append((bi, t))
        if not muts:
            res.append(undecided("C16.A", "C16/A/%s/mutation-is-last-fallible-step" % name, g.loc(), "no mutation call found"))
            continue
        late = []
        for bi, t in muts:
            if t["target"] is None:
                continue
            after = g.cfg.reachable_from(t["target"])
            if after & gerr:
                late.append((t["ln"], sorted(after & gerr)))
        if late:
            res.append(bad("C16.A", "C16/A/%s/mutation-is-last-fallible-step" % name, g.loc(late[0][0]),
                           "an error return is reachable after the module was mutated at line %s" % late[0][0]))
        else:
            res.append(ok("C16.A", "C16/A/%s/mutation-is-last-fallible-step" % name, g.loc(),
                          "%d mutation site(s), none followed by an error exit" % len(muts), mutations=len(muts)))
    return res


def _ln(f, b):
    for st in f.blocks[b]["stmts"]:
        if st.get("ln"):
            return st["ln"]
    return "?"


def _same_origin(f, du, a, b):
    def root(l):
        seen = set()
        while l not in seen:
            seen.add(l)
            d = du.sole_def(l)
            if d is None or d[2] != "assign":
                return l
            rv = d[3]["rv"]
            if rv["k"] in ("use", "cast") and rv["op"].get("k") in ("copy", "move") and not rv["op"]["place"]["p"]:
                l = rv["op"]["place"]["l"]
                continue
            if rv["k"] == "ref" and len(rv["place"]["p"]) == 1 and rv["place"]["p"][0]["k"] == "deref":
                l = rv["place"]["l"]
                continue
            return l
        return l
    return root(a) == root(b)


# ---------------------------------------------------------------------------------------------------
# C16.W
# ---------------------------------------------------------------------------------------------------

WIRING = [
    ("compiler::module::visit_children", ["compiler::card::Card::iter_children", "std::iter::Iterator::enumerate", "compiler::module::CardIndex::set_current_index", "compiler::module::CardIndex::push_subindex", "compiler::module::CardIndex::pop_subindex"]),
    ("compiler::module::visit_children_mut", ["compiler::card::Card::iter_children_mut", "std::iter::Iterator::enumerate", "compiler::module::CardIndex::set_current_index", "compiler::module::CardIndex::push_subindex", "compiler::module::CardIndex::pop_subindex"]),
    ("compiler::module::Module::get_card", ["compiler::card::Card::get_child", "compiler::module::CardIndex::begin"]),
    ("compiler::module::Module::get_card_mut", ["compiler::card::Card::get_child_mut", "compiler::module::CardIndex::begin"]),
    ("compiler::module::Module::remove_card", ["compiler::card::Card::get_child_mut", "compiler::card::Card::remove_child"]),
    ("compiler::module::Module::insert_card", ["compiler::card::Card::get_child_mut", "compiler::card::Card::insert_child"]),
    ("compiler::module::Module::replace_card", ["compiler::module::Module::get_card_mut"]),
    ("compiler::module::Module::walk_cards", ["compiler::module::visit_children", "compiler::module::CardIndex::push_subindex", "compiler::module::CardIndex::pop_subindex"]),
    ("compiler::module::Module::walk_cards_mut", ["compiler::module::visit_children_mut", "compiler::module::CardIndex::push_subindex", "compiler::module::CardIndex::pop_subindex"]),
]


def rule_w(F):
    res = []
    cg = F.callgraph
    for fn_name, needs in WIRING:
        f = F.fn(fn_name)
        callees = set()
        for _bi, names, _t in cg.sites.get(f.short, []):
            callees.update(names)
        # closures of this function (map/ok_or_else closures may hold the calls)
        for c in F.closures_of.get(f.short, []):
            for _bi, names, _t in cg.sites.get(c.short, []):
                callees.update(names)
        missing = [n for n in needs if n not in callees]
        key = "C16/W/%s" % fn_name.rsplit("::", 1)[-1]
        if missing:
            res.append(bad("C16.W", key, f.loc(), "%s no longer goes through %s: walk indices and lookups are numbered by different code" % (f.name, ", ".join(m.rsplit("::", 1)[-1] for m in missing))))
        else:
            res.append(ok("C16.W", key, f.loc(), "uses " + ", ".join(n.rsplit("::", 1)[-1] for n in needs)))
    # CardIndex push/pop/set_current_index operate on the last element of `indices`
    return res


RULES = [
    Rule("C16.S", rule_s, 290, "seven accessors agree on the child shape of every CardBody variant; invalid indices fail"),
    Rule("C16.A", rule_a, 6, "failed edits are no-ops (swap_cards compensation, mutation is the last fallible step)"),
    Rule("C16.W", rule_w, 9, "walkers enumerate with iter_children*, lookups descend with get_child*"),
]
