"""C17 — A cleared VM behaves like a fresh one; runs are deterministic and do not leak.

  C17.C  clear covers run's write set: every field of RuntimeData / CaoLangAllocator / Vm that code reachable from
         Vm::run can modify is reset by Vm::clear's call tree or re-initialised by Vm::run before interpreting.
  C17.F  frames are balanced per run: the entry frame pushed by Vm::run is removed on every path to its return.
  C17.D  no hidden state: no static with interior mutability is written on paths from Vm::run.
"""
from cao.facts import AnchorMissing, callee_names, short, op_local, op_place, DefUse, rvalue_places
from cao.rules import Rule, ok, bad, undecided, note, shared
from cao import mirutil as mu

EXPLANATION = (
    "C17.C computes from the MIR of every function reachable from Vm::run in the resolved call graph the set W of fields "
    "of RuntimeData, CaoLangAllocator and Vm that can be modified (assignment to the field, a mutable borrow of it, or an "
    "atomic store/fetch on it) and the set R of fields modified in the call tree of Vm::clear or assigned by Vm::run "
    "itself before it starts interpreting; W must be a subset of R, otherwise something a run writes survives clear(). "
    "C17.F is a path rule on Vm::run: from the push of the entry frame every path to a return passes a pop/clear of the "
    "call stack. C17.D lists the statics with interior mutability and requires that none is referenced from code "
    "reachable from Vm::run. Not decided: equality of outcomes as such."
)
ASSUMPTIONS = [
    "host functions registered by the embedder keep their own state; only the crate's state is considered",
    "the resolved call graph over-approximates indirect calls through `dyn VmFunction` by the in-crate impls",
]

OWNERS = ("vm::runtime::RuntimeData", "alloc::caolang_alloc::CaoLangAllocator", "vm::Vm")
ATOMIC_W = ("store", "fetch_add", "fetch_sub", "swap", "fetch_max", "fetch_min", "compare_exchange", "fetch_or", "fetch_and")
# fields that only *hold* the others / configuration that run never changes is derived, not listed


def written_fields(F, fn):
    """set of (owner, field) that fn may modify directly"""
    out = set()
    if not fn.mir:
        return out
    du = None
    for b in fn.blocks:
        for st in b["stmts"]:
            if st["k"] != "assign":
                continue
            # assignment into a field
            for e in st["place"]["p"]:
                if e["k"] == "field" and short(e.get("owner", "")) in OWNERS:
                    out.add((short(e["owner"]), e["name"]))
                    break
            rv = st["rv"]
            if rv["k"] in ("ref", "rawptr") and ("mut" in str(rv.get("mut", "")).lower()):
                for e in rv["place"]["p"]:
                    if e["k"] == "field" and short(e.get("owner", "")) in OWNERS:
                        out.add((short(e["owner"]), e["name"]))
                        break
        t = b["term"]
        if t["k"] == "call":
            nm = callee_names(t["func"])
            if any(n.startswith("std::sync::atomic::Atomic") and n.rsplit("::", 1)[-1] in ATOMIC_W for n in nm):
                if du is None:
                    du = DefUse(fn)
                a0 = op_local(t["args"][0]) if t["args"] else None
                if a0 is not None:
                    kind, payload = du.trace_back(a0)
                    if kind == "place":
                        for e in payload["p"]:
                            if e["k"] == "field" and short(e.get("owner", "")) in OWNERS:
                                out.add((short(e["owner"]), e["name"]))
                                break
    return out


def reach_fns(F, start):
    names = F.callgraph.reach(start)
    # dyn VmFunction::call -> in-crate impls
    if "traits::VmFunction::call" in names:
        for f in F.fns:
            if f.short.startswith("<") and "traits::VmFunction" in f.short and f.short.endswith("::call"):
                names |= F.callgraph.reach(f.short)
    # stdlib natives are registered through fn pointers: they are reachable from call_native
    for f in F.fns:
        if f.short.startswith("stdlib::native_"):
            names |= F.callgraph.reach(f.short)
    return names


def rule_c(F):
    res = []
    run = F.fn("vm::Vm::run")
    clear = F.fn("vm::Vm::clear")
    W = {}
    for n in reach_fns(F, run.short):
        for f in F.by_short.get(n, []):
            for w in written_fields(F, f):
                W.setdefault(w, f.short)
    R = {}
    for n in F.callgraph.reach(clear.short):
        for f in F.by_short.get(n, []):
            for w in written_fields(F, f):
                R.setdefault(w, f.short)
    # fields (re)initialised by Vm::run itself before the interpreter is entered
    cfg = run.cfg
    run_call = [bi for bi, t in mu.calls(run) if "vm::Vm::_run" in callee_names(t["func"])]
    pre = set()
    if run_call:
        for bi, b in enumerate(run.blocks):
            if cfg.dominates(bi, run_call[0]) and bi != run_call[0] or bi == run_call[0]:
                for st in b["stmts"]:
                    if st["k"] == "assign" and st["rv"]["k"] == "use":
                        for e in st["place"]["p"]:
                            if e["k"] == "field" and short(e.get("owner", "")) in OWNERS:
                                pre.add((short(e["owner"]), e["name"]))
                                break
    if len(W) < 6:
        raise AnchorMissing("write set of Vm::run (found %d fields)" % len(W))
    for (owner, field), by in sorted(W.items()):
        key = "C17/C/%s.%s" % (owner.rsplit("::", 1)[-1], field)
        if (owner, field) in R:
            res.append(ok("C17.C", key, "", "written during a run (e.g. by %s), reset by clear (%s)" % (by, R[(owner, field)])))
        elif (owner, field) in pre:
            res.append(ok("C17.C", key, run.loc(), "written during a run (e.g. by %s), re-initialised by Vm::run before interpreting" % by))
        else:
            res.append(bad("C17.C", key, clear.loc(),
                           "%s.%s is modified during a run (by %s) but neither Vm::clear nor the start of Vm::run resets it: a cleared VM "
                           "does not behave like a fresh one" % (owner.rsplit("::", 1)[-1], field, by)))
    return res


FRESH_CALLS = ("clear",)
KEEPS_SHAPE = ("fill", "fill_with", "iter_mut", "resize", "resize_with", "retain", "retain_mut", "truncate", "drain", "as_mut_slice",
               "swap", "reverse", "sort", "dedup", "pop", "remove", "split_off", "set_len")


def rule_e(F):
    """C17.E: what clear does to each collection field restores the state of a fresh VM - it empties it (clear(),
    mem::take, assignment of a new/default value). An operation that keeps the collection's shape (fill with nil, pop
    once, truncate to something) leaves an observable difference: the length of the globals decides between
    `variable not found` and nil."""
    from cao.facts import hir_walk, hir_callee, hir_strip
    from cao import hirutil as hu
    res = []
    f = F.fn("vm::runtime::RuntimeData::clear")
    seen = {}
    todo = [f]
    done = set()
    while todo:
        g = todo.pop()
        if g.short in done:
            continue
        done.add(g.short)
        for x in hir_walk(g.hir["body"]):
            k = x.get("k")
            if k == "mcall":
                fc = hu.field_chain(x["recv"])
                if fc is not None and fc[2] == "self" and len(fc[1]) == 1:
                    ty = (hir_strip(x["recv"]).get("ty") or "")
                    coll = any(t in ty for t in ("Vec<", "ValueStack", "BoundedStack<", "CaoHashMap<", "HandleTable<"))
                    if not coll:
                        continue
                    fld = fc[1][0]
                    if x["name"] in FRESH_CALLS:
                        seen.setdefault(fld, []).append(("fresh", x["name"], x["ln"], g))
                    elif x["name"] in KEEPS_SHAPE or (x.get("recv", {}).get("ty_adj", "") or "").startswith("&mut"):
                        seen.setdefault(fld, []).append(("keeps", x["name"], x["ln"], g))
                elif fc is not None and fc[2] == "self" and not fc[1]:
                    # helper method of RuntimeData
                    for n in hir_callee(x):
                        h = F.fn(n, required=False)
                        if h is not None and h.hir is not None and n.startswith("vm::runtime::RuntimeData::"):
                            todo.append(h)
            elif k == "call" and any(n.endswith("mem::take") or n.endswith("mem::replace") for n in hir_callee(x)):
                fc = hu.field_chain(x["args"][0])
                if fc is not None and fc[2] == "self" and len(fc[1]) == 1:
                    seen.setdefault(fc[1][0], []).append(("fresh", "mem::take", x["ln"], g))
            elif k == "assign":
                fc = hu.field_chain(x["l"])
                if fc is not None and fc[2] == "self" and len(fc[1]) == 1:
                    seen.setdefault(fc[1][0], []).append(("fresh", "assignment", x["ln"], g))
    if len(seen) < 4:
        raise AnchorMissing("field resets in RuntimeData::clear (found %d)" % len(seen))
    for fld, ops in sorted(seen.items()):
        key = "C17/E/RuntimeData.%s/reset-restores-the-fresh-state" % fld
        keeps = [o for o in ops if o[0] == "keeps"]
        fresh = [o for o in ops if o[0] == "fresh"]
        if keeps and not fresh:
            o = keeps[0]
            res.append(bad("C17.E", key, o[3].loc(o[2]),
                           "clear resets RuntimeData.%s with `%s`, which keeps the collection's shape: a cleared VM still differs from a "
                           "fresh one (e.g. global slots that exist and read nil instead of `variable not found`, frames or values left "
                           "behind)" % (fld, o[1])))
        else:
            o = (fresh or keeps)[0]
            res.append(ok("C17.E", key, o[3].loc(o[2]), "emptied by %s" % o[1]))
    return res


def rule_f(F):
    res = []
    run = F.fn("vm::Vm::run")
    cfg = run.cfg
    du = DefUse(run)
    pushes, pops = [], []
    for bi, t in mu.calls(run):
        nm = callee_names(t["func"])
        if "collections::bounded_stack::BoundedStack::push" in nm:
            pushes.append((bi, t))
        if any(n in ("collections::bounded_stack::BoundedStack::pop", "collections::bounded_stack::BoundedStack::clear",
                     "vm::runtime::RuntimeData::clear", "vm::Vm::clear") for n in nm):
            pops.append(bi)
    if not pushes:
        res.append(ok("C17.F", "C17/F/run/entry-frame-balanced", run.loc(), "Vm::run pushes no frame"))
        return res
    pb, pt = pushes[0]
    # success continuation of the push: the failing branch (`?` on the push result) leaves nothing behind
    own_fail = set()
    from rules.c16 import origin_call_block
    for bi, t in mu.calls(run):
        if any(x.endswith("from_residual") for x in callee_names(t["func"])) and t["dest"]["l"] == 0:
            a0 = op_local(t["args"][0])
            if a0 is not None and origin_call_block(run, du, a0) == pb:
                own_fail.add(bi)
    # the same branch written as `match` / `if let` / `let else` / `.is_err()`: the targets of the edges that are taken only
    # when the push itself failed
    from rules.c16 import failure_edges
    own_fail |= set(tb for (_sb, tb) in failure_edges(run, du, pb) if tb is not None)
    rets = set(cfg.return_blocks())
    r = cfg.reachable_from(pt["target"], avoid=set(pops) | own_fail)
    key = "C17/F/run/entry-frame-balanced"
    if r & rets:
        res.append(bad("C17.F", key, run.loc(pt.get("ln")),
                       "Vm::run pushes an entry call frame and returns without removing it (the program ends with Exit, which does not pop): "
                       "each run on the same VM leaks one frame and the 257th run fails with CallStackOverflow"))
        return res
    # a single pop only balances the entry frame; the interpreter loop returns from inside called functions on every error, on
    # Timeout and on Exit/Abort, with the frames of the active calls still on the stack. Unless the loop cannot push frames,
    # the cleanup has to empty the stack.
    clears = [bi for bi, t in mu.calls(run)
              if any(n in ("collections::bounded_stack::BoundedStack::clear", "vm::runtime::RuntimeData::clear", "vm::Vm::clear")
                     for n in callee_names(t["func"]))]
    # a pop inside a loop (`while stack.pop().is_some() {}`) drains the stack: as good as clear
    in_cycle = set()
    for a, h in cfg.back_edges():
        body = {h, a}
        work = [a]
        while work:
            x = work.pop()
            if x == h:
                continue
            for p_ in cfg.pred[x]:
                if p_ not in body:
                    body.add(p_)
                    work.append(p_)
        in_cycle |= body
    clears += [bi for bi, t in mu.calls(run) if bi in in_cycle and
               any(n == "collections::bounded_stack::BoundedStack::pop" for n in callee_names(t["func"]))]
    r2 = cfg.reachable_from(pt["target"], avoid=set(clears) | own_fail)
    if r2 & rets:
        inner = [n for n in ("vm::instr_execution::push_call_frame",) if n in reach_fns(F, "vm::Vm::_run")]
        if inner:
            res.append(bad("C17.F", key, run.loc(pt.get("ln")),
                           "Vm::run removes only one frame (pop) after the interpreter loop, but the loop can return with the frames of "
                           "active calls still on the call stack (%s is reachable from _run; every error, Timeout and Exit inside a "
                           "function returns without unwinding): the leftovers accumulate over runs on one VM until an otherwise fine "
                           "program fails with CallStackOverflow" % inner[0]))
            return res
    res.append(ok("C17.F", key, run.loc(pt.get("ln")), "the call stack is emptied on every path to return"))
    return res


def rule_d(F):
    res = []
    reach = reach_fns(F, "vm::Vm::run")
    statics = [s_ for s_ in F.statics if s_["interior_mutable"] or s_["mutable"]]
    user_statics = [s_ for s_ in statics if "__CALLSITE" not in s_["path"]]
    for s_ in user_statics:
        name = short(s_["path"])
        users = set()
        for f in F.fns:
            if not f.mir:
                continue
            for b in f.blocks:
                for st in b["stmts"]:
                    if st["k"] == "assign":
                        rv = st["rv"]
                        if rv["k"] == "use" and rv["op"].get("k") == "const" and short(rv["op"].get("static", "")) == name:
                            users.add(f.root or f.short)
        hot = sorted(u for u in users if u in reach)
        key = "C17/D/static/%s" % name.rsplit("::", 1)[-1]
        if hot:
            res.append(bad("C17.D", key, "%s:%s" % (s_["file"], s_["line"]), "mutable static %s is used on paths from Vm::run (%s): runs are not a function of program and VM state" % (name, hot)))
        else:
            res.append(ok("C17.D", key, "%s:%s" % (s_["file"], s_["line"]), "mutable static %s is not referenced from code reachable from Vm::run (users: %s)" % (name, sorted(users))))
    if not user_statics:
        res.append(ok("C17.D", "C17/D/no-mutable-statics", "", "the crate has no mutable static besides tracing call sites"))
    return res


def _c05_rule_m(F):
    from rules import c05 as _c05
    return _c05.rule_m(F)


def _c05_rule_a(F):
    from rules import c05 as _c05
    return _c05.rule_a(F)


def _c05_rule_o(F):
    from rules import c05 as _c05
    return _c05.rule_o(F)


RULES = [
    Rule("C17.O", shared(_c05_rule_o, "C05.O", "C17.O"), 7, "every block charged by the accounting allocator has an owner on every exit: a refused run leaves nothing charged that clear() cannot return (shared with C05.O)"),
    Rule("C17.M", shared(_c05_rule_m, "C05.M", "C17.M"), 2, "a VM whose limit was changed collects and accounts like a new VM with that limit (shared with C05.M)"),
    Rule("C17.A", shared(_c05_rule_a, "C05.A", "C17.A"), 5, "accounted memory is a running balance moved only by alloc / dealloc: clear() may not overwrite it (shared with C05.A)"),
    Rule("C17.C", rule_c, 6, "clear (or the start of run) resets every field a run can write"),
    Rule("C17.E", rule_e, 4, "what clear does to each field restores the fresh state"),
    Rule("C17.F", rule_f, 1, "the entry frame is balanced per run"),
    Rule("C17.D", rule_d, 1, "no mutable static on paths from Vm::run"),
]
