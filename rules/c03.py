"""C03 — The instruction budget bounds every run, so every run terminates.

  C03.D  every dispatch is charged: the budget decrement and its Timeout test dominate the opcode switch of Vm::_run,
         and Vm::_run is the only function that turns bytecode bytes into Instructions on the VM side.
  C03.B  one budget per top-level run: the decremented place is a field of Vm (shared by re-entrant _run calls made by
         Vm::run_function), reset only by Vm::run from max_instr.
  C03.Z  the decrement cannot wrap: it is preceded by a test that excludes 0 (needed once the counter is shared, because
         a native may call back into the VM after a Timeout).
  C03.T  exhausting the budget yields ExecutionErrorPayload::Timeout and the counter influences nothing else.

How the charge is found (by what it does, not how it is spelled). A *budget test* is a switch whose outcome is a function
of one counter place P:
  - a comparison of P (or a copy) with a constant, possibly negated; a switch on P itself (`match P { 0 => .. }`);
  - the discriminant of `P.checked_sub(k)` (match / if let / let else), directly or after the Option went through
    ok_or / ok_or_else / map_err / Try::branch (`?`);
  - the discriminant (or `?`) of the Result of a private helper that itself contains a budget test on a place reachable
    from one of its parameters (`fn charge(&mut self) -> Result<(), ..>`): the helper is summarised (every return that is
    not taken from the exhausted edge has stored the decrement, the exhausted edge never yields Ok).
For each test the successor taken for a given counter value is known (`edge(v)`), so "the exhausted edge leads to Timeout
and never to the dispatch", "the other edge is the only way to the dispatch" and "values below the subtrahend never reach
a plain subtraction" are graph questions. A *decrement* is a store into P whose value derives - through copies, tuple
fields of the overflow-checked subtraction, the Some/Ok/Continue payloads and the adaptors above - from `P - k` computed by
`-`, checked_sub, saturating_sub, wrapping_sub, ...; a subtraction whose result is not stored back is not a decrement.
"""
from cao.facts import AnchorMissing, callee_names, short, op_local, op_place, op_const, DefUse
from cao.rules import Rule, ok, bad, undecided, note
from cao import mirutil as mu

EXPLANATION = (
    "Once every dispatch of the interpreter loop costs one unit of a single counter that lives in the Vm (not in a frame "
    "of _run), 'at most N instructions including native->script callbacks' holds for every program: it is a dominance "
    "fact about Vm::_run's CFG plus a who-may-write fact about the counter. The rules locate the Timeout construction, "
    "the comparison guarding it, the place compared (the budget), require a decrement of that same place and the test to "
    "dominate the opcode switch, require the place to be a field of Vm written elsewhere only by Vm::run (from "
    "max_instr), and require that the counter flows into no other computation (so a sufficient budget cannot change a "
    "result)."
)
ASSUMPTIONS = [
    "native (host) functions terminate on their own; only interpreted instructions are budgeted",
    "C10 (every instruction is decoded by the single dispatch loop)",
]

CMP_OPS = ("Eq", "Ne", "Lt", "Le", "Gt", "Ge")
SUB_BIN = ("Sub", "SubWithOverflow", "SubUnchecked")
SUB_CALLS = ("checked_sub", "saturating_sub", "wrapping_sub", "overflowing_sub", "unchecked_sub", "strict_sub")
# adaptors that hand the "present" payload of an Option/Result/ControlFlow on unchanged and keep "absent" absent
KEEP_ABSENT = ("branch", "ok_or", "ok_or_else", "map_err")
# adaptors that extract the payload: the first group diverges when it is absent, the second substitutes a value
UNWRAP_PANICS = ("unwrap", "expect", "unwrap_unchecked")
UNWRAP_SUBST = ("unwrap_or", "unwrap_or_default", "unwrap_or_else")


def place_key(p):
    return (p["l"], tuple(e["name"] if e["k"] == "field" else e["k"] for e in p["p"]))


def _last(func):
    ns = callee_names(func)
    return ns[0].rsplit("::", 1)[-1] if ns else ""


def _is_timeout_agg(rv):
    return rv["k"] == "agg" and rv["agg"].get("variant") == "Timeout" and short(rv["agg"].get("path", "")).endswith("ExecutionErrorPayload")


def timeout_blocks_of(fn):
    return [bi for bi, b in enumerate(fn.blocks) for st in b["stmts"] if st["k"] == "assign" and _is_timeout_agg(st["rv"])]


def _through_copy(du, p):
    """a bare single-assignment local that is a copy (of a copy ..) of a place stands for that place"""
    seen = set()
    while p is not None and not p["p"] and p["l"] not in seen:
        seen.add(p["l"])
        d = du.sole_def(p["l"])
        if d is None or d[2] != "assign" or d[3]["rv"]["k"] != "use":
            break
        q = op_place(d[3]["rv"]["op"])
        if q is None:
            break
        p = q
    return p


def _reads(du, op, pk):
    """operand reads the place with key pk, directly or through one copy"""
    p = op_place(op)
    if p is None:
        return False
    return place_key(p) == pk or place_key(_through_copy(du, p)) == pk


def _produces_timeout(F, fn, du, op):
    """the operand is ExecutionErrorPayload::Timeout, or a closure whose body constructs it"""
    l = op_local(op)
    seen = set()
    while l is not None and l not in seen:
        seen.add(l)
        d = du.sole_def(l)
        if d is None or d[2] != "assign":
            return False
        rv = d[3]["rv"]
        if _is_timeout_agg(rv):
            return True
        if rv["k"] == "agg" and rv["agg"]["k"] == "closure":
            c = F.fn(short(rv["agg"].get("path", "")), required=False)
            return c is not None and c.mir is not None and bool(timeout_blocks_of(c))
        if rv["k"] in ("use", "cast"):
            l = op_local(rv["op"])
        elif rv["k"] == "ref" and not rv["place"]["p"]:
            l = rv["place"]["l"]
        else:
            return False
    return False


def _fallible_origin(F, fn, du, local):
    """`local` holds an Option / Result / ControlFlow. Follow it back through moves and absent-preserving adaptors to where
    presence was decided: {'kind': 'checked', 'call', 'block', 'place', 'k', 'timeout'} for P.checked_sub(k), or
    {'kind': 'helper', 'call', 'block', 'callee'} for the result of a crate-local function; None if neither.
    'timeout' tells whether an ok_or / ok_or_else on the way supplies ExecutionErrorPayload::Timeout for the absent case."""
    timeout = False
    seen = set()
    while local is not None and local not in seen:
        seen.add(local)
        d = du.sole_def(local)
        if d is None:
            return None
        if d[2] == "assign":
            rv = d[3]["rv"]
            if rv["k"] != "use":
                return None
            local = op_local(rv["op"])
            continue
        t = d[3]
        last = _last(t["func"])
        if last == "checked_sub" and len(t["args"]) == 2 and not t["func"].get("local"):
            p = op_place(t["args"][0])
            if p is None:
                return None
            return {"kind": "checked", "call": t, "block": d[0], "place": _through_copy(du, p), "k": op_const(t["args"][1]), "timeout": timeout}
        if last in KEEP_ABSENT and not t["func"].get("local") and t["args"]:
            if last in ("ok_or", "ok_or_else") and len(t["args"]) > 1 and _produces_timeout(F, fn, du, t["args"][1]):
                timeout = True
            local = op_local(t["args"][0])
            continue
        if t["func"].get("local") or t["func"].get("resolved_local"):
            for n in callee_names(t["func"]):
                h = F.fn(n, required=False)
                if h is not None and h.mir and not h.is_closure:
                    return {"kind": "helper", "call": t, "block": d[0], "callee": h, "timeout": timeout}
        return None
    return None


def _cmp_eval(op, a, b):
    return {"Eq": a == b, "Ne": a != b, "Lt": a < b, "Le": a <= b, "Gt": a > b, "Ge": a >= b}[op]


def budget_test_at(F, fn, du, g, allow_helper=True):
    """Interpret the switch that ends block g as a test of a counter. Returns None or a dict with
       kind   'cmp' | 'switch' | 'checked' | 'helper'
       place  the counter (for 'helper': the counter in the callee's terms, see 'inner')
       edge   f(v) -> successor of g taken when the counter holds v (for 'helper': v == 0 stands for exhausted, else not)
       ln     source line of the test
       timeout  True if the test itself carries the Timeout value (ok_or(Timeout) / helper constructing it)"""
    t = fn.blocks[g]["term"]
    if t["k"] != "switch":
        return None
    targets = dict((v, b) for v, b in t["targets"])

    def succ(v):
        return targets.get(int(v), t["otherwise"])
    dp = op_place(t["discr"])
    if dp is None:
        return None
    if dp["p"]:
        # match <place> { 0 => .. }
        return {"kind": "switch", "guard": g, "place": dp, "edge": succ, "ln": t.get("ln"), "timeout": False, "cmp": None}
    c = dp["l"]
    neg = False
    for _ in range(4):
        d = du.sole_def(c)
        if d is None:
            # a condition temporary assigned in this block only
            ds = [x for x in du.defs.get(c, []) if x[0] == g and x[2] == "assign"]
            d = ds[-1] if ds else None
        if d is None or d[2] != "assign":
            return None
        st = d[3]
        rv = st["rv"]
        if rv["k"] == "un" and rv["op"] == "Not":
            c = op_local(rv["x"])
            neg = not neg
            if c is None:
                return None
            continue
        break
    else:
        return None
    if rv["k"] == "bin" and rv["op"] in CMP_OPS:
        lc, rc = op_const(rv["l"]), op_const(rv["r"])
        lp, rp = op_place(rv["l"]), op_place(rv["r"])
        if lp is not None and isinstance(rc, int) and not isinstance(rc, bool):
            place, ev = lp, (lambda v, o=rv["op"], k=rc: _cmp_eval(o, v, k))
        elif rp is not None and isinstance(lc, int) and not isinstance(lc, bool):
            place, ev = rp, (lambda v, o=rv["op"], k=lc: _cmp_eval(o, k, v))
        else:
            return None
        place = _through_copy(du, place)
        return {"kind": "cmp", "guard": g, "place": place, "edge": (lambda v: succ(ev(v) != neg)), "ln": st.get("ln"), "timeout": False, "cmp": st}
    if rv["k"] == "use" and not neg:
        p = op_place(rv["op"])
        if p is not None and p["p"]:
            return {"kind": "switch", "guard": g, "place": p, "edge": succ, "ln": st.get("ln"), "timeout": False, "cmp": st}
        return None
    if rv["k"] == "discr" and not neg and not rv["place"]["p"]:
        adt = short(rv.get("adt", "")).rsplit("::", 1)[-1]
        if adt not in ("Option", "Result", "ControlFlow"):
            return None
        absent = 0 if adt == "Option" else 1   # None = 0; Err = 1; Break = 1
        o = _fallible_origin(F, fn, du, rv["place"]["l"])
        if o is None:
            return None
        if o["kind"] == "checked":
            k = o["k"]
            if not isinstance(k, int):
                return None
            return {"kind": "checked", "guard": g, "place": o["place"], "edge": (lambda v: succ(absent if v < k else 1 - absent)), "ln": st.get("ln"),
                    "timeout": o["timeout"], "cmp": st, "origin": o, "value": rv["place"]["l"]}
        if adt == "Option" or not allow_helper:
            return None     # helpers are summarised only when they report exhaustion as an Err; one level of delegation
        inner = charge_summary(F, o["callee"])
        if inner is None:
            return None
        return {"kind": "helper", "guard": g, "place": inner["place"], "edge": (lambda v: succ(absent if v == 0 else 1 - absent)), "ln": st.get("ln"),
                "timeout": True, "cmp": st, "origin": o, "inner": inner}
    return None


def budget_tests(F, fn, allow_helper=True):
    """every switch of fn that is a budget test connected to ExecutionErrorPayload::Timeout: the edge taken with the counter
    at 0 dominates the block constructing Timeout (the nearest such switch above that block), or the test carries the
    Timeout value itself (`.ok_or(Timeout)?`, helper)."""
    du = DefUse(fn)
    cfg = fn.cfg
    out = []
    done = set()
    for tb in timeout_blocks_of(fn):
        for g in sorted(cfg.dom.get(tb, ()), key=lambda x: -len(cfg.dom[x])):
            if g == tb or fn.blocks[g]["term"]["k"] != "switch":
                continue
            t = budget_test_at(F, fn, du, g, allow_helper)
            if t is not None and t["edge"](0) != t["edge"](1 << 40) and cfg.dominates(t["edge"](0), tb):
                if g not in done:
                    done.add(g)
                    t["timeout_block"] = tb
                    out.append(t)
                break
    for g in sorted(cfg.reach):
        if g in done or fn.blocks[g]["term"]["k"] != "switch":
            continue
        # only discriminant switches can carry the Timeout themselves
        dl = op_local(fn.blocks[g]["term"]["discr"])
        d = du.sole_def(dl) if dl is not None else None
        if d is None or d[2] != "assign" or d[3]["rv"]["k"] != "discr":
            continue
        t = budget_test_at(F, fn, du, g, allow_helper)
        if t is not None and t["timeout"]:
            t["timeout_block"] = None
            out.append(t)
    return out


def charge_summary(F, h):
    """Summary of a helper that charges the budget: it contains exactly one budget test (not itself delegated) on a counter
    reachable from a parameter; every path from entry to a return passes the exhausted edge or a store of the decrement; no
    Ok value is built on the exhausted edge. Returns {'fn', 'test', 'place', 'param', 'decs'} or None."""
    _SUMMARIES = F.__dict__.setdefault("_c03_charge_summaries", {})
    key = h.short
    if key in _SUMMARIES:
        return _SUMMARIES[key]
    _SUMMARIES[key] = None
    if not timeout_blocks_of(h) and not any(timeout_blocks_of(c) for c in F.closures_of.get(h.short, []) if c.mir):
        return None     # a charging helper names the Timeout itself
    tests = budget_tests(F, h, allow_helper=False)
    if len(tests) != 1:
        return None
    t = tests[0]
    place = t["place"]
    if not (1 <= place["l"] <= h.mir["arg_count"]) or not place["p"] or place["p"][0]["k"] != "deref":
        return None
    cfg = h.cfg
    g = t["guard"]
    exhausted = t["edge"](0)
    rest = t["edge"](1 << 40)
    decs = decrements_of(h, place)
    stores = set(d[0] for d in decs)
    rets = cfg.return_blocks()
    if not cfg.every_path_passes(0, rets, {g}):
        return None
    charged = cfg.every_path_passes(0, rets, stores | {exhausted})
    # the exhausted edge must not produce an Ok / fall back into the charged path
    ok_on_exhausted = False
    for bi in cfg.reachable_from(exhausted, avoid={g}):
        if bi == rest or bi in stores:
            ok_on_exhausted = True
        for st in h.blocks[bi]["stmts"]:
            if st["k"] == "assign" and st["place"]["l"] == 0 and st["rv"]["k"] == "agg" and st["rv"]["agg"].get("variant") in ("Ok", "Continue", "Some"):
                ok_on_exhausted = True
    s = {"fn": h, "test": t, "place": place, "param": place["l"], "decs": decs, "charged": charged and bool(stores), "ok_on_exhausted": ok_on_exhausted}
    _SUMMARIES[key] = s
    return s


def translate_place(fn, du, call, inner_place):
    """the callee's `(*param).rest` in the caller's terms: the argument is `&mut Q` (possibly reborrowed) -> Q.rest"""
    i = inner_place["l"] - 1
    if i >= len(call["args"]):
        return None
    l = op_local(call["args"][i])
    q = None
    seen = set()
    while l is not None and l not in seen:
        seen.add(l)
        d = du.sole_def(l)
        if d is None or d[2] != "assign":
            return None
        rv = d[3]["rv"]
        if rv["k"] in ("ref", "rawptr"):
            pl = rv["place"]
            if len(pl["p"]) == 1 and pl["p"][0]["k"] == "deref" and du.sole_def(pl["l"]) is not None:
                l = pl["l"]     # reborrow of a reference temporary
                continue
            q = pl
            break
        if rv["k"] == "use":
            l = op_local(rv["op"])
            continue
        return None
    if q is None:
        if l is not None and 1 <= l <= fn.mir["arg_count"]:
            # the reference parameter itself is handed on
            return {"l": l, "p": list(inner_place["p"])}
        return None
    return {"l": q["l"], "p": list(q["p"]) + list(inner_place["p"][1:])}


def opcode_switch(F):
    """The opcode switch of the interpreter wherever it lives: (function, block, {variant: target block}).
    (kept as an alias: the implementation moved to rules.c10)"""
    from rules.c10 import opcode_switch as _impl
    return _impl(F)


def run_dispatch2(F):
    """The interpreter loop, also when the opcode switch lives in a private function that the loop calls once per iteration
    (driver loop + `execute_instruction`): alias of rules.c10.dispatch_info (the implementation moved there). Dict:
       fn       the function that holds the dispatch loop (the driver)
       sites    the blocks of fn where an instruction is dispatched: the opcode switch itself, or the call(s) of the function
                through which the opcode switch is reached
       header   the loop header in fn
       switch_fn, switch_block, targets   the opcode switch
       chain    [fn, .., switch_fn]   the functions from the loop down to the switch
       stray    [(function, line)] calls of a chain member from outside the loop chain: dispatches that bypass the loop"""
    from rules.c10 import dispatch_info
    return dispatch_info(F)


def find_budget(F):
    """Locate the interpreter loop, the budget test connected to Timeout in it, and the counter tested. Returns dict:
       fn/sws/header  the loop function, the blocks where it dispatches an instruction (the opcode switch, or the call of the
                      function holding it) and the loop header
       timeout        True if a Timeout is constructed in (or for) the loop function
       test, guard    the budget test and its block in fn;  place: the counter in fn's terms
       cfn, cplace    the function holding the comparison and the decrement (fn, or the summarised helper) and the counter there"""
    d = run_dispatch2(F)
    fn, sws, header = d["fn"], d["sites"], d["header"]
    info = {"fn": fn, "sws": sws, "header": header, "dispatch": d, "timeout": None, "guard": None, "place": None, "test": None}
    tests = budget_tests(F, fn)
    has_timeout = bool(timeout_blocks_of(fn)) or bool(tests)
    if not has_timeout:
        # `.ok_or_else(|| .. Timeout ..)` with an unrecognised shape still counts as "a Timeout exists"
        has_timeout = any(timeout_blocks_of(c) for c in F.closures_of.get(fn.short, []) if c.mir)
    info["timeout"] = has_timeout or None
    if not tests:
        return info
    cfg = fn.cfg
    tests.sort(key=lambda t: (not all(cfg.dominates(t["guard"], sw) for sw in sws), t["guard"]))
    t = tests[0]
    info.update(test=t, guard=t["guard"], cmp={"ln": t["ln"]})
    if t["kind"] == "helper":
        inner = t["inner"]
        info["cfn"], info["cplace"], info["inner"] = inner["fn"], inner["place"], inner
        info["place"] = translate_place(fn, DefUse(fn), t["origin"]["call"], inner["place"])
    else:
        info["cfn"], info["cplace"], info["place"] = fn, t["place"], t["place"]
    return info


def _sub_origin(fn, du, p, pk, via=None, depth=0):
    """Trace the value read from place p back to `P - k` (P = the place with key pk). Returns None or
       {'op': Sub | SubWithOverflow | checked_sub | saturating_sub | ..., 'k': constant or None, 'block', 'ln', 'via': [adaptors]}"""
    via = list(via or [])
    if depth > 12 or p is None or place_key(p) == pk:
        return None
    proj = p["p"]
    if proj:
        kinds = [e["k"] for e in proj]
        if kinds == ["field"] and proj[0].get("name") == "0":
            o = _sub_origin(fn, du, {"l": p["l"], "p": []}, pk, via, depth + 1)
            return o if o is not None and o["op"] in ("SubWithOverflow", "overflowing_sub") else None
        if kinds == ["downcast", "field"] and proj[0].get("variant") in ("Some", "Ok", "Continue"):
            return _sub_origin(fn, du, {"l": p["l"], "p": []}, pk, via + ["payload"], depth + 1)
        return None
    d = du.sole_def(p["l"])
    if d is None:
        return None
    if d[2] == "assign":
        rv = d[3]["rv"]
        if rv["k"] == "use":
            return _sub_origin(fn, du, op_place(rv["op"]), pk, via, depth + 1)
        if rv["k"] == "bin" and rv["op"] in SUB_BIN and _reads(du, rv["l"], pk):
            return {"op": rv["op"], "k": op_const(rv["r"]), "block": d[0], "ln": d[3].get("ln"), "via": via}
        return None
    t = d[3]
    last = _last(t["func"])
    if t["func"].get("local") or not t["args"]:
        return None
    if last in SUB_CALLS and len(t["args"]) == 2 and _reads(du, t["args"][0], pk):
        return {"op": last, "k": op_const(t["args"][1]), "block": d[0], "ln": t.get("ln"), "via": via}
    if last in KEEP_ABSENT or last in UNWRAP_PANICS or last in UNWRAP_SUBST:
        return _sub_origin(fn, du, op_place(t["args"][0]), pk, via + [last], depth + 1)
    return None


def decrements_of(fn, place):
    """Stores `place = place - k` in fn: [(block of the store, op, line, origin)] - the value stored derives from a
    subtraction (Sub / SubWithOverflow / saturating_sub / checked_sub / wrapping_sub ..) whose left operand is the place."""
    pk = place_key(place)
    out = []
    du = DefUse(fn)
    for bi, b in enumerate(fn.blocks):
        for st in b["stmts"]:
            if st["k"] != "assign" or place_key(st["place"]) != pk:
                continue
            rv = st["rv"]
            o = None
            if rv["k"] == "bin" and rv["op"] in SUB_BIN and _reads(du, rv["l"], pk):
                o = {"op": rv["op"], "k": op_const(rv["r"]), "block": bi, "ln": st.get("ln"), "via": []}
            elif rv["k"] == "use":
                o = _sub_origin(fn, du, op_place(rv["op"]), pk)
            if o is not None:
                out.append((bi, o["op"], o["ln"] or st.get("ln"), o))
        t = b["term"]
        if t["k"] == "call" and place_key(t["dest"]) == pk and not t["func"].get("local") and _last(t["func"]) in SUB_CALLS \
                and len(t["args"]) == 2 and _reads(du, t["args"][0], pk):
            # the store happens when the call returns: it belongs to the successor
            out.append((t["target"] if t.get("target") is not None else bi, _last(t["func"]), t.get("ln"),
                        {"op": _last(t["func"]), "k": op_const(t["args"][1]), "block": bi, "ln": t.get("ln"), "via": []}))
    return out


BIG = 1 << 40    # a counter value on the far side of every constant the tests compare with


def rule_d(F):
    res = []
    info = find_budget(F)
    fn = info["fn"]
    if info.get("timeout") is None:
        res.append(bad("C03.D", "C03/D/_run/timeout-exists", fn.loc(), "Vm::_run never produces ExecutionErrorPayload::Timeout: runs are unbounded"))
        return res
    if info.get("guard") is None or info.get("place") is None:
        res.append(undecided("C03.D", "C03/D/_run/budget-test", fn.loc(), "could not identify the comparison guarding Timeout"))
        return res
    cfg = fn.cfg
    guard, sws, t = info["guard"], info["sws"], info["test"]
    exhausted = t["edge"](0)
    inner = info.get("inner")
    if not all(cfg.dominates(guard, sw) for sw in sws):
        res.append(bad("C03.D", "C03/D/_run/test-dominates-dispatch", fn.loc(), "some path reaches the opcode switch without passing the budget test"))
    elif set(sws) & cfg.reachable_from(exhausted, avoid={guard}) or (inner is not None and inner["ok_on_exhausted"]):
        res.append(bad("C03.D", "C03/D/_run/test-dominates-dispatch", fn.loc(t.get("ln")),
                       "the budget is tested, but with the budget used up the opcode switch is still reached: the outcome of the test does not stop the dispatch"))
    else:
        res.append(ok("C03.D", "C03/D/_run/test-dominates-dispatch", fn.loc(fn.blocks[guard]["term"].get("ln")),
                      "the budget test dominates the opcode switch: no instruction is dispatched without it"))
    if inner is None:
        decs = decrements_of(fn, info["place"])
        dom_decs = [d for d in decs if all(cfg.dominates(d[0], sw) for sw in sws) and cfg.dominates(info["header"], d[0])]
        ln = dom_decs[0][2] if dom_decs else None
    else:
        # the helper stores the decrement on every path that does not leave through its exhausted edge, and it is called
        # once per iteration on every path to the opcode switch
        cb = t["origin"]["block"]
        dom_decs = inner["decs"] if inner["charged"] and all(cfg.dominates(cb, sw) for sw in sws) and cfg.dominates(info["header"], cb) else []
        ln = t["origin"]["call"].get("ln")
    if dom_decs:
        res.append(ok("C03.D", "C03/D/_run/decrement-dominates-dispatch", fn.loc(ln),
                      "the tested counter is decremented once per iteration on every path to the opcode switch"))
    else:
        res.append(bad("C03.D", "C03/D/_run/decrement-dominates-dispatch", fn.loc(),
                       "the counter compared against the limit is not decremented on every path to the opcode switch"))
    # only _run decodes opcodes on the VM side (transmute u8 -> Instruction / TryFrom)
    decoders = []
    for f in F.fns:
        if not f.mir:
            continue
        for b in f.blocks:
            for st in b["stmts"]:
                if st["k"] == "assign" and st["rv"]["k"] == "cast" and st["rv"]["kind"] == "Transmute" and st["rv"]["ty"].endswith("instruction::Instruction"):
                    decoders.append(f.short)
    decoders = sorted(set(decoders))
    chain = [g.short for g in info["dispatch"]["chain"]]
    allowed = set(chain) | {"compiled_program::CaoCompiledProgram::disassemble_writer"}
    extra = [d for d in decoders if d not in allowed]
    stray = info["dispatch"]["stray"]
    if stray:
        res.append(bad("C03.D", "C03/D/single-dispatcher", fn.loc(), "the function executing an opcode is also called from outside the budgeted loop: %s" % stray))
    elif any(c in decoders for c in chain) and not extra:
        res.append(ok("C03.D", "C03/D/single-dispatcher", fn.loc(), "bytes become Instructions only in Vm::_run (and the disassembler)", decoders=decoders))
    else:
        res.append(bad("C03.D", "C03/D/single-dispatcher", fn.loc(), "other code decodes instructions outside the budgeted loop: %s" % extra))
    return res


def copy_of_vm_field(F, fn, place):
    """The tested counter is `*p` for a parameter p of the loop function, and every caller passes a reference to a local
    that was loaded from one field of Vm and is stored back into it after the call: returns that field's name."""
    if not place["p"] and place["l"] > fn.mir["arg_count"]:
        # a local of the loop function itself that is loaded from a field of Vm and stored back to it
        du0 = DefUse(fn)
        init = None
        for d in du0.defs.get(place["l"], []):
            if d[2] == "assign" and d[3]["rv"]["k"] == "use":
                q = op_place(d[3]["rv"]["op"])
                if q is not None and not q["p"]:
                    kind, payload = du0.trace_back(q["l"])
                    q = payload if kind == "place" else q
                if q is not None and q["l"] == 1:
                    fs = [(e["name"], short(e.get("owner", ""))) for e in q["p"] if e["k"] == "field"]
                    if fs and fs[0][1] == "vm::Vm":
                        init = fs[0][0]
        if init is None:
            return None
        stored = any(st["k"] == "assign" and st["place"]["l"] == 1 and [e["name"] for e in st["place"]["p"] if e["k"] == "field"] == [init]
                     for b in fn.blocks for st in b["stmts"])
        return init if stored else None
    if not (place["p"] and place["p"][0]["k"] == "deref" and 1 <= place["l"] <= fn.mir["arg_count"]):
        return None
    fields = set()
    for g in F.fns:
        if not g.mir or g is fn:
            continue
        du = DefUse(g)
        for bi, t in mu.calls(g):
            if fn.short not in callee_names(t["func"]) or len(t["args"]) < place["l"]:
                continue
            # the argument is `&mut <local>` (possibly reborrowed): walk the references back to that local
            l = op_local(t["args"][place["l"] - 1])
            seen = set()
            while l is not None and l not in seen:
                seen.add(l)
                d = du.sole_def(l)
                if d is None or d[2] != "assign" or d[3]["rv"]["k"] not in ("ref", "rawptr"):
                    break
                pl_ = d[3]["rv"]["place"]
                if [e for e in pl_["p"] if e["k"] != "deref"]:
                    l = None
                    break
                l = pl_["l"]
            if l is None:
                return None
            init = None
            for d in du.defs.get(l, []):
                if d[2] == "assign" and d[3]["rv"]["k"] == "use":
                    q = op_place(d[3]["rv"]["op"])
                    if q is not None and q["l"] == 1:
                        fs = [(e["name"], short(e.get("owner", ""))) for e in q["p"] if e["k"] == "field"]
                        if fs and fs[0][1] == "vm::Vm":
                            init = fs[0][0]
            def is_l(op):
                q_ = op_place(op)
                if q_ is None or q_["p"]:
                    return False
                if q_["l"] == l:
                    return True
                d_ = du.sole_def(q_["l"])
                return d_ is not None and d_[2] == "assign" and d_[3]["rv"]["k"] == "use" and (op_place(d_[3]["rv"]["op"]) or {}).get("l") == l \
                    and not (op_place(d_[3]["rv"]["op"]) or {}).get("p")
            stored_back = any(st["k"] == "assign" and [e["name"] for e in st["place"]["p"] if e["k"] == "field"] == [init]
                              and st["rv"]["k"] == "use" and is_l(st["rv"]["op"])
                              for b in g.blocks for st in b["stmts"]) if init else False
            if init is None or not stored_back:
                return None
            fields.add(init)
    return next(iter(fields)) if len(fields) == 1 else None


def synced_copy(F, fn, place, field, info):
    """The loop counts on a copy of Vm.<field>. Every call inside the loop that can re-enter the interpreter (reach
    run_function / the loop itself / call_native, through which host functions run) must hand the copy over before
    (store field <- copy) and take it back after (load copy <- field), otherwise the nested run draws from a stale field and
    its consumption is lost."""
    from cao.facts import CallGraph
    res = []
    cg = CallGraph(F)
    reenter = cg.callers_closure({"vm::Vm::run_function", fn.short, "vm::instr_execution::call_native"})
    cfg = fn.cfg
    pk = place_key(place)
    stores, loads = set(), set()
    for bi, b in enumerate(fn.blocks):
        for st in b["stmts"]:
            if st["k"] != "assign":
                continue
            lhs_f = [e["name"] for e in st["place"]["p"] if e["k"] == "field"]
            if st["place"]["l"] == 1 and lhs_f == [field]:
                stores.add(bi)
            if place_key(st["place"]) == pk and st["rv"]["k"] == "use":
                q = op_place(st["rv"]["op"])
                du = DefUse(fn)
                if q is not None and not q["p"]:
                    kind, payload = du.trace_back(q["l"])
                    q = payload if kind == "place" else q
                if q is not None and q["l"] == 1 and [e["name"] for e in q["p"] if e["k"] == "field"] == [field]:
                    loads.add(bi)
    n = 0
    badsites = []
    header = info["header"]
    for bi, t in mu.calls(fn):
        names = callee_names(t["func"])
        if not any(n_ in reenter for n_ in names) or not cfg.dominates(header, bi):
            continue
        n += 1
        # nearest dominating store within the same iteration, and a load on every path from the call back to the header
        pre = any(cfg.dominates(sb, bi) and cfg.dominates(header, sb) and sb != header for sb in stores)
        post = t.get("target") is not None and cfg.every_path_passes(t["target"], [header], loads)
        if not (pre and post):
            badsites.append((t, names[0], pre, post))
    key = "C03/B/%s/budget-copy-is-synchronised" % fn.name
    if badsites:
        t, nm, pre, post = badsites[0]
        res.append(bad("C03.B", key, fn.loc(t.get("ln")),
                       "the interpreter loop counts on a copy of Vm.%s, and the call to %s - which can re-enter the interpreter (host functions "
                       "call run_function) - is not bracketed by handing the copy over and taking it back (%s): the nested run starts from a "
                       "stale budget and what it consumes is lost, so a run executes more than its budget"
                       % (field, nm.rsplit("::", 1)[-1], "no store before" if not pre else "no reload after")))
    else:
        res.append(ok("C03.B", key, fn.loc(), "copy of Vm.%s; all %d re-entering calls in the loop are bracketed by store/reload" % (field, n)))
    return res


def budget_stores(f, fname):
    """stores into the field Vm.<fname> in f: [(block, stmt, kind)] with kind
       'init'   the Vm is a value the function owns (under construction), not one it reaches through a reference
       'reset'  the value stored is (a copy of) the field max_instr of the same Vm
       'other'  anything else (a decrement, a constant, a computed value)"""
    out = []
    du = None
    for bi, b in enumerate(f.blocks):
        for st in b["stmts"]:
            if st["k"] != "assign":
                continue
            pl = st["place"]
            idx = [n for n, e in enumerate(pl["p"]) if e["k"] == "field" and e["name"] == fname and short(e.get("owner", "")) == "vm::Vm"]
            if not idx:
                continue
            du = du or DefUse(f)
            base = pl["p"][:idx[0]]
            kind = "other"
            if not any(e["k"] == "deref" for e in base):
                kind = "init"
            elif st["rv"]["k"] == "use":
                q = _through_copy(du, op_place(st["rv"]["op"]))
                if q is not None and q["l"] == pl["l"] and len(q["p"]) == len(base) + 1 and [e["k"] for e in q["p"][:-1]] == [e["k"] for e in base] \
                        and q["p"][-1]["k"] == "field" and q["p"][-1]["name"] == "max_instr" and short(q["p"][-1].get("owner", "")) == "vm::Vm":
                    kind = "reset"
            out.append((bi, st, kind))
    return out


def functions_running_inside_the_loop(F, loop_fn):
    """Crate functions that can execute while the interpreter loop is active: everything the loop reaches in the call graph;
    and, because the loop calls host functions through pointers / trait objects, every crate function whose address is taken
    somewhere (the crate's own natives are registered that way) with everything those reach."""
    from cao.facts import CallGraph, rvalue_operands
    cached = F.__dict__.get("_c03_in_run")
    if cached is not None and cached[0] == loop_fn.short:
        return cached[1]
    cg = CallGraph(F)
    roots = {loop_fn.short}
    for f in F.fns:
        if not f.mir:
            continue
        for b in f.blocks:
            ops = []
            for st in b["stmts"]:
                if st["k"] == "assign":
                    ops.extend(rvalue_operands(st["rv"]))
            if b["term"]["k"] == "call":
                ops.extend(b["term"]["args"])
            for o in ops:
                if o and o.get("k") == "const" and "fn" in o:
                    roots.add(short(o["fn"]["path"]))
    out = set()
    for r in roots:
        if r not in out:
            out |= cg.reach(r)
    F.__dict__["_c03_in_run"] = (loop_fn.short, out)
    return out


def refuses_when_running(f, store_block):
    """the store is dominated by a test `<raw pointer read from the Vm>.is_null()` on whose non-null edge it cannot be reached:
    the entry point refuses (returns) while a program is installed"""
    du = DefUse(f)
    cfg = f.cfg
    for g in cfg.dom.get(store_block, ()):
        t = f.blocks[g]["term"]
        if g == store_block or t["k"] != "switch":
            continue
        c = op_local(t["discr"])
        neg = False
        d = du.sole_def(c) if c is not None else None
        while d is not None and d[2] == "assign" and d[3]["rv"]["k"] == "un" and d[3]["rv"]["op"] == "Not":
            neg = not neg
            c = op_local(d[3]["rv"]["x"])
            d = du.sole_def(c) if c is not None else None
        if d is None or d[2] != "call" or _last(d[3]["func"]) != "is_null" or d[3]["func"].get("local") or not d[3]["args"]:
            continue
        a = op_local(d[3]["args"][0])
        kind, payload = du.trace_back(a) if a is not None else (None, None)
        if kind != "place" or not any(e["k"] == "deref" for e in payload["p"]):
            continue
        targets = dict((v, b) for v, b in t["targets"])
        running = targets.get(int(neg), t["otherwise"])     # is_null() == false  <=>  a program is installed
        if store_block not in cfg.reachable_from(running, avoid={g}):
            return True
    return False


def rule_b(F):
    res = []
    info = find_budget(F)
    fn = info["fn"]
    place = info.get("place")
    if place is None:
        res.append(undecided("C03.B", "C03/B/_run/budget-place", fn.loc(), "budget place not identified"))
        return res
    fields = [e["name"] for e in place["p"] if e["k"] == "field"]
    owners = [short(e.get("owner", "")) for e in place["p"] if e["k"] == "field"]
    is_vm_field = place["l"] == 1 and owners and owners[0] == "vm::Vm"
    if not is_vm_field:
        copy = copy_of_vm_field(F, fn, place)
        if copy is not None:
            res.extend(synced_copy(F, fn, place, copy, info))
            fields = [copy]
            is_vm_field = None
    if is_vm_field is False:
        res.append(bad("C03.B", "C03/B/_run/budget-is-per-vm", fn.loc(info["cmp"].get("ln")),
                       "the counter tested against the limit is `%s`, a local of Vm::_run initialised on every entry: each "
                       "native->script callback (Vm::run_function re-enters _run) gets a fresh budget, so total work is not bounded by "
                       "the configured budget" % (fn.local_name(place["l"]) or "_%d" % place["l"])))
        return res
    fname = fields[0]
    if is_vm_field:
        res.append(ok("C03.B", "C03/B/_run/budget-is-per-vm", fn.loc(info["cmp"].get("ln")), "the counter is the field Vm.%s, shared by re-entrant _run calls" % fname))
    # who writes the field, and what
    cfn = info.get("cfn") or fn
    inside = {fn.short, cfn.short}
    if is_vm_field is None:
        # the loop works on a copy: the wrapper that makes the copy stores it back
        inside |= set(g.short for g in F.fns if g.mir and any(fn.short in callee_names(t["func"]) for _bi, t in mu.calls(g)))
    in_run = functions_running_inside_the_loop(F, fn)
    from cao.facts import CallGraph
    starts_loop = CallGraph(F).callers_closure({fn.short})
    writers, extra, resetters, unguarded = {}, [], [], []
    for f in F.fns:
        if not f.mir:
            continue
        stores = budget_stores(f, fname)
        if not stores:
            continue
        writers[f.short] = stores[0][1].get("ln")
        if f.short in (fn.short, cfn.short):
            continue
        stores = [x for x in stores if x[2] != "init"]
        if not stores:
            continue    # initialisation of a Vm the function owns (constructor)
        if f.short in inside:
            # the wrapper around a loop that counts on a copy: its other stores are the store-back (synced_copy decides those)
            stores = [x for x in stores if x[2] == "reset"]
            if not stores or f.short in in_run:
                continue
        if all(kind == "reset" for _bi, _st, kind in stores) and f.short not in in_run:
            # a top-level entry point handing out a fresh budget: legitimate. It counts as *the* reset if the fresh budget is in
            # place before the interpreter is started
            cfg = f.cfg
            starts = [bi for bi, t in mu.calls(f) if any(n in starts_loop for n in callee_names(t["func"]))]
            if starts and all(any(cfg.dominates(sb, c) for sb, _st, _k in stores) for c in starts):
                resetters.append(f)
            if not all(refuses_when_running(f, sb) for sb, _st, _k in stores):
                unguarded.append(f)
            continue
        extra.append(f.short)
    if extra:
        res.append(bad("C03.B", "C03/B/budget-writers", fn.loc(), "Vm.%s is also written by %s" % (fname, extra)))
    else:
        res.append(ok("C03.B", "C03/B/budget-writers", fn.loc(), "Vm.%s is written only by %s" % (fname, sorted(writers))))
    # a top-level entry point resets it from max_instr
    run = F.fn("vm::Vm::run", required=False)
    if resetters:
        r0 = run if run in resetters else resetters[0]
        res.append(ok("C03.B", "C03/B/run-resets-budget", r0.loc(), "%s sets %s = max_instr before interpreting"
                      % (", ".join("Vm::" + r.name for r in sorted(resetters, key=lambda r: r is not r0)), fname)))
    else:
        res.append(bad("C03.B", "C03/B/run-resets-budget", (run or fn).loc(), "Vm::run does not reset %s from max_instr" % fname))
    for f in unguarded:
        res.append(note("C03.B", "C03/B/%s/reset-not-refused-while-running" % f.name, f.loc(),
                        "%s hands out a fresh budget and does not refuse when a program is already running: a host native that calls "
                        "it in the middle of a run resets the budget of the outer run (host natives are outside the crate and not analysed)" % f.name))
    # _run must not reset it
    for g in ([fn] if cfn is fn else [fn, cfn]):
        gdu = DefUse(g)
        for b in g.blocks:
            for st in b["stmts"]:
                if st["k"] == "assign" and [e["name"] for e in st["place"]["p"] if e["k"] == "field"] == [fname]:
                    if st["rv"]["k"] == "use":
                        q = _through_copy(gdu, op_place(st["rv"]["op"]))
                        if q is not None and "max_instr" in [e.get("name") for e in q["p"]]:
                            res.append(bad("C03.B", "C03/B/_run/no-reset-on-reentry", g.loc(st.get("ln")), "_run resets the budget from max_instr on entry: callbacks get a fresh budget"))
    return res


def rule_z(F):
    res = []
    info = find_budget(F)
    fn = info["fn"]
    place = info.get("place")
    if place is None or info.get("guard") is None:
        res.append(undecided("C03.Z", "C03/Z/_run/decrement-guarded", fn.loc(), "budget place not identified"))
        return res
    inner = info.get("inner")
    # (function, counter there, the test in that function) for every function that holds decrements of the counter
    sites = [(fn, place, info["test"] if inner is None else None)]
    if inner is not None:
        sites.append((inner["fn"], inner["place"], inner["test"]))
    decs = [(g, t, d) for g, p, t in sites for d in decrements_of(g, p)]
    if not decs:
        res.append(undecided("C03.Z", "C03/Z/_run/decrement-guarded", fn.loc(), "no decrement found"))
        return res
    for g, t, (bi, op, ln, o) in decs:
        extracts_by_panic = any(v in UNWRAP_PANICS for v in o["via"])
        if op == "saturating_sub":
            res.append(ok("C03.Z", "C03/Z/_run/decrement-guarded", g.loc(ln), "decrement uses %s" % op))
            continue
        if op == "checked_sub" and not extracts_by_panic:
            # what is stored is the payload of the Some outcome (or a substitute for None): no wrapped value exists
            res.append(ok("C03.Z", "C03/Z/_run/decrement-guarded", g.loc(ln), "decrement uses %s" % op))
            continue
        # a plain / wrapping subtraction (or checked_sub(..).unwrap()): a test that excludes every value below the
        # subtrahend must come first, and the subtraction must lie on the other edge only
        k = o["k"]
        sb = o["block"]
        guarded = False
        if t is not None and isinstance(k, int) and 0 < k <= 64:
            cfg = g.cfg
            gb = t["guard"]
            guarded = cfg.dominates(gb, sb) and gb != sb and all(sb not in cfg.reachable_from(t["edge"](v), avoid={gb}) for v in range(k))
        if guarded:
            res.append(ok("C03.Z", "C03/Z/_run/decrement-guarded", g.loc(ln), "the zero test precedes the decrement"))
        elif t is not None and isinstance(k, int) and k > 1 and g.cfg.dominates(t["guard"], sb) and t["guard"] != sb:
            res.append(bad("C03.Z", "C03/Z/_run/decrement-guarded", g.loc(ln),
                           "the budget is decremented by %d, but the test before it does not exclude every value below %d: with less budget left "
                           "than one step costs the subtraction overflows (panic in debug builds, wrap to about 2^64 in release)" % (k, k)))
        elif t is not None and not isinstance(k, int):
            res.append(undecided("C03.Z", "C03/Z/_run/decrement-guarded", g.loc(ln), "the amount subtracted from the budget is not a constant"))
        else:
            res.append(bad("C03.Z", "C03/Z/_run/decrement-guarded", g.loc(ln),
                           "the budget is decremented before it is tested against zero: with no budget left (budget 0, or a callback "
                           "entered after the budget ran out) the subtraction overflows (panic in debug builds, wrap to 2^64-1 in release)"))
    return res


def _other_uses(fn, place, charge_call=None):
    """reads of the counter in fn that are not its own decrement / test: returns (number of reads, [lines of other uses])"""
    from cao.facts import rvalue_places
    pk = place_key(place)
    uses = []
    for bi, b in enumerate(fn.blocks):
        for st in b["stmts"]:
            if st["k"] != "assign" or st.get("exp"):
                continue
            for p in rvalue_places(st["rv"]):
                if place_key(p) == pk:
                    uses.append((bi, st))

    def consumers_of(tmp):
        out = []
        for b2 in fn.blocks:
            for s2 in b2["stmts"]:
                if s2["k"] == "assign" and any(p["l"] == tmp for p in rvalue_places(s2["rv"])):
                    out.append(s2)
            t2 = b2["term"]
            if t2["k"] == "call" and any((op_place(a) or {}).get("l") == tmp for a in t2["args"]) and not t2.get("exp"):
                out.append(t2)
            elif t2["k"] == "switch" and (op_place(t2["discr"]) or {}).get("l") == tmp:
                out.append(t2)
        return out

    def arithmetic_only(c):
        # (as before) a temporary holding the counter may feed the subtraction / comparison, or be moved on by an assignment
        # (the hand-over of a synchronised copy, C03.B decides those); the only calls it may be passed to are the *_sub family
        if c.get("k") == "call":
            return not c["func"].get("local") and _last(c["func"]) in SUB_CALLS
        return True

    def handed_to_charge(tmp, depth=0):
        """a reference to the counter that only travels (reborrowed) into the call of the summarised charging helper"""
        cs = consumers_of(tmp)
        if not cs or depth > 4:
            return False
        for c in cs:
            if c is charge_call:
                continue
            if c.get("k") == "assign" and c["rv"]["k"] in ("ref", "use") and not c["place"]["p"] and handed_to_charge(c["place"]["l"], depth + 1):
                continue
            return False
        return True
    bad_uses = []
    for bi, st in uses:
        rv = st["rv"]
        if rv["k"] == "bin" and rv["op"] in SUB_BIN + CMP_OPS:
            continue
        if rv["k"] == "use" and not st["place"]["p"]:
            consumers = consumers_of(st["place"]["l"])
            if all(arithmetic_only(c) for c in consumers):
                continue
        if rv["k"] == "ref" and not st["place"]["p"] and charge_call is not None and handed_to_charge(st["place"]["l"]):
            continue
        bad_uses.append(st.get("ln"))
    return len(uses), bad_uses


def rule_t(F):
    """the counter flows only into its own decrement and the Timeout test"""
    res = []
    info = find_budget(F)
    fn = info["fn"]
    place = info.get("place")
    if place is None:
        res.append(undecided("C03.T", "C03/T/_run/budget-has-no-other-use", fn.loc(), "budget place not identified"))
        return res
    inner = info.get("inner")
    n, bad_uses = _other_uses(fn, place, info["test"]["origin"]["call"] if inner is not None else None)
    where = fn
    if inner is not None and not bad_uses:
        n2, bad_uses = _other_uses(inner["fn"], inner["place"])
        n += n2
        where = inner["fn"]
    if bad_uses:
        res.append(bad("C03.T", "C03/T/_run/budget-has-no-other-use", where.loc(bad_uses[0]), "the budget counter is used for something other than its decrement and the Timeout test"))
    else:
        res.append(ok("C03.T", "C03/T/_run/budget-has-no-other-use", fn.loc(), "the counter is only decremented and compared (%d uses)" % n))
    return res


RULES = [
    Rule("C03.D", rule_d, 3, "every dispatch passes the budget decrement and test"),
    Rule("C03.B", rule_b, 1, "the budget is one counter per VM, reset only by Vm::run"),
    Rule("C03.Z", rule_z, 1, "the decrement cannot underflow"),
    Rule("C03.T", rule_t, 1, "the counter influences only the Timeout branch"),
]
