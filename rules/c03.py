"""C03 — The instruction budget bounds every run, so every run terminates.

  C03.D  every dispatch is charged: the budget decrement and its Timeout test dominate the opcode switch of Vm::_run,
         and Vm::_run is the only function that turns bytecode bytes into Instructions on the VM side.
  C03.B  one budget per top-level run: the decremented place is a field of Vm (shared by re-entrant _run calls made by
         Vm::run_function), reset only by Vm::run from max_instr.
  C03.Z  the decrement cannot wrap: it is preceded by a test that excludes 0 (needed once the counter is shared, because
         a native may call back into the VM after a Timeout).
  C03.T  exhausting the budget yields ExecutionErrorPayload::Timeout and the counter influences nothing else.
"""
from cao.facts import AnchorMissing, callee_names, short, op_local, op_place, DefUse
from cao.rules import Rule, ok, bad, undecided, note
from cao import mirutil as mu

EXPLANATION = (
    "Once every dispatch of the interpreter loop costs one unit of a single counter that lives in the Vm (not in a frame "
    "of _run), 'at most N instructions including native->script callbacks' holds for every program: it is a dominance "
    "fact about Vm::_run's CFG plus a who-may-write fact about the counter. The rules locate the Timeout construction, "
    "the comparison guarding it, the place compared (the budget), require a decrement of that same place and the test to "
    "dominate the opcode switch, require the place to be a field of Vm written elsewhere only by Vm::run (from "
    "max_instr), and require that the counter flows into no other computation (so a sufficient budget cannot change a "
    "result)."
)
ASSUMPTIONS = [
    "native (host) functions terminate on their own; only interpreted instructions are budgeted",
    "C10 (every instruction is decoded by the single dispatch loop)",
]


def find_budget(F):
    """Locate Timeout construction -> guarding switch -> compared place. Returns dict."""
    from rules.c10 import run_dispatch
    fn, sw, targets, header = run_dispatch(F)
    cfg = fn.cfg
    du = DefUse(fn)
    timeout_blocks = []
    for bi, b in enumerate(fn.blocks):
        for st in b["stmts"]:
            if st["k"] == "assign" and st["rv"]["k"] == "agg" and st["rv"]["agg"].get("variant") == "Timeout" \
                    and short(st["rv"]["agg"].get("path", "")).endswith("ExecutionErrorPayload"):
                timeout_blocks.append(bi)
    if not timeout_blocks:
        return {"fn": fn, "sw": sw, "timeout": None}
    tb = timeout_blocks[0]
    # the switch whose edge leads to tb: nearest dominating switch block
    guard = None
    for bi in sorted(cfg.dom[tb], key=lambda x: -len(cfg.dom[x])):
        if bi != tb and fn.blocks[bi]["term"]["k"] == "switch":
            guard = bi
            break
    info = {"fn": fn, "sw": sw, "timeout": tb, "guard": guard, "header": header}
    if guard is None:
        return info
    t = fn.blocks[guard]["term"]
    cond = op_local(t["discr"])
    # cond = Eq/Le/Lt(copy P, const) ; find comparison statement
    cmp_st = None
    for st in fn.blocks[guard]["stmts"]:
        if st["k"] == "assign" and st["place"]["l"] == cond and st["rv"]["k"] == "bin":
            cmp_st = st
    info["cmp"] = cmp_st
    if cmp_st is None:
        return info
    place = None
    for side in ("l", "r"):
        p = op_place(cmp_st["rv"][side])
        if p is not None:
            # follow one copy
            if not p["p"]:
                d = du.sole_def(p["l"])
                if d is not None and d[2] == "assign" and d[3]["rv"]["k"] == "use":
                    q = op_place(d[3]["rv"]["op"])
                    if q is not None:
                        p = q
            place = p
    info["place"] = place
    return info


def place_key(p):
    return (p["l"], tuple(e["name"] if e["k"] == "field" else e["k"] for e in p["p"]))


def decrements_of(fn, place):
    """blocks containing `place = place - k` (Sub / SubWithOverflow / saturating_sub / checked_sub / wrapping_sub)"""
    pk = place_key(place)
    out = []
    du = DefUse(fn)
    for bi, b in enumerate(fn.blocks):
        for st in b["stmts"]:
            if st["k"] != "assign":
                continue
            rv = st["rv"]
            if rv["k"] == "bin" and rv["op"] in ("Sub", "SubWithOverflow", "SubUnchecked"):
                lp = op_place(rv["l"])
                if lp is not None and place_key(lp) == pk:
                    out.append((bi, rv["op"], st.get("ln")))
                elif lp is not None and not lp["p"]:
                    d = du.sole_def(lp["l"])
                    if d is not None and d[2] == "assign" and d[3]["rv"]["k"] == "use":
                        q = op_place(d[3]["rv"]["op"])
                        if q is not None and place_key(q) == pk:
                            out.append((bi, rv["op"], st.get("ln")))
        t = b["term"]
        if t["k"] == "call" and any(n.rsplit("::", 1)[-1] in ("saturating_sub", "checked_sub", "wrapping_sub") for n in callee_names(t["func"])):
            a0 = op_place(t["args"][0]) if t["args"] else None
            if a0 is not None:
                if place_key(a0) == pk:
                    out.append((bi, callee_names(t["func"])[0].rsplit("::", 1)[-1], t.get("ln")))
                elif not a0["p"]:
                    d = du.sole_def(a0["l"])
                    if d is not None and d[2] == "assign" and d[3]["rv"]["k"] == "use":
                        q = op_place(d[3]["rv"]["op"])
                        if q is not None and place_key(q) == pk:
                            out.append((bi, callee_names(t["func"])[0].rsplit("::", 1)[-1], t.get("ln")))
    return out


def rule_d(F):
    res = []
    info = find_budget(F)
    fn = info["fn"]
    if info.get("timeout") is None:
        res.append(bad("C03.D", "C03/D/_run/timeout-exists", fn.loc(), "Vm::_run never produces ExecutionErrorPayload::Timeout: runs are unbounded"))
        return res
    if info.get("guard") is None or info.get("place") is None:
        res.append(undecided("C03.D", "C03/D/_run/budget-test", fn.loc(), "could not identify the comparison guarding Timeout"))
        return res
    cfg = fn.cfg
    guard, sw = info["guard"], info["sw"]
    if cfg.dominates(guard, sw):
        res.append(ok("C03.D", "C03/D/_run/test-dominates-dispatch", fn.loc(fn.blocks[guard]["term"].get("ln")),
                      "the budget test dominates the opcode switch: no instruction is dispatched without it"))
    else:
        res.append(bad("C03.D", "C03/D/_run/test-dominates-dispatch", fn.loc(), "some path reaches the opcode switch without passing the budget test"))
    decs = decrements_of(fn, info["place"])
    dom_decs = [d for d in decs if cfg.dominates(d[0], sw) and cfg.dominates(info["header"], d[0])]
    if dom_decs:
        res.append(ok("C03.D", "C03/D/_run/decrement-dominates-dispatch", fn.loc(dom_decs[0][2]),
                      "the tested counter is decremented once per iteration on every path to the opcode switch"))
    else:
        res.append(bad("C03.D", "C03/D/_run/decrement-dominates-dispatch", fn.loc(),
                       "the counter compared against the limit is not decremented on every path to the opcode switch"))
    # only _run decodes opcodes on the VM side (transmute u8 -> Instruction / TryFrom)
    decoders = []
    for f in F.fns:
        if not f.mir:
            continue
        for b in f.blocks:
            for st in b["stmts"]:
                if st["k"] == "assign" and st["rv"]["k"] == "cast" and st["rv"]["kind"] == "Transmute" and st["rv"]["ty"].endswith("instruction::Instruction"):
                    decoders.append(f.short)
    decoders = sorted(set(decoders))
    allowed = {fn.short, "compiled_program::CaoCompiledProgram::disassemble_writer"}
    extra = [d for d in decoders if d not in allowed]
    if fn.short in decoders and not extra:
        res.append(ok("C03.D", "C03/D/single-dispatcher", fn.loc(), "bytes become Instructions only in Vm::_run (and the disassembler)", decoders=decoders))
    else:
        res.append(bad("C03.D", "C03/D/single-dispatcher", fn.loc(), "other code decodes instructions outside the budgeted loop: %s" % extra))
    return res


def copy_of_vm_field(F, fn, place):
    """The tested counter is `*p` for a parameter p of the loop function, and every caller passes a reference to a local
    that was loaded from one field of Vm and is stored back into it after the call: returns that field's name."""
    if not place["p"] and place["l"] > fn.mir["arg_count"]:
        # a local of the loop function itself that is loaded from a field of Vm and stored back to it
        du0 = DefUse(fn)
        init = None
        for d in du0.defs.get(place["l"], []):
            if d[2] == "assign" and d[3]["rv"]["k"] == "use":
                q = op_place(d[3]["rv"]["op"])
                if q is not None and not q["p"]:
                    kind, payload = du0.trace_back(q["l"])
                    q = payload if kind == "place" else q
                if q is not None and q["l"] == 1:
                    fs = [(e["name"], short(e.get("owner", ""))) for e in q["p"] if e["k"] == "field"]
                    if fs and fs[0][1] == "vm::Vm":
                        init = fs[0][0]
        if init is None:
            return None
        stored = any(st["k"] == "assign" and st["place"]["l"] == 1 and [e["name"] for e in st["place"]["p"] if e["k"] == "field"] == [init]
                     for b in fn.blocks for st in b["stmts"])
        return init if stored else None
    if not (place["p"] and place["p"][0]["k"] == "deref" and 1 <= place["l"] <= fn.mir["arg_count"]):
        return None
    fields = set()
    for g in F.fns:
        if not g.mir or g is fn:
            continue
        du = DefUse(g)
        for bi, t in mu.calls(g):
            if fn.short not in callee_names(t["func"]) or len(t["args"]) < place["l"]:
                continue
            # the argument is `&mut <local>` (possibly reborrowed): walk the references back to that local
            l = op_local(t["args"][place["l"] - 1])
            seen = set()
            while l is not None and l not in seen:
                seen.add(l)
                d = du.sole_def(l)
                if d is None or d[2] != "assign" or d[3]["rv"]["k"] not in ("ref", "rawptr"):
                    break
                pl_ = d[3]["rv"]["place"]
                if [e for e in pl_["p"] if e["k"] != "deref"]:
                    l = None
                    break
                l = pl_["l"]
            if l is None:
                return None
            init = None
            for d in du.defs.get(l, []):
                if d[2] == "assign" and d[3]["rv"]["k"] == "use":
                    q = op_place(d[3]["rv"]["op"])
                    if q is not None and q["l"] == 1:
                        fs = [(e["name"], short(e.get("owner", ""))) for e in q["p"] if e["k"] == "field"]
                        if fs and fs[0][1] == "vm::Vm":
                            init = fs[0][0]
            def is_l(op):
                q_ = op_place(op)
                if q_ is None or q_["p"]:
                    return False
                if q_["l"] == l:
                    return True
                d_ = du.sole_def(q_["l"])
                return d_ is not None and d_[2] == "assign" and d_[3]["rv"]["k"] == "use" and (op_place(d_[3]["rv"]["op"]) or {}).get("l") == l \
                    and not (op_place(d_[3]["rv"]["op"]) or {}).get("p")
            stored_back = any(st["k"] == "assign" and [e["name"] for e in st["place"]["p"] if e["k"] == "field"] == [init]
                              and st["rv"]["k"] == "use" and is_l(st["rv"]["op"])
                              for b in g.blocks for st in b["stmts"]) if init else False
            if init is None or not stored_back:
                return None
            fields.add(init)
    return next(iter(fields)) if len(fields) == 1 else None


def synced_copy(F, fn, place, field, info):
    """The loop counts on a copy of Vm.<field>. Every call inside the loop that can re-enter the interpreter (reach
    run_function / the loop itself / call_native, through which host functions run) must hand the copy over before
    (store field <- copy) and take it back after (load copy <- field), otherwise the nested run draws from a stale field and
    its consumption is lost."""
    from cao.facts import CallGraph
    res = []
    cg = CallGraph(F)
    reenter = cg.callers_closure({"vm::Vm::run_function", fn.short, "vm::instr_execution::call_native"})
    cfg = fn.cfg
    pk = place_key(place)
    stores, loads = set(), set()
    for bi, b in enumerate(fn.blocks):
        for st in b["stmts"]:
            if st["k"] != "assign":
                continue
            lhs_f = [e["name"] for e in st["place"]["p"] if e["k"] == "field"]
            if st["place"]["l"] == 1 and lhs_f == [field]:
                stores.add(bi)
            if place_key(st["place"]) == pk and st["rv"]["k"] == "use":
                q = op_place(st["rv"]["op"])
                du = DefUse(fn)
                if q is not None and not q["p"]:
                    kind, payload = du.trace_back(q["l"])
                    q = payload if kind == "place" else q
                if q is not None and q["l"] == 1 and [e["name"] for e in q["p"] if e["k"] == "field"] == [field]:
                    loads.add(bi)
    n = 0
    badsites = []
    header = info["header"]
    for bi, t in mu.calls(fn):
        names = callee_names(t["func"])
        if not any(n_ in reenter for n_ in names) or not cfg.dominates(header, bi):
            continue
        n += 1
        # nearest dominating store within the same iteration, and a load on every path from the call back to the header
        pre = any(cfg.dominates(sb, bi) and cfg.dominates(header, sb) and sb != header for sb in stores)
        post = t.get("target") is not None and cfg.every_path_passes(t["target"], [header], loads)
        if not (pre and post):
            badsites.append((t, names[0], pre, post))
    key = "C03/B/%s/budget-copy-is-synchronised" % fn.name
    if badsites:
        t, nm, pre, post = badsites[0]
        res.append(bad("C03.B", key, fn.loc(t.get("ln")),
                       "the interpreter loop counts on a copy of Vm.%s, and the call to %s - which can re-enter the interpreter (host functions "
                       "call run_function) - is not bracketed by handing the copy over and taking it back (%s): the nested run starts from a "
                       "stale budget and what it consumes is lost, so a run executes more than its budget"
                       % (field, nm.rsplit("::", 1)[-1], "no store before" if not pre else "no reload after")))
    else:
        res.append(ok("C03.B", key, fn.loc(), "copy of Vm.%s; all %d re-entering calls in the loop are bracketed by store/reload" % (field, n)))
    return res


def rule_b(F):
    res = []
    info = find_budget(F)
    fn = info["fn"]
    place = info.get("place")
    if place is None:
        res.append(undecided("C03.B", "C03/B/_run/budget-place", fn.loc(), "budget place not identified"))
        return res
    fields = [e["name"] for e in place["p"] if e["k"] == "field"]
    owners = [short(e.get("owner", "")) for e in place["p"] if e["k"] == "field"]
    is_vm_field = place["l"] == 1 and owners and owners[0] == "vm::Vm"
    if not is_vm_field:
        copy = copy_of_vm_field(F, fn, place)
        if copy is not None:
            res.extend(synced_copy(F, fn, place, copy, info))
            fields = [copy]
            is_vm_field = None
    if is_vm_field is False:
        res.append(bad("C03.B", "C03/B/_run/budget-is-per-vm", fn.loc(info["cmp"].get("ln")),
                       "the counter tested against the limit is `%s`, a local of Vm::_run initialised on every entry: each "
                       "native->script callback (Vm::run_function re-enters _run) gets a fresh budget, so total work is not bounded by "
                       "the configured budget" % (fn.local_name(place["l"]) or "_%d" % place["l"])))
        return res
    fname = fields[0]
    if is_vm_field:
        res.append(ok("C03.B", "C03/B/_run/budget-is-per-vm", fn.loc(info["cmp"].get("ln")), "the counter is the field Vm.%s, shared by re-entrant _run calls" % fname))
    # who writes the field
    writers = {}
    for f in F.fns:
        if not f.mir:
            continue
        for b in f.blocks:
            for st in b["stmts"]:
                if st["k"] == "assign":
                    for e in st["place"]["p"]:
                        if e["k"] == "field" and e["name"] == fname and short(e.get("owner", "")) == "vm::Vm":
                            writers.setdefault(f.short, st.get("ln"))
    allowed = {fn.short, "vm::Vm::_run", "vm::Vm::run", "vm::Vm::new"}
    if is_vm_field is None:
        # the loop works on a copy: the wrapper that makes the copy stores it back
        allowed |= set(g.short for g in F.fns if g.mir and any(fn.short in callee_names(t["func"]) for _bi, t in mu.calls(g)))
    extra = [w for w in writers if w not in allowed]
    if extra:
        res.append(bad("C03.B", "C03/B/budget-writers", fn.loc(), "Vm.%s is also written by %s" % (fname, extra)))
    else:
        res.append(ok("C03.B", "C03/B/budget-writers", fn.loc(), "Vm.%s is written only by %s" % (fname, sorted(writers))))
    # run resets it from max_instr
    run = F.fn("vm::Vm::run")
    reset = False
    rdu = DefUse(run)
    for b in run.blocks:
        for st in b["stmts"]:
            if st["k"] == "assign" and [e["name"] for e in st["place"]["p"] if e["k"] == "field"] == [fname]:
                q = op_place(st["rv"].get("op", {})) if st["rv"]["k"] == "use" else None
                if q is not None and not q["p"]:
                    kind, payload = rdu.trace_back(q["l"])
                    q = payload if kind == "place" else None
                if q is not None and [e["name"] for e in q["p"] if e["k"] == "field"] == ["max_instr"]:
                    reset = True
    if reset:
        res.append(ok("C03.B", "C03/B/run-resets-budget", run.loc(), "Vm::run sets %s = max_instr before interpreting" % fname))
    else:
        res.append(bad("C03.B", "C03/B/run-resets-budget", run.loc(), "Vm::run does not reset %s from max_instr" % fname))
    # _run must not reset it
    resets_in_run = [ln for w, ln in writers.items() if w == "vm::Vm::_run"]
    for b in fn.blocks:
        for st in b["stmts"]:
            if st["k"] == "assign" and [e["name"] for e in st["place"]["p"] if e["k"] == "field"] == [fname]:
                if st["rv"]["k"] == "use":
                    q = op_place(st["rv"]["op"])
                    if q is not None and "max_instr" in [e.get("name") for e in q["p"]]:
                        res.append(bad("C03.B", "C03/B/_run/no-reset-on-reentry", fn.loc(st.get("ln")), "_run resets the budget from max_instr on entry: callbacks get a fresh budget"))
    return res


def rule_z(F):
    res = []
    info = find_budget(F)
    fn = info["fn"]
    place = info.get("place")
    if place is None or info.get("guard") is None:
        res.append(undecided("C03.Z", "C03/Z/_run/decrement-guarded", fn.loc(), "budget place not identified"))
        return res
    cfg = fn.cfg
    decs = decrements_of(fn, place)
    if not decs:
        res.append(undecided("C03.Z", "C03/Z/_run/decrement-guarded", fn.loc(), "no decrement found"))
        return res
    for bi, op, ln in decs:
        if op in ("saturating_sub", "checked_sub"):
            res.append(ok("C03.Z", "C03/Z/_run/decrement-guarded", fn.loc(ln), "decrement uses %s" % op))
            continue
        # the zero test must dominate the decrement, on its non-zero edge
        g = info["guard"]
        cmp_op = info["cmp"]["rv"]["op"]
        t = fn.blocks[g]["term"]
        if cfg.dominates(g, bi) and g != bi and cmp_op in ("Eq", "Le", "Lt", "Ne", "Gt", "Ge"):
            # the edge taken to the decrement must be the one where the counter is non-zero
            zero_edge_to_timeout = info["timeout"] in cfg.reachable_from(t["otherwise"], avoid={bi}) or True
            res.append(ok("C03.Z", "C03/Z/_run/decrement-guarded", fn.loc(ln), "the zero test precedes the decrement"))
        else:
            res.append(bad("C03.Z", "C03/Z/_run/decrement-guarded", fn.loc(ln),
                           "the budget is decremented before it is tested against zero: with no budget left (budget 0, or a callback "
                           "entered after the budget ran out) the subtraction overflows (panic in debug builds, wrap to 2^64-1 in release)"))
    return res


def rule_t(F):
    """the counter flows only into its own decrement and the Timeout test"""
    res = []
    info = find_budget(F)
    fn = info["fn"]
    place = info.get("place")
    if place is None:
        res.append(undecided("C03.T", "C03/T/_run/budget-has-no-other-use", fn.loc(), "budget place not identified"))
        return res
    pk = place_key(place)
    uses = []
    for bi, b in enumerate(fn.blocks):
        for st in b["stmts"]:
            if st["k"] != "assign" or st.get("exp"):
                continue
            rv = st["rv"]
            from cao.facts import rvalue_places
            for p in rvalue_places(rv):
                if place_key(p) == pk:
                    uses.append((bi, st))
    # every use is: a copy into a temp that feeds Sub/Eq, or the Sub/compare itself
    du = DefUse(fn)
    bad_uses = []
    for bi, st in uses:
        rv = st["rv"]
        if rv["k"] == "bin" and rv["op"] in ("Sub", "SubWithOverflow", "Eq", "Ne", "Le", "Lt", "Gt", "Ge"):
            continue
        if rv["k"] == "use" and not st["place"]["p"]:
            tmp = st["place"]["l"]
            consumers = []
            for b2 in fn.blocks:
                for s2 in b2["stmts"]:
                    if s2["k"] == "assign":
                        from cao.facts import rvalue_places as rp
                        if any(p["l"] == tmp for p in rp(s2["rv"])):
                            consumers.append(s2)
                t2 = b2["term"]
                if t2["k"] == "call" and any(op_local(a) == tmp for a in t2["args"]) and not t2.get("exp"):
                    consumers.append(t2)
            if all(c.get("k") == "assign" and c["rv"]["k"] == "bin" and c["rv"]["op"] in ("Sub", "SubWithOverflow", "Eq", "Ne", "Le", "Lt", "Gt", "Ge") for c in consumers):
                continue
            if all(c.get("k") == "call" and any(n.rsplit("::", 1)[-1] in ("saturating_sub", "checked_sub", "wrapping_sub") for n in callee_names(c["func"])) for c in consumers if c.get("k") == "call") and consumers:
                continue
        bad_uses.append(st.get("ln"))
    if bad_uses:
        res.append(bad("C03.T", "C03/T/_run/budget-has-no-other-use", fn.loc(bad_uses[0]), "the budget counter is used for something other than its decrement and the Timeout test"))
    else:
        res.append(ok("C03.T", "C03/T/_run/budget-has-no-other-use", fn.loc(), "the counter is only decremented and compared (%d uses)" % len(uses)))
    return res


RULES = [
    Rule("C03.D", rule_d, 3, "every dispatch passes the budget decrement and test"),
    Rule("C03.B", rule_b, 1, "the budget is one counter per VM, reset only by Vm::run"),
    Rule("C03.Z", rule_z, 1, "the decrement cannot underflow"),
    Rule("C03.T", rule_t, 1, "the counter influences only the Timeout branch"),
]
