"""C08 — A call invokes exactly the function that name resolution designates.

  C08.D  check-then-insert uses one key: in Compiler::add_function the key tested for duplicates is the key inserted.
  C08.V  every name component that enters the namespace is validated: in flatten_module every namespace.push(x) is
         guarded by is_name_valid(x).
  C08.O  lookup order: resolve_function tries the literal name, namespace + name, function imports, module-prefix
         imports, each later lookup only if the previous ones found nothing.
  C08.H  function handles are injective: the handle under which a function's entry label is stored (and which every call
         site encodes) is a hash of the function's position in the flattened output - taken as `out.len()` right where the
         function is pushed - so two functions never share one. A handle hashed from the name segments back to back
         (without separator) is reported: `ab.c` and `a.bc` collide while the name-keyed duplicate check passes.
  C08.F  caller frame isolation: a frame's stack_offset is len - arity and Return truncates exactly to it.
"""
from cao.facts import (AnchorMissing, callee_names, short, op_local, op_place, DefUse, hir_walk, hir_callee, hir_strip, hir_local_id, hir_children, pat_bindings, pat_variants)
from cao.rules import Rule, ok, bad, undecided, note
from cao import mirutil as mu
from cao import hirutil as hu
from rules.c06 import expr_leaves

EXPLANATION = (
    "Uniqueness and validity of names are preconditions of 'the resolved target is the documented one'. C08.D is a "
    "contradiction rule: the expression tested with jump_table.contains and the expression passed to jump_table.insert in "
    "add_function must be the same (normalised HIR). C08.V: each namespace.push(x) in flatten_module lies after an early "
    "return guarded by !is_name_valid(x) on the same x. C08.O: the jump-table lookups of resolve_function are classified by what their key is computed "
    "from (MIR data slice, through private helpers) and a path-sensitive walk shows that a later one runs only after the earlier ones missed. C08.F: data-flow of CallFrame.stack_offset from checked_sub(len, arity) "
    "to clear_until in instr_return. Not decided: that the resolved target equals the documented one for a given module "
    "tree (behavioural over name sets)."
)
ASSUMPTIONS = ["CaoHashMap is a faithful map (C12)"]


def norm(e, f=None, depth=0):
    """normal form of a key expression: method names applied to a root local, ignoring borrows/as_ref/as_str/to_string;
    a local with a single initialiser is replaced by it"""
    e = hu.strip_casts(e)
    if e is None:
        return None
    k = e.get("k")
    if k in ("addr_of",) or (k == "un" and e["op"] == "Deref"):
        return norm(e["e"])
    if k == "mcall":
        if e["name"] in ("as_ref", "as_str", "to_string", "to_owned", "clone", "as_mut", "borrow", "into", "deref"):
            return norm(e["recv"])
        return ("m", e["name"], norm(e["recv"])) + tuple(norm(a) for a in e["args"])
    if k == "field":
        return ("f", e["name"], norm(e["e"]))
    if k == "path":
        r = e["path"]["res"]
        if r["k"] == "local":
            return ("local", r["name"])
        return ("def", short(r.get("path", "")))
    if k == "call":
        return ("c", (hir_callee(e) or ["?"])[0]) + tuple(norm(a) for a in e["args"])
    if k == "lit":
        return ("lit", e["lit"].get("v"))
    return (k,)


def resolve_local(f, e):
    """replace a local by its single initialiser"""
    e2 = hu.strip_casts(e)
    while e2 is not None and e2.get("k") in ("addr_of",):
        e2 = hu.strip_casts(e2["e"])
    lid = hir_local_id(e2)
    if lid is not None:
        inits = hu.let_inits(f).get(lid, [])
        if len(inits) == 1:
            return inits[0]
    return e


def rule_d(F):
    res = []
    f = F.fn("compiler::Compiler::add_function")
    tests, inserts = [], []
    for x in hir_walk(f.hir["body"]):
        if x.get("k") == "mcall":
            fc = hu.field_chain(x["recv"])
            if fc and fc[1][-1:] == ["jump_table"]:
                if x["name"] in ("contains", "get", "contains_key"):
                    tests.append(x)
                elif x["name"] in ("insert", "entry"):
                    inserts.append(x)
    if not tests or not inserts:
        res.append(bad("C08.D", "C08/D/add_function/duplicate-test-uses-inserted-key", f.loc(),
                       "add_function must test the jump table for the key it inserts (tests=%d inserts=%d)" % (len(tests), len(inserts))))
        return res
    tk = norm(tests[0]["args"][0], f)
    ik = norm(inserts[0]["args"][0], f)
    if tk == ik:
        res.append(ok("C08.D", "C08/D/add_function/duplicate-test-uses-inserted-key", f.loc(tests[0]["ln"]), "duplicate test and insertion use the same key %s" % (tk,)))
    else:
        res.append(bad("C08.D", "C08/D/add_function/duplicate-test-uses-inserted-key", f.loc(tests[0]["ln"]),
                       "add_function tests the jump table for %s but inserts under %s: two functions with the same name in one sub-module are "
                       "not rejected (the second silently replaces the first), while a root function named like any function of any "
                       "sub-module (including std: map, min, filter, ...) is rejected as a duplicate" % (tk, ik)))
    return res


def rule_t(F):
    """C08.T: a call executes its callee's body and no other. Function bodies lie one after the other in the bytecode, so
    what keeps control from running off the end of one body into the next is the `ScalarNil; Return` that the compiler
    appends: after the body of every non-entry function (compile_stage_2) and of every closure (between compile_begin and
    compile_end) a Return instruction is emitted on every non-error path - not only when a syntactic test thinks the body
    'already returns' (a branch that does not return falls through into the next function's code)."""
    from cao import framebal as fb
    res = []
    memo = {}

    def return_blocks_of(g):
        """blocks of g that unconditionally emit a Return instruction (directly or through a helper that always does)"""
        du = DefUse(g)
        out = set()
        for bi, t in mu.calls(g):
            nm = callee_names(t["func"])
            if any(n.endswith("Compiler::push_instruction") for n in nm) and len(t["args"]) >= 2:
                v = mu.operand_variant(g, du, t["args"][1])
                if isinstance(v, str) and v.rsplit("::", 1)[-1] == "Return":
                    out.add(bi)
            for n in nm:
                h = F.fn(n, required=False)
                if h is not None and h.mir and h is not g and n.startswith("compiler::Compiler::") and n not in ("compiler::Compiler::process_card", "compiler::Compiler::compile_subexpr",
                                                                                                                 "compiler::Compiler::process_function", "compiler::Compiler::push_instruction"):
                    if always_returns(h):
                        out.add(bi)
        return out

    def always_returns(h, depth=0):
        if h.short in memo:
            return memo[h.short]
        memo[h.short] = False
        if depth > 3:
            return False
        rb = return_blocks_of(h)
        cfg = h.cfg
        good = bool(rb)
        if good:
            # every non-error path from the entry to the return passes one of them
            stack, seen = [0], set()
            while stack:
                b = stack.pop()
                if b in seen or b in rb or fb._error_block(h, b):
                    continue
                seen.add(b)
                if h.blocks[b]["term"]["k"] == "return":
                    good = False
                    break
                stack.extend(cfg.succ[b])
        if not good and rb and h.hir:
            # the Return is skipped under a predicate "the body already returns": accept it when the predicate is sound,
            # arm by arm (Return -> true; a block ends where its last card ends; an IfElse only if *all* branches return)
            preds = set()
            for y in hir_walk(h.hir["body"]):
                if y.get("k") == "path" and y["path"]["res"].get("k") == "def" and y["path"]["res"].get("def_kind") == "Fn":
                    pf_ = F.fn(short(y["path"]["res"].get("path", "")), required=False)
                    if pf_ is not None and pf_.hir and len(pf_.hir.get("params", [])) == 1 and "Card" in (pf_.hir["params"][0].get("ty") or ""):
                        preds.add(pf_.short)
            if preds and all(sound_returns_predicate(F.fn(p_)) for p_ in preds):
                good = True
        memo[h.short] = good
        return good

    def sound_returns_predicate(pf_):
        m = None
        for y in hir_walk(pf_.hir["body"]):
            if y.get("k") == "match" and not y.get("exp"):
                m = y
                break
        if m is None:
            return False
        for a in m["arms"]:
            kinds = [v[0].rsplit("::", 1)[-1] for v in pat_variants(a["pat"])]
            body = hu.strip_all(a["body"])
            if body is not None and body.get("k") == "lit" and body["lit"].get("v") is False:
                continue
            if kinds == ["Return"] and body is not None and body.get("k") == "lit" and body["lit"].get("v") is True:
                continue
            calls_ = [z for z in hir_walk(a["body"]) if z.get("k") == "mcall"]
            names_ = [z["name"] for z in calls_]
            recursive = any(z.get("k") == "path" and short(z["path"]["res"].get("path", "")) == pf_.short for z in hir_walk(a["body"]))
            if kinds == ["CompositeCard"] and recursive and "last" in names_ and not ({"any", "first", "nth"} & set(names_)):
                continue
            if kinds == ["IfElse"] and recursive and "all" in names_ and "any" not in names_:
                continue
            return False
        return True

    def compiler_callers(g):
        """(caller, block, term) of every call of g from a compiler function (closures included)"""
        out = []
        for c in F.fns:
            if not c.mir or not c.path.startswith("compiler::"):
                continue
            for bi, t in mu.calls(c):
                if g.short in callee_names(t["func"]) and bi in c.cfg.reach:
                    out.append((c, bi, t))
        return out

    def natural_loops(g):
        """[(header, set of blocks of the loop)]"""
        out = []
        cfg = g.cfg
        for src, h in cfg.back_edges():
            body = cfg.can_reach([src], avoid={h}) | {h}
            body = set(b for b in body if cfg.dominates(h, b))
            out.append((h, body))
        return out

    def in_loop(g, bi):
        return any(bi in body for _h, body in natural_loops(g))

    def runs_per_function(g, bi, depth=0, seen=None):
        """is the call at block bi of g executed once per element of a loop - directly, or because g is a helper that is
        itself only called per element (the loop over the non-entry functions may live in a caller)"""
        if in_loop(g, bi):
            return True
        if depth > 3:
            return False
        if g.is_closure:
            # the body of a closure handed to an iterator adaptor (`iter().try_for_each(|f| ..)`) runs once per element
            par = F.fn(g.parent, required=False) if g.parent else None
            if par is not None and par.mir:
                holders = set()
                for b in par.blocks:
                    for st in b["stmts"]:
                        if st["k"] == "assign" and st["rv"]["k"] == "agg" and st["rv"]["agg"]["k"] == "closure" \
                                and short(st["rv"]["agg"]["path"]) == g.short and not st["place"]["p"]:
                            holders.add(st["place"]["l"])
                for pbi, t in mu.calls(par):
                    nm = callee_names(t["func"])
                    if any("iter::Iterator::" in n for n in nm) and any(op_local(a) in holders for a in t["args"]):
                        last = nm[0].rsplit("::", 1)[-1]
                        if last in ("for_each", "try_for_each", "map", "try_fold", "fold", "all", "any", "inspect", "filter_map", "flat_map"):
                            return True
            return False
        seen = seen or set()
        if g.short in seen:
            return False
        cs = compiler_callers(g)
        return bool(cs) and all(runs_per_function(c, cb, depth + 1, seen | {g.short}) for c, cb, _t in cs)

    def leak_after(g, start_blocks, stop_pred, depth=0):
        """first (fn, block) at which a non-error path from start_blocks ends without a Return having been emitted: a block
        for which stop_pred holds (the next function begins / the closure is finished), or the return of the outermost
        function. When g itself returns, the search continues behind every call of g in its compiler callers."""
        rb = return_blocks_of(g)
        cfg = g.cfg
        for sb in start_blocks:
            stack, seen = [sb], set()
            while stack:
                b = stack.pop()
                if b in seen or b in rb or fb._error_block(g, b):
                    continue
                seen.add(b)
                if stop_pred(g, b):
                    return (g, b)
                if g.blocks[b]["term"]["k"] == "return":
                    cs = compiler_callers(g) if depth < 3 else []
                    if not cs:
                        return (g, b)
                    for c, _cb, t in cs:
                        if t.get("target") is None:
                            continue
                        lk = leak_after(c, [t["target"]], stop_pred, depth + 1)
                        if lk is not None:
                            return lk
                    continue
                stack.extend(cfg.succ[b])
        return None

    def must_pass(g, start_blocks, stop_pred, what, key, loc_ln):
        leak = leak_after(g, start_blocks, stop_pred)
        if leak is None:
            res.append(ok("C08.T", key, g.loc(loc_ln), "a Return is emitted on every non-error path after %s" % what))
        else:
            res.append(bad("C08.T", key, g.loc(loc_ln),
                           "%s: after %s there is a path on which no Return instruction is emitted (the trailing `ScalarNil; Return` is "
                           "skipped when some test decides that the body returns by itself): a control path of the body that does not "
                           "return runs off its end into the code of the next function, which executes in the callee's frame and whose "
                           "result goes back to the caller" % (g.name, what)))

    # (a) the bodies of the non-entry functions: every call of process_function that runs once per element of a loop
    pf_sites = []
    for g in F.fns:
        if not g.mir or g.is_closure or not g.path.startswith("compiler::"):
            continue
        for bi, t in mu.calls(g):
            if "compiler::Compiler::process_function" in callee_names(t["func"]) and bi in g.cfg.reach and runs_per_function(g, bi):
                pf_sites.append((g, bi, t))
    if not pf_sites:
        raise AnchorMissing("process_function call inside the loop over the non-entry functions")
    by_fn = {}
    for g, bi, t in pf_sites:
        by_fn.setdefault(g.short, (g, []))[1].append(t)

    def loop_header(g, b):
        return any(b == h for h, _body in natural_loops(g))
    for _k, (g, ts) in sorted(by_fn.items()):
        must_pass(g, [t["target"] for t in ts if t.get("target") is not None], loop_header, "the body of a non-entry function",
                  "C08/T/%s/function-body-ends-with-return" % g.name, ts[0].get("ln"))
    # (b) closure bodies: from compile_begin to compile_end
    def is_end(g, b):
        t = g.blocks[b]["term"]
        return t["k"] == "call" and "compiler::Compiler::compile_end" in callee_names(t["func"])
    n_cl = 0
    for g in F.fns:
        if not g.mir or g.is_closure or not g.path.startswith("compiler::"):
            continue
        begins = [(bi, t) for bi, t in mu.calls(g) if "compiler::Compiler::compile_begin" in callee_names(t["func"]) and bi in g.cfg.reach]
        if not begins:
            continue
        n_cl += 1
        name = "process_card[Closure]" if g.name == "process_card" else g.name
        must_pass(g, [t["target"] for _bi, t in begins if t.get("target") is not None], is_end, "the body of a closure",
                  "C08/T/%s/closure-body-ends-with-return" % name, begins[0][1].get("ln"))
    if not n_cl:
        raise AnchorMissing("compile_begin (closure bodies) in the compiler")
    if not any(is_end(g, b) for g in F.fns if g.mir and g.path.startswith("compiler::") for b in range(len(g.blocks))):
        raise AnchorMissing("compile_end (closure bodies) in the compiler")
    return res


def rule_m(F):
    """C08.M: duplicate sub-module names are compilation errors. In Module::ensure_invariants the scan that collects the
    sibling names into the scratch set touches the set only through contains / insert: it is not cleared, replaced or handed
    to the recursive call while siblings are still to be compared (two same-named siblings separated by a module with
    children of its own would otherwise both be accepted, and lookup designates only the first). Every recursive call gets
    a cleared (or fresh) set, so names of another level are not reported as duplicates."""
    res = []
    f = F.fn("compiler::module::Module::ensure_invariants")
    body = f.hir["body"]
    # the scratch set: a local of HashSet type
    def is_set(e):
        e = hu.strip_all(e)
        return e is not None and e.get("k") == "path" and e["path"]["res"].get("k") == "local" and "HashSet" in (e.get("ty") or "")
    loops = [x for x in hir_walk(body) if x.get("k") == "loop"]
    scans = []
    for lp in loops:
        ins = [y for y in hir_walk(lp) if y.get("k") == "mcall" and y["name"] in ("insert", "contains", "replace", "get") and is_set(y["recv"])]
        if ins:
            scans.append(lp)
    if not scans:
        raise AnchorMissing("sibling-name scan (HashSet insert/contains in a loop) in Module::ensure_invariants")
    key = "C08/M/ensure_invariants/sibling-scan-keeps-its-set"
    offenders = []
    for lp in scans:
        for y in hir_walk(lp):
            if y.get("k") == "mcall" and is_set(y["recv"]) and y["name"] not in ("insert", "contains", "get", "len", "is_empty"):
                offenders.append((y, "%s() on the set" % y["name"]))
            elif y.get("k") in ("mcall", "call"):
                args = list(y.get("args") or [])
                if any(is_set(a) or (hu.strip_all(a) or {}).get("k") == "addr_of" and is_set(hu.strip_all(a)["e"]) for a in args):
                    nm = y.get("name") or (hir_callee(y) or ["?"])[0]
                    if nm not in ("insert", "contains"):
                        offenders.append((y, "the set is handed to %s" % nm))
            elif y.get("k") == "assign" and is_set(y["l"]):
                offenders.append((y, "the set is replaced"))
    if offenders:
        y, why = offenders[0]
        res.append(bad("C08.M", key, f.loc(y.get("ln")),
                       "Module::ensure_invariants: inside the loop that compares the sub-module names of one level %s: the names seen so far "
                       "are forgotten while later siblings are still to be checked, so a duplicate sub-module name after a module with "
                       "children is accepted (and only the first of the two can ever be resolved) instead of DuplicateModule" % why))
    else:
        res.append(ok("C08.M", key, f.loc(), "%d scan loop(s); the set is only queried/extended while siblings are compared" % len(scans)))
    # recursion gets a cleared or fresh set
    key2 = "C08/M/ensure_invariants/recursion-starts-from-an-empty-set"
    rec = []
    for bl in [x for x in hir_walk(body) if x.get("k") == "block"]:
        stmts = [st.get("e") or st.get("init") for st in bl["block"]["stmts"]] + ([bl["block"].get("expr")] if bl["block"].get("expr") else [])
        for i, e in enumerate(stmts):
            if e is None:
                continue
            calls_here = [y for y in hir_walk(e) if y.get("k") == "mcall" and y["name"] == "ensure_invariants"
                          and any(n.endswith("Module::ensure_invariants") for n in hir_callee(y))]
            inner_blocks = [y for y in hir_walk(e) if y.get("k") == "block" and y is not e]
            for c in calls_here:
                if any(any(z is c for z in hir_walk(ib)) for ib in inner_blocks):
                    continue
                prev = stmts[i - 1] if i > 0 else None
                cleared = prev is not None and any(y.get("k") == "mcall" and y["name"] == "clear" and is_set(y["recv"]) for y in hir_walk(prev))
                fresh = any((hu.strip_all(a) or {}).get("k") in ("addr_of",) and not is_set(hu.strip_all(a)["e"]) for a in c["args"])
                rec.append((c, cleared or fresh))
    if not rec:
        raise AnchorMissing("recursive ensure_invariants call")
    badrec = [c for c, good in rec if not good]
    if badrec:
        res.append(bad("C08.M", key2, f.loc(badrec[0].get("ln")),
                       "Module::ensure_invariants recurses into a sub-module with the scratch set still holding the names of the parent "
                       "level: a sub-module named like one of its uncles is rejected as DuplicateModule although the names are unique"))
    else:
        res.append(ok("C08.M", key2, f.loc(rec[0][0].get("ln")), "the set is cleared immediately before each of %d recursive call(s)" % len(rec)))
    return res


def _str_values(F, e):
    """string literals in an expression, named constants resolved to their value"""
    out = []
    for z in hir_walk(e):
        if z.get("k") == "lit" and z["lit"].get("k") == "str":
            out.append(z["lit"].get("v"))
        elif z.get("k") == "path" and z["path"]["res"].get("k") == "def" and "Const" in (z["path"]["res"].get("def_kind") or ""):
            c = F.fn(short(z["path"]["res"].get("path", "")), required=False)
            if c is not None and c.hir:
                out.extend(v["lit"].get("v") for v in hir_walk(c.hir["body"]) if v.get("k") == "lit" and v["lit"].get("k") == "str")
    return out


def super_parser(F):
    """the function that splits the leading `super.` components off an import: compiler::super_depth, or (renamed / made a
    constructor) the one compiler function that searches a string for "super" """
    f = F.fn("compiler::super_depth", required=False)
    if f is not None and f.hir:
        return f
    cands = []
    for g in F.fns:
        if not g.hir or g.is_closure or not g.path.startswith("compiler::") or "Fn" not in g.kind:
            continue
        if any(y.get("k") == "mcall" and any(isinstance(v, str) and "super" in v for a in y.get("args") or [] for v in _str_values(F, a))
               for y in hir_walk(g.hir["body"])):
            cands.append(g)
    if len(cands) != 1:
        raise AnchorMissing("the function that parses the leading `super.` of an import (found %d)" % len(cands))
    return cands[0]


def _typed_bindings(p, out=None):
    """bindings of a pattern with their types: [(id, name, ty)]"""
    if out is None:
        out = []
    if p is None:
        return out
    k = p.get("k")
    if k == "bind":
        out.append((p["id"], p["name"], p.get("ty")))
        if "sub" in p:
            _typed_bindings(p["sub"], out)
    elif k == "struct":
        for f_ in p["fields"]:
            _typed_bindings(f_["pat"], out)
    elif k in ("tuple_struct", "or", "tuple"):
        for x in p["pats"]:
            _typed_bindings(x, out)
    elif k in ("box", "deref", "ref", "guard"):
        _typed_bindings(p["pat"], out)
    return out


def rule_p(F):
    """C08.P: `super.` walking up. (1) super_depth recognises `super.` only as whole leading path components: every string
    search for the literal "super." in it is prefix-anchored (strip_prefix / starts_with); an unanchored search
    (split_once, find, contains, ...) also fires inside a module name such as `mysuper.` and resolves the import one level
    up, to another function. (2) wherever resolve_function applies the depth (namespace shortened by `take(depth)`), the
    alias enters the looked-up name only through its stripped form `s.unwrap_or(alias)`, and the function part of a
    `prefix.function` call is appended as it is: otherwise `super.` is counted twice and the import never resolves.
    (3) see checked_depth_cuts_namespace."""
    res = []
    sd = super_parser(F)
    SD = sd.short
    anchored, loose = [], []
    for y in hir_walk(sd.hir["body"]):
        if y.get("k") != "mcall":
            continue
        lits = [v for a in y.get("args") or [] for v in _str_values(F, a)]
        if not any(isinstance(v, str) and "super" in v for v in lits):
            continue
        if y["name"] in ("strip_prefix", "starts_with"):
            anchored.append(y)
        else:
            loose.append(y)
    key = "C08/P/%s/super-is-a-leading-component" % sd.name
    if loose:
        res.append(bad("C08.P", key, sd.loc(loose[0].get("ln")),
                       "super_depth looks for \"super.\" with str::%s, which also matches inside a name (the import `mysuper.foo` of a module "
                       "called mysuper is read as one `super.` followed by `foo`): the call is bound to a function of the parent module "
                       "instead of the designated one" % loose[0]["name"]))
    elif anchored:
        res.append(ok("C08.P", key, sd.loc(anchored[0].get("ln")), "\"super.\" is only matched with %s" % sorted(set(a["name"] for a in anchored))))
    else:
        raise AnchorMissing("string search for \"super.\" in %s" % sd.short)
    n = 0
    sd_users = [g for g in F.fns if g.hir and not g.is_closure and g.path.startswith("compiler::") and g is not sd
                and any(x.get("k") == "call" and SD in hir_callee(x) for x in hir_walk(g.hir["body"]))]
    for f, bl in [(g, x) for g in sd_users for x in hir_walk(g.hir["body"]) if x.get("k") == "block"]:
        for st in bl["block"]["stmts"]:
            if st["k"] != "let" or st.get("init") is None:
                continue
            init = hu.strip_all(st["init"])
            if not (init.get("k") == "call" and SD in hir_callee(init)):
                continue
            alias = hir_local_id(hu.strip_all(init["args"][0]))
            binds = _typed_bindings(st["pat"])
            strs = [b_ for b_ in binds if "str" in (b_[2] or "")]
            if alias is None or len(binds) != 2 or len(strs) != 1:
                res.append(undecided("C08.P", "C08/P/%s/site%d" % (f.name, n), f.loc(st.get("ln")), "super_depth call of another shape"))
                continue
            s_id = strs[0][0]
            # the parser may hand back the stripped alias itself (&str) instead of Option<&str> (None = nothing stripped)
            already_stripped = "Option" not in (strs[0][2] or "")
            n += 1
            key = "C08/P/%s/import#%d-alias-enters-stripped" % (f.name, n)
            # occurrences of alias in the block, outside the super_depth call itself
            par = {}
            for x in hir_walk(bl):
                for c in hir_children(x):
                    par[id(c)] = x
            bad_use = None
            for x in hir_walk(bl):
                if x.get("k") == "path" and x["path"]["res"].get("k") == "local" and x["path"]["res"]["id"] == alias:
                    p = par.get(id(x))
                    while p is not None and p.get("k") in ("cast", "addr_of", "un", "drop_temps", "use"):
                        p = par.get(id(p))
                    if p is init or any(z is x for z in hir_walk(init)):
                        continue
                    if not already_stripped and p is not None and p.get("k") == "mcall" and p["name"] in ("unwrap_or",) \
                            and hir_local_id(hu.strip_all(p["recv"])) == s_id:
                        continue
                    bad_use = x
            # the stripped form must not swallow the function part: unwrap_or(recv s) takes only the alias
            for x in hir_walk(bl):
                if x.get("k") == "mcall" and x["name"] == "unwrap_or" and hir_local_id(hu.strip_all(x["recv"])) == s_id:
                    a = hir_local_id(hu.strip_all(x["args"][0]))
                    if a != alias:
                        bad_use = x
            if bad_use is not None:
                res.append(bad("C08.P", key, f.loc(bad_use.get("ln")),
                               "resolve_function shortens the namespace by the number of `super.` components of the import and then builds "
                               "the name from the unstripped alias (or puts the stripped alias where the function part belongs): `super.` is "
                               "applied twice / the function part is lost, so a call through a module imported with `super.` never resolves "
                               "(InvalidJump for a name that designates exactly one function)"))
            else:
                res.append(ok("C08.P", key, f.loc(st.get("ln")), "alias used only as s.unwrap_or(alias) after the namespace was shortened"))
    if n < 2:
        raise AnchorMissing("super_depth call sites in the compiler (found %d)" % n)
    res.extend(checked_depth_cuts_namespace(F))
    return res


_SUBS = ("checked_sub", "saturating_sub", "wrapping_sub", "overflowing_sub", "sub")


def depth_calls(F, f, du, memo):
    """the calls of the resolver that compute how many namespace components remain after going up: a subtraction (itself, or
    inside the crate-local callee) over the length of current_namespace and the count returned by super_depth"""
    out = []
    for bi, t in mu.calls(f):
        nm = callee_names(t["func"])
        if not nm:
            continue
        inner = set()
        for n_ in nm:
            c = F.fn(n_, required=False)
            if c is not None and c.mir:
                inner |= fields_touched(F, c, memo)
        if not (nm[0].rsplit("::", 1)[-1] in _SUBS or any("call:" + x in inner for x in _SUBS)):
            continue
        atoms = set()
        for a in t["args"]:
            atoms |= mir_provenance(F, f, du, a, memo)
        if ("current_namespace" in inner or ("field", "current_namespace") in atoms) and ("call", super_parser(F).name) in atoms:
            out.append((bi, t))
    return out


def checked_depth_cuts_namespace(F):
    """C08.P (3): the number of namespace components that remain after the `super.`s of an import is computed once, with
    the underflow check (SuperLimitReached), and that very number is what shortens the namespace in the looked-up name:
    the value of the depth computation lies in the data slice of the key of each import lookup. A name shortened by other
    means (string surgery on the joined namespace, a second count) can disagree with the check."""
    res = []
    f = resolver_fn(F)
    memo = {}
    seen_kind = {}
    dus = {}
    for _bi, _ct, _shape, lf, t, kind in classified_events(F, f, memo):
        if kind not in ("function-import", "module-import"):
            continue
        c = seen_kind.get(kind, 0)
        seen_kind[kind] = c + 1
        key = "C08/P/%s/%s%s-namespace-cut-by-the-checked-depth" % (f.name, kind, "" if c == 0 else "#%d" % c)
        # decided in the function that holds the table lookup (the resolver itself or its lookup helper)
        du = dus.setdefault(lf.short, DefUse(lf))
        bi = next(b for b, tt in mu.calls(lf) if tt is t)
        dcalls = depth_calls(F, lf, du, memo)
        cands = [dt for dbi, dt in dcalls if bi in lf.cfg.reachable_from(dbi)]
        via = []
        mir_provenance(F, lf, du, t["args"][1], memo, via)
        if not cands:
            # the name may come from a helper that does the check itself: then the checked depth must lie in the slice of
            # what that helper returns
            inner = []
            for _c, h, hdu, _hatoms, hvia in helper_return_slices(F, lf, via, memo):
                hd = depth_calls(F, h, hdu, memo)
                if hd:
                    inner.append(any(dt is v for _dbi, dt in hd for v in hvia))
            if inner:
                cands = [None]
                via = [None] if all(inner) else []
        if not cands:
            res.append(undecided("C08.P", key, lf.loc(t.get("ln")), "no computation of the remaining namespace depth (namespace length minus "
                                 "super_depth) found before this lookup"))
        elif any(dt is v for dt in cands for v in via):
            res.append(ok("C08.P", key, lf.loc(t.get("ln")), "the looked-up name is built from the checked depth"))
        else:
            res.append(bad("C08.P", key, lf.loc(t.get("ln")),
                           "%s checks how far the `super.`s of an import may go up (SuperLimitReached when there are more of them than "
                           "enclosing modules) but the name it then looks up is not built from that checked depth: the namespace is "
                           "shortened by other means, which need not agree with the check - e.g. an import that goes up exactly to the "
                           "root (`super.super.f` used in module a.b) passes the check with depth 0 and is looked up under a name that "
                           "still carries a namespace component, so the call is bound to no function (InvalidJump) or to one of another "
                           "module" % f.name))
    return res


def _is_namespace_stack(e):
    """the stack of name components of the module walk: a local/field called `namespace`, or any SmallVec of &str"""
    r = hu.strip_all(e)
    if r is None:
        return False
    if r.get("k") == "path" and r["path"]["res"].get("k") == "local" and r["path"]["res"].get("name") == "namespace":
        return True
    if (hu.field_chain(e) or (None, [], ""))[1][-1:] == ["namespace"]:
        return True
    ty = (r.get("ty") or "").replace(" ", "")
    return "SmallVec<[&" in ty and "str;" in ty


def rule_v(F):
    res = []
    # every function of the module walk (compiler::module) that pushes a component onto the namespace stack - today
    # flatten_module itself, possibly split into per-collection helpers
    pushes_total = 0
    counters = {}
    for f in F.fns:
        if not f.hir or f.is_closure or not f.path.startswith("compiler::module::"):
            continue
        pushes = [x for x in hir_walk(f.hir["body"]) if x.get("k") == "mcall" and x["name"] == "push" and _is_namespace_stack(x["recv"])]
        if not pushes:
            continue
        pushes_total += len(pushes)
        anc = hu.control_ancestors(f.hir["body"])
        # validation guards: if !is_name_valid(E) { return Err }
        guards = []
        for x in hir_walk(f.hir["body"]):
            if x.get("k") == "if":
                c = hu.strip_casts(x["cond"])
                neg = False
                if c.get("k") == "un" and c["op"] == "Not":
                    neg = True
                    c = hu.strip_casts(c["e"])
                if c.get("k") == "call" and any(n.endswith("is_name_valid") for n in hir_callee(c)):
                    diverges = hir_strip(x["then"]).get("ty") == "!" or any(y.get("k") == "ret" for y in hir_walk(x["then"]))
                    if neg and diverges:
                        guards.append((x, norm(c["args"][0]), anc.get(id(x), ())))
        for p in pushes:
            arg = norm(p["args"][0])
            pctrl = anc.get(id(p), ())
            loop_label = loop_collection(f, p, anc)
            n = counters.get((f.name, loop_label), 0)
            counters[(f.name, loop_label)] = n + 1
            key = "C08/V/%s/%s-name-validated" % (f.name, loop_label or "component%d" % n)
            ok_guard = [g for g in guards if g[1] == arg and g[2] == pctrl and g[0]["ln"] <= p["ln"]]
            if ok_guard:
                res.append(ok("C08.V", key, f.loc(p["ln"]), "the name is checked with is_name_valid before it enters the namespace"))
            else:
                res.append(bad("C08.V", key, f.loc(p["ln"]),
                               "a %s name is pushed onto the namespace without is_name_valid: a module named `a.b` or `super` (or an empty name) "
                               "shadows or breaks real dotted paths during resolution" % (loop_label or "component")))
    if pushes_total < 2:
        raise AnchorMissing("namespace.push in the module walk of compiler::module (found %d)" % pushes_total)
    return res


def loop_collection(f, node, anc):
    """name of the collection field iterated by the innermost for-loop around node"""
    best = None
    for x in hir_walk(f.hir["body"]):
        if x.get("k") == "match" and x.get("source", "").startswith("ForLoopDesugar"):
            if any(id(y) == id(node) for y in hir_walk(x)):
                it = hir_strip(x["scrut"])
                it = hir_strip(it["args"][0]) if it.get("k") == "call" and it["args"] else it
                while it.get("k") == "mcall":
                    fc = hu.field_chain(it["recv"])
                    if fc and fc[1]:
                        best = fc[1][-1]
                        break
                    it = hir_strip(it["recv"])
    return best


# ---------------------------------------------------------------------------------------------------
# C08.O: the lookups of the resolver, decided on MIR (independent of `if to.is_none()` / early return / match idioms
# and of private helpers that build the looked-up name)
# ---------------------------------------------------------------------------------------------------

def _rv_operands(rv):
    """(operands, places) read by an rvalue"""
    k = rv["k"]
    if k in ("use", "cast", "repeat", "shallow_box"):
        return [rv["op"]] if rv.get("op") else [], []
    if k in ("ref", "rawptr", "discr", "len", "copy_for_deref"):
        return [], [rv["place"]] if rv.get("place") else []
    if k == "bin":
        return [rv["l"], rv["r"]], []
    if k == "un":
        return [rv["x"]], []
    if k == "agg":
        return list(rv["ops"]), []
    ops = [v for v in rv.values() if isinstance(v, dict) and v.get("k") in ("copy", "move", "const")]
    pls = [v for v in rv.values() if isinstance(v, dict) and "l" in v and "p" in v]
    return ops, pls


def fields_touched(F, fn, memo, depth=0):
    """names of all fields that occur in a place of `fn`, of the crate-local functions it calls and of the closures it
    builds (what a helper may read of `self` besides its arguments); the functions called on the way are included as
    "call:<last path segment>"."""
    if fn.short in memo:
        return memo[fn.short]
    memo[fn.short] = set()
    out = set()
    if fn.mir and depth < 6:
        def place(pl):
            for e in pl["p"]:
                if e["k"] == "field" and e.get("name") is not None:
                    out.add(str(e["name"]))
        for b in fn.blocks:
            for st in b["stmts"]:
                if st["k"] != "assign":
                    continue
                place(st["place"])
                ops, pls = _rv_operands(st["rv"])
                for o in ops:
                    if op_place(o) is not None:
                        place(op_place(o))
                for pl in pls:
                    place(pl)
                if st["rv"]["k"] == "bin" and str(st["rv"].get("op", "")).startswith("Sub"):
                    out.add("call:sub")
                if st["rv"]["k"] == "agg" and st["rv"]["agg"]["k"] == "closure":
                    c = F.fn(short(st["rv"]["agg"]["path"]), required=False)
                    if c is not None:
                        out |= fields_touched(F, c, memo, depth + 1)
            t = b["term"]
            if t["k"] == "call":
                for o in t["args"]:
                    if op_place(o) is not None:
                        place(op_place(o))
                nm = callee_names(t["func"])
                if nm:
                    out.add("call:" + nm[0].rsplit("::", 1)[-1])
                for n in nm:
                    c = F.fn(n, required=False)
                    if c is not None and c.mir:
                        out |= fields_touched(F, c, memo, depth + 1)
    memo[fn.short] = out
    return out


def mir_provenance(F, f, du, operand, memo, via_calls=None, skip_residual=False):
    """Backward data slice of an operand in MIR: the set of atoms its value is computed from -
    ('param', n), ('field', name) for every field read on the way (also inside crate-local helpers and closures the
    value passes through), ('call', last path segment) for every call on the way, ('const', text).
    Flow-insensitive over all definitions of a local; a local filled through `&mut local` handed to a call also gets
    the other arguments of that call. `via_calls` (a list) receives the call terminators of f the slice passes through."""
    atoms = set()
    # calls that receive `&mut L`: L -> [call terminators]
    filled = {}
    mut_ref_of = {}
    for l, ds in du.defs.items():
        for d in ds:
            if d[2] == "assign" and not d[3]["place"]["p"] and d[3]["rv"]["k"] in ("ref", "rawptr") and d[3]["rv"].get("mut") not in ("shared", "not", None):
                mut_ref_of.setdefault(l, set()).add(d[3]["rv"]["place"]["l"])
    for _bi, t in mu.calls(f):
        for a in t["args"]:
            al = op_local(a)
            for tgt in mut_ref_of.get(al, ()):
                filled.setdefault(tgt, []).append(t)
    work = []
    seen = set()

    def place(pl):
        work.append(pl["l"])
        for e in pl["p"]:
            if e["k"] == "field" and e.get("name") is not None:
                atoms.add(("field", str(e["name"])))
            elif e["k"] == "index" and e.get("local") is not None:
                work.append(e["local"])

    def operand_(o):
        if o is None:
            return
        if o.get("k") == "const":
            if "fn" not in o:
                atoms.add(("const", str(o.get("val", o.get("text", o.get("ty"))))))
            return
        if op_place(o) is not None:
            place(op_place(o))

    def summary(c):
        for fld in fields_touched(F, c, memo):
            atoms.add(("helper-call", fld[5:]) if fld.startswith("call:") else ("field", fld))

    def call(t):
        nm = callee_names(t["func"])
        if nm:
            atoms.add(("call", nm[0].rsplit("::", 1)[-1]))
        if via_calls is not None and not any(t is v for v in via_calls):
            via_calls.append(t)
        for a in t["args"]:
            operand_(a)
        for n in nm:
            c = F.fn(n, required=False)
            if c is not None and c.mir:
                summary(c)

    operand_(operand)
    while work:
        l = work.pop()
        if l in seen:
            continue
        seen.add(l)
        if 1 <= l <= f.mir["arg_count"]:
            atoms.add(("param", l))
        for d in du.defs.get(l, []):
            if d[2] == "call":
                if skip_residual and any(n.endswith("from_residual") for n in callee_names(d[3]["func"])):
                    continue        # `?` handing an error on: not part of the value computed on success
                call(d[3])
                continue
            rv = d[3]["rv"]
            ops, pls = _rv_operands(rv)
            for o in ops:
                operand_(o)
            for pl in pls:
                place(pl)
            if rv["k"] == "agg" and rv["agg"]["k"] == "closure":
                c = F.fn(short(rv["agg"]["path"]), required=False)
                if c is not None:
                    summary(c)
        for t in filled.get(l, []):
            call(t)
    return atoms


def table_lookups(f):
    """the jump-table lookups of a function: calls of CaoHashMap::get on a table of FunctionMeta -> [(block, term)]"""
    out = []
    for bi, t in mu.calls(f):
        if any(n.endswith("CaoHashMap::get") for n in callee_names(t["func"])) and t["args"] and \
                "FunctionMeta" in ((t.get("arg_tys") or [""])[0] or "") and bi in f.cfg.reach:
            out.append((bi, t))
    return out


_OPT_KEEP = ("copied", "cloned", "map", "as_ref", "as_deref", "as_mut", "inspect")


def lookup_paths(f, events):
    """Path-sensitive walk over the CFG of a function that does jump-table lookups.
    events: {block: (index, shape)} - the call in that block is lookup #index; shape 'option' (the call yields
    Some(found)/None: CaoHashMap::get itself or a helper summarised as such) or 'result-option' (Ok(Some)/Ok(None)/Err).
    Abstract values: 'some' | 'none' | ('ok', v) | ('err',) | ('cont', v) | ('brk',) | ('i', n) | ('ref', local). The walk
    follows a value through moves/copies, shared borrows, Ok/Some/None/Err aggregates, `?` (Try::branch and the payload
    read), Option::copied/cloned/map/as_ref, discriminant reads, Option::is_none/is_some and `!`, and takes only the
    consistent edge of a switch that tests it - so `if to.is_none() {..}` chains, `if let Some(x) = .. {return}`, `match`,
    let-else and `?` all read the same. Returns (ran_after_hit, before, returns) or (None, None, None) on a state blow-up:
      ran_after_hit  {(i, j)}: lookup j is executed on a path on which the earlier lookup i had found the function
      before         {(i, j)}: lookup i is executed before lookup j on some path
      returns        {(outcomes, value of the return place)} over all paths that return"""
    poisoned = set()
    for b in f.blocks:
        for st in b["stmts"]:
            if st["k"] == "assign" and st["rv"]["k"] in ("ref", "rawptr") and st["rv"].get("mut") not in ("shared", "not", None):
                poisoned.add(st["rv"]["place"]["l"])
    ret_is_option = f.local_ty(0).lstrip().startswith("std::option::Option")
    ran_after_hit, before, returns = set(), set(), set()
    stack = [(0, frozenset(), ())]
    seen = set()
    steps = 0
    DISCR = {"some": 1, "none": 0, "ok": 0, "err": 1, "cont": 0, "brk": 1}
    while stack:
        key = stack.pop()
        if key in seen:
            continue
        seen.add(key)
        steps += 1
        if steps > 200000:
            return None, None, None
        bi, st_, outs = key
        env = dict(st_)

        def setv(l, v):
            if v is None or l in poisoned:
                env.pop(l, None)
            else:
                env[l] = v

        def tag(v):
            return v if isinstance(v, str) else (v[0] if isinstance(v, tuple) else None)

        def read(pl):
            """abstract value of a place: a local, `*r` of a known shared borrow, or the Ok/Continue/Some payload of a
            known value"""
            proj = pl["p"]
            v = env.get(pl["l"])
            if not proj:
                return v
            if len(proj) == 1 and proj[0]["k"] == "deref":
                return env.get(v[1]) if isinstance(v, tuple) and v[0] == "ref" else None
            if len(proj) == 2 and proj[0]["k"] == "downcast" and proj[1]["k"] == "field" and str(proj[1].get("name")) == "0":
                if isinstance(v, tuple) and v[0] in ("ok", "cont") and proj[0].get("variant") in ("Ok", "Continue") and len(v) > 1:
                    return v[1]
            return None

        def target(pl):
            if not pl["p"]:
                return pl["l"]
            if len(pl["p"]) == 1 and pl["p"][0]["k"] == "deref":
                v = env.get(pl["l"])
                if isinstance(v, tuple) and v[0] == "ref":
                    return v[1]
            return None

        for s_ in f.blocks[bi]["stmts"]:
            if s_["k"] != "assign":
                continue
            pl, rv = s_["place"], s_["rv"]
            if pl["p"]:
                v = env.get(pl["l"])
                if isinstance(v, tuple) and v[0] == "ref":
                    env.pop(v[1], None)
                env.pop(pl["l"], None)
                continue
            k = rv["k"]
            val = None
            if k == "use":
                op = rv["op"]
                if op.get("k") == "const":
                    if isinstance(op.get("val"), (int, bool)):
                        val = ("i", int(op["val"]))
                else:
                    val = read(op["place"])
            elif k == "ref" and rv.get("mut") in ("shared", "not", None):
                src = target(rv["place"])
                if src is not None:
                    val = ("ref", src)
            elif k == "discr":
                v = read(rv["place"])
                if tag(v) in DISCR:
                    val = ("i", DISCR[tag(v)])
            elif k == "un" and rv["op"] == "Not":
                v = env.get(op_local(rv["x"])) if op_local(rv["x"]) is not None else None
                if isinstance(v, tuple) and v[0] == "i" and v[1] in (0, 1) and f.local_ty(pl["l"]) == "bool":
                    val = ("i", 1 - v[1])
            elif k == "agg" and rv["agg"]["k"] == "adt":
                ap = short(rv["agg"].get("path", ""))
                var = rv["agg"].get("variant")
                if ap.endswith("option::Option"):
                    val = "some" if var == "Some" else "none"
                elif ap.endswith("result::Result"):
                    if var == "Ok":
                        inner = None
                        if rv["ops"] and op_place(rv["ops"][0]) is not None:
                            inner = read(op_place(rv["ops"][0]))
                        val = ("ok", inner) if inner is not None else ("ok",)
                    else:
                        val = ("err",)
            setv(pl["l"], val)
        t = f.blocks[bi]["term"]
        k = t["k"]
        st_now = lambda: frozenset(env.items())
        if k == "return":
            returns.add((outs, env.get(0)))
        elif k == "call":
            if t["target"] is None:
                continue
            dest = t["dest"]
            if bi in events:
                j, shape = events[bi]
                for i, o in outs:
                    if i != j:
                        before.add((i, j))
                        if o == "some":
                            ran_after_hit.add((i, j))
                outs_base = tuple(x for x in outs if x[0] != j)
                forks = [("some", "some"), ("none", "none")] if shape == "option" else \
                    [(("ok", "some"), "some"), (("ok", "none"), "none"), (("err",), "none")]
                for v, o in forks:
                    if dest["p"]:
                        env.pop(dest["l"], None)
                    else:
                        setv(dest["l"], v)
                    stack.append((t["target"], st_now(), tuple(sorted(outs_base + ((j, o),)))))
                continue
            nm = callee_names(t["func"])
            last = nm[0].rsplit("::", 1)[-1] if nm else ""
            val = None
            a0 = t["args"][0] if t["args"] else None
            a0v = read(op_place(a0)) if a0 is not None and op_place(a0) is not None else None
            if isinstance(a0v, tuple) and a0v[0] == "ref":
                a0v = env.get(a0v[1])
            if last in ("is_none", "is_some") and any(n.endswith("Option::" + last) for n in nm):
                if a0v in ("some", "none"):
                    val = ("i", 1 if (a0v == "none") == (last == "is_none") else 0)
            elif last in _OPT_KEEP and any("Option::" in n for n in nm) and a0v in ("some", "none"):
                val = a0v
            elif last == "branch" and any(n.endswith("Try::branch") or n.endswith("::branch") for n in nm):
                if tag(a0v) == "ok":
                    val = ("cont",) + tuple(a0v[1:])
                elif tag(a0v) == "err":
                    val = ("brk",)
            elif last == "from_residual":
                val = "none" if ret_is_option else ("err",)
            if dest["p"]:
                env.pop(dest["l"], None)
            else:
                setv(dest["l"], val)
            stack.append((t["target"], st_now(), outs))
        elif k == "switch":
            dl = op_local(t["discr"])
            v = env.get(dl) if dl is not None else None
            if t["discr"].get("k") == "const" and isinstance(t["discr"].get("val"), (int, bool)):
                v = ("i", int(t["discr"]["val"]))
            if isinstance(v, tuple) and v[0] == "i":
                nxt = [dict((a, b_) for a, b_ in t["targets"]).get(v[1], t["otherwise"])]
            else:
                nxt = [b_ for _a, b_ in t["targets"]] + [t["otherwise"]]
            for n_ in nxt:
                stack.append((n_, st_now(), outs))
        elif k in ("goto", "drop", "assert"):
            stack.append((t["target"], st_now(), outs))
    return ran_after_hit, before, returns


def lookup_helper_shape(F, h, memo):
    """A crate-local helper that does exactly one jump-table lookup and hands its result on: it returns Some(..) exactly on
    the paths on which its lookup hit -> 'option'; Ok(Some(..)) exactly on those, Ok(None)/Err(..) otherwise ->
    'result-option'. None when the helper is something else."""
    key = ("shape", h.short)
    if key in memo:
        return memo[key]
    memo[key] = None
    ls = table_lookups(h)
    if len(ls) != 1:
        return None
    _r, _b, returns = lookup_paths(h, {ls[0][0]: (0, "option")})
    if not returns:
        return None
    hit = set(v for outs, v in returns if (0, "some") in outs)
    nohit = set(v for outs, v in returns if (0, "some") not in outs)
    shape = None
    if hit and hit <= {"some"} and nohit <= {"none"}:
        shape = "option"
    elif hit and hit <= {("ok", "some")} and nohit <= {("ok", "none"), ("err",)}:
        shape = "result-option"
    memo[key] = shape
    return shape


def lookup_events(F, f, memo):
    """the lookups of the resolver f in execution order: [(block in f, call term in f, shape, lookup fn, lookup term)] -
    a direct CaoHashMap::get on the function table, or a call of a helper summarised by lookup_helper_shape"""
    out = []
    direct = dict(table_lookups(f))
    for bi, t in mu.calls(f):
        if bi not in f.cfg.reach:
            continue
        if bi in direct:
            out.append((bi, t, "option", f, t))
            continue
        for n in callee_names(t["func"]):
            h = F.fn(n, required=False)
            if h is not None and h.mir and h is not f and h.path.startswith("compiler::") and not h.is_closure:
                shape = lookup_helper_shape(F, h, memo)
                if shape is not None:
                    out.append((bi, t, shape, h, table_lookups(h)[0][1]))
                    break
    rpo = dict((b, n) for n, b in enumerate(f.cfg._rpo()))
    out.sort(key=lambda x: rpo.get(x[0], 10 ** 6))
    return out


def resolver_fn(F):
    """the function that resolves a called name: Compiler::resolve_function, or (renamed) the one function of the compiler
    module that does several jump-table lookups (itself or through lookup helpers)"""
    f = F.fn("compiler::Compiler::resolve_function", required=False)
    if f is not None and f.mir:
        return f
    memo = {}
    cands = [g for g in F.fns if g.mir and not g.is_closure and g.path.startswith("compiler::") and len(lookup_events(F, g, memo)) >= 2]
    if len(cands) != 1:
        raise AnchorMissing("the name resolver (a compiler function with several jump-table lookups; found %d)" % len(cands))
    return cands[0]


LOOKUP_ORDER = ["literal", "namespace", "function-import", "module-import"]
_TRANSPARENT_CALLS = {"deref", "as_ref", "as_str", "borrow", "as_bytes"}


def _is_name_param(f, l):
    return "str" in f.local_ty(l).lower()


_RET = {"k": "copy", "place": {"l": 0, "p": []}}


def helper_return_slices(F, f, via, memo):
    """for every call in `via` (calls of f that a data slice passes through) of a crate-local compiler helper: the data slice
    of what the helper returns, in the helper's own terms: [(call term in f, helper, DefUse of helper, atoms, via calls)]"""
    out = []
    for c in via:
        for n in callee_names(c["func"]):
            h = F.fn(n, required=False)
            if h is None or not h.mir or h is f or h.is_closure or not h.path.startswith("compiler::"):
                continue
            key = ("retslice", h.short)
            if key not in memo:
                du = DefUse(h)
                hv = []
                memo[key] = (du, mir_provenance(F, h, du, _RET, memo, hv, skip_residual=True), hv)
            du, atoms, hv = memo[key]
            out.append((c, h, du, atoms, hv))
            break
    return out


def key_atoms(F, f, du, t, memo, call=None):
    """(atoms, split) of the key of the table lookup `t` in function f, in terms of the resolver: when f is a lookup helper
    called from the resolver `call = (resolver, du of resolver, call term)`, each parameter atom of the helper is replaced
    by the data slice of the argument passed for it. split: the called name itself (not the alias found for it) goes
    through a str split on the way."""
    via = []
    atoms = mir_provenance(F, f, du, t["args"][1], memo, via)

    def to_resolver(at):
        if call is None:
            return set(at)
        rf, rdu, ct = call
        out = set()
        for a in at:
            if a[0] == "param":
                if a[1] - 1 < len(ct["args"]):
                    out |= mir_provenance(F, rf, rdu, ct["args"][a[1] - 1], memo)
            else:
                out.add(a)
        return out
    rf = call[0] if call is not None else f
    split = False
    for c in via:
        nm = callee_names(c["func"])
        if nm and "split" in nm[0].rsplit("::", 1)[-1] and c["args"]:
            a0 = to_resolver(mir_provenance(F, f, du, c["args"][0], memo))
            if any(x[0] == "param" and _is_name_param(rf, x[1]) for x in a0) and ("field", "current_imports") not in a0:
                split = True
    # the name may be built by a helper (`imported_module_function_name(function)`): a split inside it counts when what is
    # split is a parameter of the helper that receives the called name
    for c, h, hdu, _hatoms, hvia in helper_return_slices(F, f, via, memo):
        for sc in hvia:
            nm = callee_names(sc["func"])
            if not (nm and "split" in nm[0].rsplit("::", 1)[-1] and sc["args"]):
                continue
            a0h = mir_provenance(F, h, hdu, sc["args"][0], memo)
            if ("field", "current_imports") in a0h:
                continue
            a0 = set()
            for a in a0h:
                if a[0] == "param" and a[1] - 1 < len(c["args"]):
                    a0 |= to_resolver(mir_provenance(F, f, du, c["args"][a[1] - 1], memo))
            if any(x[0] == "param" and _is_name_param(rf, x[1]) for x in a0) and ("field", "current_imports") not in a0:
                split = True
    return to_resolver(atoms), split, rf


def classify_lookup(F, f, du, t, memo, call=None):
    """which of the documented lookups a jump-table lookup is, by what its key is computed from:
       literal          the called name as given (nothing but the name parameter)
       namespace        the current namespace and the name; no import involved
       function-import  an entry of the imports found under the whole name
       module-import    an entry of the imports found under the part of the name before a `.` (the name is split)"""
    atoms, split, rf = key_atoms(F, f, du, t, memo, call)
    fields = set(a[1] for a in atoms if a[0] == "field")
    calls_ = set(a[1] for a in atoms if a[0] == "call")
    name_params = set(a[1] for a in atoms if a[0] == "param" and _is_name_param(rf, a[1]))
    if "current_imports" in fields:
        kind = "module-import" if split else "function-import"
    elif "current_namespace" in fields:
        kind = "namespace"
    elif name_params and not (fields - {"jump_table"}) and not (calls_ - _TRANSPARENT_CALLS):
        kind = "literal"
    else:
        kind = "?"
    if kind != "literal" and not name_params:
        kind = "?"      # every lookup is for the called name
    return kind


def classified_events(F, f, memo):
    """lookup events of the resolver with their kind: [(block, call term, shape, lookup fn, lookup term, kind)]"""
    rdu = DefUse(f)
    out = []
    dus = {}
    for bi, ct, shape, lf, lt in lookup_events(F, f, memo):
        if lf is f:
            kind = classify_lookup(F, f, rdu, lt, memo)
        else:
            du = dus.setdefault(lf.short, DefUse(lf))
            kind = classify_lookup(F, lf, du, lt, memo, (f, rdu, ct))
        out.append((bi, ct, shape, lf, lt, kind))
    return out


def rule_o(F):
    res = []
    f = resolver_fn(F)
    memo = {}
    evs = classified_events(F, f, memo)
    if len(evs) < 2:
        raise AnchorMissing("jump_table.get calls in %s" % f.name)
    key_miss = "C08/O/%s/later-lookups-only-on-miss" % f.name
    key_order = "C08/O/%s/documented-order" % f.name
    ran_after_hit, before, _returns = lookup_paths(f, dict((e[0], (n, e[2])) for n, e in enumerate(evs)))
    if ran_after_hit is None:
        res.append(undecided("C08.O", key_miss, f.loc(), "too many paths through %s" % f.name))
        res.append(undecided("C08.O", key_order, f.loc(), "too many paths through %s" % f.name))
        return res
    if ran_after_hit:
        msgs = []
        for j in sorted(set(j for _i, j in ran_after_hit)):
            firsts = sorted(i for i, j2 in ran_after_hit if j2 == j)
            msgs.append("lookup #%d (line %s) runs even if an earlier lookup (#%s) already found the function" %
                        (j + 1, evs[j][1].get("ln"), ", #".join(str(i + 1) for i in firsts)))
        res.append(bad("C08.O", key_miss, f.loc(), "; ".join(msgs)))
    else:
        res.append(ok("C08.O", key_miss, f.loc(), "%d lookups; on every path a later one is reached only after all earlier ones missed" % len(evs)))
    kinds = [e[5] for e in evs]
    want = LOOKUP_ORDER
    swapped = sorted((i, j) for i, j in before if i > j)
    if kinds == want and not swapped:
        res.append(ok("C08.O", key_order, f.loc(), "lookup order: %s" % " -> ".join(kinds)))
    elif kinds == want:
        res.append(bad("C08.O", key_order, f.loc(), "the lookups are not tried in one fixed order: %s" %
                       ", ".join("%s before %s" % (kinds[i], kinds[j]) for i, j in swapped)))
    else:
        res.append(bad("C08.O", key_order, f.loc(), "lookup order is %s, documented order is %s" % (kinds, want)))
    return res


def rule_h(F):
    res = []
    g = F.fn("compiler::module::function_to_function_ir")
    key = "C08/H/function_to_function_ir/handle-is-injective"
    hexpr = None
    for x in hir_walk(g.hir["body"]):
        if x.get("k") == "struct" and short(x["path"]["res"].get("path", "")).endswith("FunctionIr"):
            for fl in x["fields"]:
                if fl["name"] == "handle":
                    hexpr = fl["e"]
    if hexpr is None:
        raise AnchorMissing("FunctionIr { handle: .. } in function_to_function_ir")
    e = hu.strip_all(hexpr)
    names = hir_callee(e) if e.get("k") in ("call", "mcall") else []
    ctor = [n.rsplit("::", 1)[-1] for n in names if "Handle::" in n]
    params = [p.get("id") for p in g.hir["params"]]
    INJ = ("from_u64", "from_u32", "from_i64")
    handle_is_param = hir_local_id(e) in params and not hu.let_inits(g).get(hir_local_id(e))
    if (ctor and ctor[0] in INJ and e["args"]) or handle_is_param:
        # the handle is made from an index parameter here, or it is a parameter and every caller makes it from the index
        lid = hir_local_id(e) if handle_is_param else hir_local_id(hu.strip_all(e["args"][0]))
        if lid in params:
            pidx = params.index(lid)
            site_ctors = set()
            # every call site passes `<vec>.len()` of the vector the result is pushed onto: directly
            # (`out.push(f(out.len(), ..))`) or through single-assignment temporaries (`let i = out.len(); let ir = f(i, ..);
            # out.push(ir)`) with nothing else done to the vector between reading its length and the push
            FN = "compiler::module::function_to_function_ir"
            sites = 0
            calls = 0
            good = True
            why = ""
            for f in F.fns:
                if not f.hir or f.is_closure:
                    continue
                cs = [x for x in hir_walk(f.hir["body"]) if x.get("k") == "call" and FN in hir_callee(x)]
                if not cs:
                    continue
                inits = hu.let_inits(f)
                vec_calls = [x for x in hir_walk(f.hir["body"]) if x.get("k") == "mcall" and hir_local_id(hu.strip_all(x["recv"])) is not None]
                for c in cs:
                    calls += 1
                    # where does the result go?
                    push = None
                    for x in vec_calls:
                        if x["name"] != "push" or not x["args"]:
                            continue
                        a = hu.strip_all(x["args"][0])
                        if a is c:
                            push = x
                        else:
                            lid = hir_local_id(a)
                            if lid is not None and len(inits.get(lid, [])) == 1 and hu.strip_all(inits[lid][0]) is c:
                                push = x
                    if push is None:
                        continue
                    sites += 1
                    recv = hir_local_id(hu.strip_all(push["recv"]))
                    a = hu.strip_all(c["args"][pidx])
                    lid = hir_local_id(a)
                    if lid is not None and len(inits.get(lid, [])) == 1:
                        a = hu.strip_all(inits[lid][0])
                    if handle_is_param:
                        # the caller builds the handle: Handle::from_u64(<index>)
                        cn = [n.rsplit("::", 1)[-1] for n in (hir_callee(a) if a.get("k") in ("call", "mcall") else []) if "Handle::" in n]
                        if not (cn and cn[0] in INJ and a["args"]):
                            good = False
                            why = "the handle passed at %s is not an injective function of the position (%s)" % (f.loc(c["ln"]), cn or a.get("k"))
                            continue
                        site_ctors.add(cn[0])
                        a = hu.strip_all(a["args"][0])
                        lid = hir_local_id(a)
                        if lid is not None and len(inits.get(lid, [])) == 1:
                            a = hu.strip_all(inits[lid][0])
                    if not (a.get("k") == "mcall" and a["name"] == "len" and hir_local_id(hu.strip_all(a["recv"])) == recv and recv is not None):
                        good = False
                        why = "the index argument at %s is not `<out>.len()` of the vector the function is pushed onto" % f.loc(c["ln"])
                        continue
                    touched = [x for x in vec_calls if hir_local_id(hu.strip_all(x["recv"])) == recv and x is not push and x is not a
                               and x["name"] not in ("len", "capacity", "is_empty") and a["ln"] <= x["ln"] <= push["ln"]]
                    if touched:
                        good = False
                        why = "the vector is modified (%s at %s) between reading its length and pushing the function" % (touched[0]["name"], f.loc(touched[0]["ln"]))
            if sites == 0 or calls != sites:
                res.append(undecided("C08.H", key, g.loc(), "function_to_function_ir is not (only) called as `out.push(function_to_function_ir(out.len(), ..))`"))
            elif good:
                res.append(ok("C08.H", key, g.loc(hexpr.get("ln")), "handle = %s(position in the flattened output), taken as out.len() at the push: unique per function" % (ctor[0] if ctor else "/".join(sorted(site_ctors)))))
            else:
                res.append(bad("C08.H", key, g.loc(hexpr.get("ln")), "function handles are derived from an index that is not unique per function: " + why))
            return res
    if ctor and ctor[0] in ("from_bytes_iter", "from_slice"):
        res.append(bad("C08.H", key, g.loc(hexpr.get("ln")),
                       "the function handle hashes the name segments back to back (%s): segment boundaries are lost, `ab.c` and `a.bc` "
                       "(or root `foobar` and `foo.bar`) get the same handle while the dotted names pass the duplicate check; the second "
                       "label overwrites the first and a call resolved to one function runs the other's body" % ctor[0]))
        return res
    res.append(undecided("C08.H", key, g.loc(hexpr.get("ln")), "handle derivation not understood (%s)" % (names or e.get("k"))))
    return res


def arity_param_is_fed_with_arity(F, pidx):
    """every caller of push_call_frame passes, for parameter #pidx, a value read from an `arity` field (of the function or
    closure object being called)"""
    from rules.c06 import expr_leaves
    n = 0
    hir_undecided = []
    for g in F.fns:
        if not g.hir or g.is_closure:
            continue
        for x in hir_walk(g.hir["body"]):
            if x.get("k") == "call" and "vm::instr_execution::push_call_frame" in hir_callee(x):
                n += 1
                lv = expr_leaves(g, x["args"][pidx])
                if not any(l.startswith("field:") and l.endswith("arity") for l in lv):
                    hir_undecided.append(g)
    if hir_undecided:
        # the value reaches the call through pattern bindings / a helper that classifies the callee: decide on the MIR
        # data slice of the argument at every call site of those functions
        memo = {}
        for g in hir_undecided:
            if not g.mir:
                return False
            du = DefUse(g)
            sites = [t for _bi, t in mu.calls(g) if "vm::instr_execution::push_call_frame" in callee_names(t["func"])]
            if not sites:
                return False
            for t in sites:
                atoms = mir_provenance(F, g, du, t["args"][pidx], memo)
                if ("field", "arity") not in atoms:
                    return False
    return n > 0


# wrappers that hand their first argument's payload on unchanged (Option/Result plumbing around the subtraction)
_PASS_THROUGH = ("ok_or", "ok_or_else", "branch", "unwrap", "expect", "unwrap_unchecked", "into", "try_into", "from", "map_err", "ok", "unwrap_or_default")
_PAYLOAD_VARIANTS = ("Some", "Ok", "Continue")


def _payload_place(pl):
    """a place that reads a whole local, or the payload of its Some/Ok/Continue variant (`let Some(x) = v else`,
    `match v { Ok(x) => .. }`, the `?` desugaring): the local it reads from, else None"""
    proj = pl["p"]
    if not proj:
        return pl["l"]
    if len(proj) == 2 and proj[0]["k"] == "downcast" and proj[0].get("variant") in _PAYLOAD_VARIANTS and proj[1]["k"] == "field" \
            and str(proj[1].get("name")) in ("0", "_0", "__0"):
        return pl["l"]
    return None


def offset_is_len_minus_arity(F, f, du, l):
    """follow the value stored into stack_offset back through single-assignment temporaries, casts, Option/Result
    plumbing and variant payload reads to the subtraction; it must be <ValueStack::len()> - <the arity parameter>"""
    seen = set()
    while l is not None and l not in seen:
        seen.add(l)
        ds = du.defs.get(l, [])
        if len(ds) != 1:
            return False
        d = ds[0]
        minuend = subtrahend = None
        if d[2] == "call":
            if d[3]["dest"]["p"]:
                return False
            nm = callee_names(d[3]["func"])
            last = nm[0].rsplit("::", 1)[-1] if nm else "?"
            if last in ("checked_sub", "saturating_sub", "wrapping_sub") and len(d[3]["args"]) == 2:
                minuend, subtrahend = d[3]["args"]
            elif last in _PASS_THROUGH and d[3]["args"]:
                l = op_local(d[3]["args"][0])
                continue
            else:
                return False
        else:
            if d[3]["place"]["p"]:
                return False
            rv = d[3]["rv"]
            if rv["k"] in ("use", "cast"):
                p = op_place(rv["op"])
                # `(a - b)` with overflow checks: the value is field 0 of the (value, overflowed) pair of SubWithOverflow
                if p is not None and len(p["p"]) == 1 and p["p"][0]["k"] == "field" and str(p["p"][0].get("name")) == "0":
                    bd = du.defs.get(p["l"], [])
                    if len(bd) == 1 and bd[0][2] == "assign" and not bd[0][3]["place"]["p"] and bd[0][3]["rv"]["k"] == "bin" \
                            and bd[0][3]["rv"]["op"] in ("SubWithOverflow", "CheckedSub"):
                        minuend, subtrahend = bd[0][3]["rv"]["l"], bd[0][3]["rv"]["r"]
                        a0, a1 = op_local(minuend), op_local(subtrahend)
                        return _len_minus_arity_operands(F, du, a0, a1)
                l = _payload_place(p) if p is not None else None
                continue
            if rv["k"] == "bin" and rv["op"] in ("Sub", "SubUnchecked"):
                minuend, subtrahend = rv["l"], rv["r"]
            else:
                return False
        return _len_minus_arity_operands(F, du, op_local(minuend), op_local(subtrahend))
    return False


def _len_minus_arity_operands(F, du, a0, a1):
    if a0 is None or a1 is None:
        return False
    kind, payload = du.trace_back(a0)
    if not (kind == "call" and any(n.endswith("ValueStack::len") for n in callee_names(payload["func"]))):
        return False
    # the subtrahend must be the arity parameter (not a constant, not another local)
    kind, payload = du.trace_back(a1)
    return kind == "arg" and arity_param_is_fed_with_arity(F, payload - 1)


def rule_f(F):
    res = []
    f = F.fn("vm::instr_execution::push_call_frame")
    du = DefUse(f)
    good = False
    sites = 0
    for b in f.blocks:
        for st in b["stmts"]:
            if st["k"] == "assign" and st["rv"]["k"] == "agg" and short(st["rv"]["agg"].get("path", "")).endswith("runtime::CallFrame"):
                fields = st["rv"]["agg"]["fields"]
                if "stack_offset" in fields:
                    sites += 1
                    op = st["rv"]["ops"][fields.index("stack_offset")]
                    good = offset_is_len_minus_arity(F, f, du, op_local(op)) and (good or sites == 1)
    if good:
        res.append(ok("C08.F", "C08/F/push_call_frame/offset-is-len-minus-arity", f.loc(), "stack_offset = value_stack.len() - arity (checked)"))
    else:
        res.append(bad("C08.F", "C08/F/push_call_frame/offset-is-len-minus-arity", f.loc(), "the callee's frame does not start at len - arity: arguments are not bound to the parameters / caller locals are visible"))
    g = F.fn("vm::instr_execution::instr_return")
    gdu = DefUse(g)
    okr = False
    for bi, t in mu.calls(g):
        if "collections::value_stack::ValueStack::clear_until" in callee_names(t["func"]):
            p = op_place(t["args"][1])
            from rules.c14 import field_names_of_place
            if p is not None and "stack_offset" in field_names_of_place(g, gdu, p):
                okr = True
    if okr:
        res.append(ok("C08.F", "C08/F/instr_return/truncates-to-offset", g.loc(), "Return truncates the value stack to the frame's stack_offset"))
    else:
        res.append(bad("C08.F", "C08/F/instr_return/truncates-to-offset", g.loc(), "Return does not truncate the value stack to the frame's stack_offset"))
    return res


RULES = [
    Rule("C08.H", rule_h, 1, "function handles are injective"),
    Rule("C08.D", rule_d, 1, "duplicate test and insertion use the same key"),
    Rule("C08.T", rule_t, 2, "every function and closure body is followed by an unconditional Return"),
    Rule("C08.M", rule_m, 2, "the duplicate sub-module scan completes before its set is reused"),
    Rule("C08.P", rule_p, 4, "`super.` is a leading component; the alias enters the looked-up name stripped; the checked depth cuts the namespace"),
    Rule("C08.V", rule_v, 2, "every namespace component is validated"),
    Rule("C08.O", rule_o, 2, "resolution tries the documented lookups in order, later ones only on a miss"),
    Rule("C08.F", rule_f, 2, "callee frame = len - arity, Return truncates to it"),
]
