"""C08 — A call invokes exactly the function that name resolution designates.

  C08.D  check-then-insert uses one key: in Compiler::add_function the key tested for duplicates is the key inserted.
  C08.V  every name component that enters the namespace is validated: in flatten_module every namespace.push(x) is
         guarded by is_name_valid(x).
  C08.O  lookup order: resolve_function tries the literal name, namespace + name, function imports, module-prefix
         imports, each later lookup only if the previous ones found nothing.
  C08.H  function handles are injective: the handle under which a function's entry label is stored (and which every call
         site encodes) is a hash of the function's position in the flattened output - taken as `out.len()` right where the
         function is pushed - so two functions never share one. A handle hashed from the name segments back to back
         (without separator) is reported: `ab.c` and `a.bc` collide while the name-keyed duplicate check passes.
  C08.F  caller frame isolation: a frame's stack_offset is len - arity and Return truncates exactly to it.
"""
from cao.facts import (AnchorMissing, callee_names, short, op_local, op_place, DefUse, hir_walk, hir_callee, hir_strip, hir_local_id, hir_children, pat_bindings, pat_variants)
from cao.rules import Rule, ok, bad, undecided, note
from cao import mirutil as mu
from cao import hirutil as hu
from rules.c06 import expr_leaves

EXPLANATION = (
    "Uniqueness and validity of names are preconditions of 'the resolved target is the documented one'. C08.D is a "
    "contradiction rule: the expression tested with jump_table.contains and the expression passed to jump_table.insert in "
    "add_function must be the same (normalised HIR). C08.V: each namespace.push(x) in flatten_module lies after an early "
    "return guarded by !is_name_valid(x) on the same x. C08.O: resolve_function consists of four jump_table.get calls, each "
    "after the first nested in `if to.is_none()`. C08.F: data-flow of CallFrame.stack_offset from checked_sub(len, arity) "
    "to clear_until in instr_return. Not decided: that the resolved target equals the documented one for a given module "
    "tree (behavioural over name sets)."
)
ASSUMPTIONS = ["CaoHashMap is a faithful map (C12)"]


def norm(e, f=None, depth=0):
    """normal form of a key expression: method names applied to a root local, ignoring borrows/as_ref/as_str/to_string;
    a local with a single initialiser is replaced by it"""
    e = hu.strip_casts(e)
    if e is None:
        return None
    k = e.get("k")
    if k in ("addr_of",) or (k == "un" and e["op"] == "Deref"):
        return norm(e["e"])
    if k == "mcall":
        if e["name"] in ("as_ref", "as_str", "to_string", "to_owned", "clone", "as_mut", "borrow", "into", "deref"):
            return norm(e["recv"])
        return ("m", e["name"], norm(e["recv"])) + tuple(norm(a) for a in e["args"])
    if k == "field":
        return ("f", e["name"], norm(e["e"]))
    if k == "path":
        r = e["path"]["res"]
        if r["k"] == "local":
            return ("local", r["name"])
        return ("def", short(r.get("path", "")))
    if k == "call":
        return ("c", (hir_callee(e) or ["?"])[0]) + tuple(norm(a) for a in e["args"])
    if k == "lit":
        return ("lit", e["lit"].get("v"))
    return (k,)


def resolve_local(f, e):
    """replace a local by its single initialiser"""
    e2 = hu.strip_casts(e)
    while e2 is not None and e2.get("k") in ("addr_of",):
        e2 = hu.strip_casts(e2["e"])
    lid = hir_local_id(e2)
    if lid is not None:
        inits = hu.let_inits(f).get(lid, [])
        if len(inits) == 1:
            return inits[0]
    return e


def rule_d(F):
    res = []
    f = F.fn("compiler::Compiler::add_function")
    tests, inserts = [], []
    for x in hir_walk(f.hir["body"]):
        if x.get("k") == "mcall":
            fc = hu.field_chain(x["recv"])
            if fc and fc[1][-1:] == ["jump_table"]:
                if x["name"] in ("contains", "get", "contains_key"):
                    tests.append(x)
                elif x["name"] in ("insert", "entry"):
                    inserts.append(x)
    if not tests or not inserts:
        res.append(bad("C08.D", "C08/D/add_function/duplicate-test-uses-inserted-key", f.loc(),
                       "add_function must test the jump table for the key it inserts (tests=%d inserts=%d)" % (len(tests), len(inserts))))
        return res
    tk = norm(tests[0]["args"][0], f)
    ik = norm(inserts[0]["args"][0], f)
    if tk == ik:
        res.append(ok("C08.D", "C08/D/add_function/duplicate-test-uses-inserted-key", f.loc(tests[0]["ln"]), "duplicate test and insertion use the same key %s" % (tk,)))
    else:
        res.append(bad("C08.D", "C08/D/add_function/duplicate-test-uses-inserted-key", f.loc(tests[0]["ln"]),
                       "add_function tests the jump table for %s but inserts under %s: two functions with the same name in one sub-module are "
                       "not rejected (the second silently replaces the first), while a root function named like any function of any "
                       "sub-module (including std: map, min, filter, ...) is rejected as a duplicate" % (tk, ik)))
    return res


def rule_t(F):
    """C08.T: a call executes its callee's body and no other. Function bodies lie one after the other in the bytecode, so
    what keeps control from running off the end of one body into the next is the `ScalarNil; Return` that the compiler
    appends: after the body of every non-entry function (compile_stage_2) and of every closure (between compile_begin and
    compile_end) a Return instruction is emitted on every non-error path - not only when a syntactic test thinks the body
    'already returns' (a branch that does not return falls through into the next function's code)."""
    from cao import framebal as fb
    res = []
    memo = {}

    def return_blocks_of(g):
        """blocks of g that unconditionally emit a Return instruction (directly or through a helper that always does)"""
        du = DefUse(g)
        out = set()
        for bi, t in mu.calls(g):
            nm = callee_names(t["func"])
            if any(n.endswith("Compiler::push_instruction") for n in nm) and len(t["args"]) >= 2:
                v = mu.operand_variant(g, du, t["args"][1])
                if isinstance(v, str) and v.rsplit("::", 1)[-1] == "Return":
                    out.add(bi)
            for n in nm:
                h = F.fn(n, required=False)
                if h is not None and h.mir and h is not g and n.startswith("compiler::Compiler::") and n not in ("compiler::Compiler::process_card", "compiler::Compiler::compile_subexpr",
                                                                                                                 "compiler::Compiler::process_function", "compiler::Compiler::push_instruction"):
                    if always_returns(h):
                        out.add(bi)
        return out

    def always_returns(h, depth=0):
        if h.short in memo:
            return memo[h.short]
        memo[h.short] = False
        if depth > 3:
            return False
        rb = return_blocks_of(h)
        cfg = h.cfg
        good = bool(rb)
        if good:
            # every non-error path from the entry to the return passes one of them
            stack, seen = [0], set()
            while stack:
                b = stack.pop()
                if b in seen or b in rb or fb._error_block(h, b):
                    continue
                seen.add(b)
                if h.blocks[b]["term"]["k"] == "return":
                    good = False
                    break
                stack.extend(cfg.succ[b])
        if not good and rb and h.hir:
            # the Return is skipped under a predicate "the body already returns": accept it when the predicate is sound,
            # arm by arm (Return -> true; a block ends where its last card ends; an IfElse only if *all* branches return)
            preds = set()
            for y in hir_walk(h.hir["body"]):
                if y.get("k") == "path" and y["path"]["res"].get("k") == "def" and y["path"]["res"].get("def_kind") == "Fn":
                    pf_ = F.fn(short(y["path"]["res"].get("path", "")), required=False)
                    if pf_ is not None and pf_.hir and len(pf_.hir.get("params", [])) == 1 and "Card" in (pf_.hir["params"][0].get("ty") or ""):
                        preds.add(pf_.short)
            if preds and all(sound_returns_predicate(F.fn(p_)) for p_ in preds):
                good = True
        memo[h.short] = good
        return good

    def sound_returns_predicate(pf_):
        m = None
        for y in hir_walk(pf_.hir["body"]):
            if y.get("k") == "match" and not y.get("exp"):
                m = y
                break
        if m is None:
            return False
        for a in m["arms"]:
            kinds = [v[0].rsplit("::", 1)[-1] for v in pat_variants(a["pat"])]
            body = hu.strip_all(a["body"])
            if body is not None and body.get("k") == "lit" and body["lit"].get("v") is False:
                continue
            if kinds == ["Return"] and body is not None and body.get("k") == "lit" and body["lit"].get("v") is True:
                continue
            calls_ = [z for z in hir_walk(a["body"]) if z.get("k") == "mcall"]
            names_ = [z["name"] for z in calls_]
            recursive = any(z.get("k") == "path" and short(z["path"]["res"].get("path", "")) == pf_.short for z in hir_walk(a["body"]))
            if kinds == ["CompositeCard"] and recursive and "last" in names_ and not ({"any", "first", "nth"} & set(names_)):
                continue
            if kinds == ["IfElse"] and recursive and "all" in names_ and "any" not in names_:
                continue
            return False
        return True

    def must_pass(g, start_blocks, stop_blocks, what, key, loc_ln):
        rb = return_blocks_of(g)
        cfg = g.cfg
        leak = None
        for sb in start_blocks:
            stack, seen = [sb], set()
            while stack:
                b = stack.pop()
                if b in seen or b in rb or fb._error_block(g, b):
                    continue
                seen.add(b)
                if b in stop_blocks or g.blocks[b]["term"]["k"] == "return":
                    leak = b
                    break
                stack.extend(cfg.succ[b])
        if leak is None:
            res.append(ok("C08.T", key, g.loc(loc_ln), "a Return is emitted on every non-error path after %s" % what))
        else:
            res.append(bad("C08.T", key, g.loc(loc_ln),
                           "%s: after %s there is a path on which no Return instruction is emitted (the trailing `ScalarNil; Return` is "
                           "skipped when some test decides that the body returns by itself): a control path of the body that does not "
                           "return runs off its end into the code of the next function, which executes in the callee's frame and whose "
                           "result goes back to the caller" % (g.name, what)))

    s2 = F.fn("compiler::Compiler::compile_stage_2")
    pf = [(bi, t) for bi, t in mu.calls(s2) if "compiler::Compiler::process_function" in callee_names(t["func"])]
    in_loop = [(bi, t) for bi, t in pf if any(s2.cfg.dominates(h, bi) for _s, h in s2.cfg.back_edges())]
    if not in_loop:
        raise AnchorMissing("process_function call inside the function loop of compile_stage_2")
    hdrs = set(h for _s, h in s2.cfg.back_edges())
    must_pass(s2, [t["target"] for _bi, t in in_loop if t.get("target") is not None], hdrs, "the body of a non-entry function",
              "C08/T/compile_stage_2/function-body-ends-with-return", in_loop[0][1].get("ln"))
    pc = F.fn("compiler::Compiler::process_card")
    begins = [(bi, t) for bi, t in mu.calls(pc) if "compiler::Compiler::compile_begin" in callee_names(t["func"])]
    ends = set(bi for bi, t in mu.calls(pc) if "compiler::Compiler::compile_end" in callee_names(t["func"]))
    if not begins or not ends:
        raise AnchorMissing("compile_begin / compile_end in process_card (closure bodies)")
    must_pass(pc, [t["target"] for _bi, t in begins if t.get("target") is not None], ends, "the body of a closure",
              "C08/T/process_card[Closure]/closure-body-ends-with-return", begins[0][1].get("ln"))
    return res


def rule_m(F):
    """C08.M: duplicate sub-module names are compilation errors. In Module::ensure_invariants the scan that collects the
    sibling names into the scratch set touches the set only through contains / insert: it is not cleared, replaced or handed
    to the recursive call while siblings are still to be compared (two same-named siblings separated by a module with
    children of its own would otherwise both be accepted, and lookup designates only the first). Every recursive call gets
    a cleared (or fresh) set, so names of another level are not reported as duplicates."""
    res = []
    f = F.fn("compiler::module::Module::ensure_invariants")
    body = f.hir["body"]
    # the scratch set: a local of HashSet type
    def is_set(e):
        e = hu.strip_all(e)
        return e is not None and e.get("k") == "path" and e["path"]["res"].get("k") == "local" and "HashSet" in (e.get("ty") or "")
    loops = [x for x in hir_walk(body) if x.get("k") == "loop"]
    scans = []
    for lp in loops:
        ins = [y for y in hir_walk(lp) if y.get("k") == "mcall" and y["name"] in ("insert", "contains", "replace", "get") and is_set(y["recv"])]
        if ins:
            scans.append(lp)
    if not scans:
        raise AnchorMissing("sibling-name scan (HashSet insert/contains in a loop) in Module::ensure_invariants")
    key = "C08/M/ensure_invariants/sibling-scan-keeps-its-set"
    offenders = []
    for lp in scans:
        for y in hir_walk(lp):
            if y.get("k") == "mcall" and is_set(y["recv"]) and y["name"] not in ("insert", "contains", "get", "len", "is_empty"):
                offenders.append((y, "%s() on the set" % y["name"]))
            elif y.get("k") in ("mcall", "call"):
                args = list(y.get("args") or [])
                if any(is_set(a) or (hu.strip_all(a) or {}).get("k") == "addr_of" and is_set(hu.strip_all(a)["e"]) for a in args):
                    nm = y.get("name") or (hir_callee(y) or ["?"])[0]
                    if nm not in ("insert", "contains"):
                        offenders.append((y, "the set is handed to %s" % nm))
            elif y.get("k") == "assign" and is_set(y["l"]):
                offenders.append((y, "the set is replaced"))
    if offenders:
        y, why = offenders[0]
        res.append(bad("C08.M", key, f.loc(y.get("ln")),
                       "Module::ensure_invariants: inside the loop that compares the sub-module names of one level %s: the names seen so far "
                       "are forgotten while later siblings are still to be checked, so a duplicate sub-module name after a module with "
                       "children is accepted (and only the first of the two can ever be resolved) instead of DuplicateModule" % why))
    else:
        res.append(ok("C08.M", key, f.loc(), "%d scan loop(s); the set is only queried/extended while siblings are compared" % len(scans)))
    # recursion gets a cleared or fresh set
    key2 = "C08/M/ensure_invariants/recursion-starts-from-an-empty-set"
    rec = []
    for bl in [x for x in hir_walk(body) if x.get("k") == "block"]:
        stmts = [st.get("e") or st.get("init") for st in bl["block"]["stmts"]] + ([bl["block"].get("expr")] if bl["block"].get("expr") else [])
        for i, e in enumerate(stmts):
            if e is None:
                continue
            calls_here = [y for y in hir_walk(e) if y.get("k") == "mcall" and y["name"] == "ensure_invariants"
                          and any(n.endswith("Module::ensure_invariants") for n in hir_callee(y))]
            inner_blocks = [y for y in hir_walk(e) if y.get("k") == "block" and y is not e]
            for c in calls_here:
                if any(any(z is c for z in hir_walk(ib)) for ib in inner_blocks):
                    continue
                prev = stmts[i - 1] if i > 0 else None
                cleared = prev is not None and any(y.get("k") == "mcall" and y["name"] == "clear" and is_set(y["recv"]) for y in hir_walk(prev))
                fresh = any((hu.strip_all(a) or {}).get("k") in ("addr_of",) and not is_set(hu.strip_all(a)["e"]) for a in c["args"])
                rec.append((c, cleared or fresh))
    if not rec:
        raise AnchorMissing("recursive ensure_invariants call")
    badrec = [c for c, good in rec if not good]
    if badrec:
        res.append(bad("C08.M", key2, f.loc(badrec[0].get("ln")),
                       "Module::ensure_invariants recurses into a sub-module with the scratch set still holding the names of the parent "
                       "level: a sub-module named like one of its uncles is rejected as DuplicateModule although the names are unique"))
    else:
        res.append(ok("C08.M", key2, f.loc(rec[0][0].get("ln")), "the set is cleared immediately before each of %d recursive call(s)" % len(rec)))
    return res


def rule_p(F):
    """C08.P: `super.` walking up. (1) super_depth recognises `super.` only as whole leading path components: every string
    search for the literal "super." in it is prefix-anchored (strip_prefix / starts_with); an unanchored search
    (split_once, find, contains, ...) also fires inside a module name such as `mysuper.` and resolves the import one level
    up, to another function. (2) wherever resolve_function applies the depth (namespace shortened by `take(depth)`), the
    alias enters the looked-up name only through its stripped form `s.unwrap_or(alias)`, and the function part of a
    `prefix.function` call is appended as it is: otherwise `super.` is counted twice and the import never resolves."""
    res = []
    sd = F.fn("compiler::super_depth")
    anchored, loose = [], []
    for y in hir_walk(sd.hir["body"]):
        if y.get("k") != "mcall":
            continue
        lits = [z["lit"].get("v") for a in y.get("args") or [] for z in hir_walk(a) if z.get("k") == "lit" and z["lit"].get("k") == "str"]
        if not any(isinstance(v, str) and "super" in v for v in lits):
            continue
        if y["name"] in ("strip_prefix", "starts_with"):
            anchored.append(y)
        else:
            loose.append(y)
    key = "C08/P/super_depth/super-is-a-leading-component"
    if loose:
        res.append(bad("C08.P", key, sd.loc(loose[0].get("ln")),
                       "super_depth looks for \"super.\" with str::%s, which also matches inside a name (the import `mysuper.foo` of a module "
                       "called mysuper is read as one `super.` followed by `foo`): the call is bound to a function of the parent module "
                       "instead of the designated one" % loose[0]["name"]))
    elif anchored:
        res.append(ok("C08.P", key, sd.loc(anchored[0].get("ln")), "\"super.\" is only matched with %s" % sorted(set(a["name"] for a in anchored))))
    else:
        raise AnchorMissing("string search for \"super.\" in compiler::super_depth")
    f = F.fn("compiler::Compiler::resolve_function")
    n = 0
    for bl in [x for x in hir_walk(f.hir["body"]) if x.get("k") == "block"]:
        for st in bl["block"]["stmts"]:
            if st["k"] != "let" or st.get("init") is None:
                continue
            init = hu.strip_all(st["init"])
            if not (init.get("k") == "call" and "compiler::super_depth" in hir_callee(init)):
                continue
            alias = hir_local_id(hu.strip_all(init["args"][0]))
            binds = pat_bindings(st["pat"])
            if alias is None or len(binds) != 2:
                res.append(undecided("C08.P", "C08/P/resolve_function/site%d" % n, f.loc(st.get("ln")), "super_depth call of another shape"))
                continue
            s_id = binds[1][0]
            n += 1
            key = "C08/P/resolve_function/import#%d-alias-enters-stripped" % n
            # occurrences of alias in the block, outside the super_depth call itself
            par = {}
            for x in hir_walk(bl):
                for c in hir_children(x):
                    par[id(c)] = x
            bad_use = None
            for x in hir_walk(bl):
                if x.get("k") == "path" and x["path"]["res"].get("k") == "local" and x["path"]["res"]["id"] == alias:
                    p = par.get(id(x))
                    while p is not None and p.get("k") in ("cast", "addr_of", "un", "drop_temps", "use"):
                        p = par.get(id(p))
                    if p is init or any(z is x for z in hir_walk(init)):
                        continue
                    if p is not None and p.get("k") == "mcall" and p["name"] in ("unwrap_or",) and hir_local_id(hu.strip_all(p["recv"])) == s_id:
                        continue
                    bad_use = x
            # the stripped form must not swallow the function part: unwrap_or(recv s) takes only the alias
            for x in hir_walk(bl):
                if x.get("k") == "mcall" and x["name"] == "unwrap_or" and hir_local_id(hu.strip_all(x["recv"])) == s_id:
                    a = hir_local_id(hu.strip_all(x["args"][0]))
                    if a != alias:
                        bad_use = x
            if bad_use is not None:
                res.append(bad("C08.P", key, f.loc(bad_use.get("ln")),
                               "resolve_function shortens the namespace by the number of `super.` components of the import and then builds "
                               "the name from the unstripped alias (or puts the stripped alias where the function part belongs): `super.` is "
                               "applied twice / the function part is lost, so a call through a module imported with `super.` never resolves "
                               "(InvalidJump for a name that designates exactly one function)"))
            else:
                res.append(ok("C08.P", key, f.loc(st.get("ln")), "alias used only as s.unwrap_or(alias) after the namespace was shortened"))
    if n < 2:
        raise AnchorMissing("super_depth call sites in resolve_function (found %d)" % n)
    return res


def rule_v(F):
    res = []
    f = F.fn("compiler::module::flatten_module")
    anc = hu.control_ancestors(f.hir["body"])
    pushes = []
    for x in hir_walk(f.hir["body"]):
        if x.get("k") == "mcall" and x["name"] == "push":
            r = hu.strip_casts(x["recv"])
            lid = r["path"]["res"].get("name") if r.get("k") == "path" and r["path"]["res"]["k"] == "local" else None
            if lid == "namespace" or (hu.field_chain(x["recv"]) or (None, [], ""))[2] == "namespace":
                pushes.append(x)
    if len(pushes) < 2:
        raise AnchorMissing("namespace.push in flatten_module (found %d)" % len(pushes))
    # validation guards: if !is_name_valid(E) { return Err }
    guards = []
    for x in hir_walk(f.hir["body"]):
        if x.get("k") == "if":
            c = hu.strip_casts(x["cond"])
            neg = False
            if c.get("k") == "un" and c["op"] == "Not":
                neg = True
                c = hu.strip_casts(c["e"])
            if c.get("k") == "call" and any(n.endswith("is_name_valid") for n in hir_callee(c)):
                diverges = hir_strip(x["then"]).get("ty") == "!" or any(y.get("k") == "ret" for y in hir_walk(x["then"]))
                if neg and diverges:
                    guards.append((x, norm(c["args"][0]), anc.get(id(x), ())))
    counters = {}
    for p in pushes:
        arg = norm(p["args"][0])
        pctrl = anc.get(id(p), ())
        # which loop is it in? label by the iterated collection
        label = "functions" if any(True for g in guards if g[1] == arg and g[2] == pctrl) else None
        loop_label = loop_collection(f, p, anc)
        n = counters.get(loop_label, 0)
        counters[loop_label] = n + 1
        key = "C08/V/flatten_module/%s-name-validated" % (loop_label or "component%d" % n)
        ok_guard = [g for g in guards if g[1] == arg and g[2] == pctrl and g[0]["ln"] <= p["ln"]]
        if ok_guard:
            res.append(ok("C08.V", key, f.loc(p["ln"]), "the name is checked with is_name_valid before it enters the namespace"))
        else:
            res.append(bad("C08.V", key, f.loc(p["ln"]),
                           "a %s name is pushed onto the namespace without is_name_valid: a module named `a.b` or `super` (or an empty name) "
                           "shadows or breaks real dotted paths during resolution" % (loop_label or "component")))
    return res


def loop_collection(f, node, anc):
    """name of the collection field iterated by the innermost for-loop around node"""
    best = None
    for x in hir_walk(f.hir["body"]):
        if x.get("k") == "match" and x.get("source", "").startswith("ForLoopDesugar"):
            if any(id(y) == id(node) for y in hir_walk(x)):
                it = hir_strip(x["scrut"])
                it = hir_strip(it["args"][0]) if it.get("k") == "call" and it["args"] else it
                while it.get("k") == "mcall":
                    fc = hu.field_chain(it["recv"])
                    if fc and fc[1]:
                        best = fc[1][-1]
                        break
                    it = hir_strip(it["recv"])
    return best


def rule_o(F):
    res = []
    f = F.fn("compiler::Compiler::resolve_function")
    anc = hu.control_ancestors(f.hir["body"])
    gets = []
    for x in hir_walk(f.hir["body"]):
        if x.get("k") == "mcall" and x["name"] == "get":
            r = hu.strip_casts(x["recv"])
            if r.get("k") == "path" and r["path"]["res"].get("name") == "jump_table":
                gets.append(x)
    if len(gets) < 2:
        raise AnchorMissing("jump_table.get calls in resolve_function")
    # guards: if to.is_none() { .. }
    guard_ifs = {}
    for x in hir_walk(f.hir["body"]):
        if x.get("k") == "if":
            c = hu.strip_casts(x["cond"])
            if c.get("k") == "mcall" and c["name"] == "is_none":
                guard_ifs[id(x)] = x
    unguarded = []
    for n, g in enumerate(gets):
        ctrl = anc.get(id(g), ())
        in_guard = any(c[0] == "then" and c[1] in guard_ifs for c in ctrl)
        if n == 0:
            if in_guard:
                unguarded.append("first lookup is conditional")
        elif not in_guard:
            unguarded.append("lookup #%d (line %d) runs even if an earlier lookup already found the function" % (n + 1, g["ln"]))
    # characterise the order: literal, namespace, imports, module-prefix imports
    kinds = []
    for g in gets:
        lv = expr_leaves(f, g["args"][0])
        ctrl = anc.get(id(g), ())
        region = None
        for c in ctrl:
            if c[0] == "then" and c[1] in guard_ifs:
                region = guard_ifs[c[1]]
                break
        text = " ".join(sorted(lv))
        uses_imports = region is not None and any(y.get("k") == "field" and y["name"] == "current_imports" for y in hir_walk(region))
        uses_split = region is not None and any(y.get("k") == "mcall" and y["name"] == "split_once" and not any(z.get("k") == "call" for z in [y]) for y in hir_walk(region["then"]) if y.get("k") == "mcall" and y["name"] == "split_once")
        uses_ns = region is not None and any(y.get("k") == "field" and y["name"] == "current_namespace" for y in hir_walk(region))
        if region is None:
            kinds.append("literal")
        elif uses_imports and uses_split:
            kinds.append("module-import")
        elif uses_imports:
            kinds.append("function-import")
        elif uses_ns:
            kinds.append("namespace")
        else:
            kinds.append("?")
    want = ["literal", "namespace", "function-import", "module-import"]
    if unguarded:
        res.append(bad("C08.O", "C08/O/resolve_function/later-lookups-only-on-miss", f.loc(), "; ".join(unguarded)))
    else:
        res.append(ok("C08.O", "C08/O/resolve_function/later-lookups-only-on-miss", f.loc(), "%d lookups, each later one inside `if to.is_none()`" % len(gets)))
    if kinds == want:
        res.append(ok("C08.O", "C08/O/resolve_function/documented-order", f.loc(), "lookup order: %s" % " -> ".join(kinds)))
    else:
        res.append(bad("C08.O", "C08/O/resolve_function/documented-order", f.loc(), "lookup order is %s, documented order is %s" % (kinds, want)))
    return res


def rule_h(F):
    res = []
    g = F.fn("compiler::module::function_to_function_ir")
    key = "C08/H/function_to_function_ir/handle-is-injective"
    hexpr = None
    for x in hir_walk(g.hir["body"]):
        if x.get("k") == "struct" and short(x["path"]["res"].get("path", "")).endswith("FunctionIr"):
            for fl in x["fields"]:
                if fl["name"] == "handle":
                    hexpr = fl["e"]
    if hexpr is None:
        raise AnchorMissing("FunctionIr { handle: .. } in function_to_function_ir")
    e = hu.strip_all(hexpr)
    names = hir_callee(e) if e.get("k") in ("call", "mcall") else []
    ctor = [n.rsplit("::", 1)[-1] for n in names if "Handle::" in n]
    params = [p.get("id") for p in g.hir["params"]]
    if ctor and ctor[0] in ("from_u64", "from_u32", "from_i64") and e["args"]:
        lid = hir_local_id(hu.strip_all(e["args"][0]))
        if lid in params:
            pidx = params.index(lid)
            # every call site passes `<vec>.len()` of the vector the result is pushed onto
            sites = 0
            good = True
            why = ""
            for f in F.fns:
                if not f.hir or f.is_closure:
                    continue
                for x in hir_walk(f.hir["body"]):
                    if x.get("k") == "mcall" and x["name"] == "push" and x["args"]:
                        c = hu.strip_all(x["args"][0])
                        if c.get("k") == "call" and "compiler::module::function_to_function_ir" in hir_callee(c):
                            sites += 1
                            a = hu.strip_all(c["args"][pidx])
                            recv = hir_local_id(hu.strip_all(x["recv"]))
                            if not (a.get("k") == "mcall" and a["name"] == "len" and hir_local_id(hu.strip_all(a["recv"])) == recv and recv is not None):
                                good = False
                                why = "the index argument at %s is not `<out>.len()` of the vector the function is pushed onto" % f.loc(c["ln"])
                    elif x.get("k") == "call" and "compiler::module::function_to_function_ir" in hir_callee(x):
                        pass
            calls = sum(1 for f in F.fns if f.hir and not f.is_closure for x in hir_walk(f.hir["body"])
                        if x.get("k") == "call" and "compiler::module::function_to_function_ir" in hir_callee(x))
            if sites == 0 or calls != sites:
                res.append(undecided("C08.H", key, g.loc(), "function_to_function_ir is not (only) called as `out.push(function_to_function_ir(out.len(), ..))`"))
            elif good:
                res.append(ok("C08.H", key, g.loc(hexpr.get("ln")), "handle = %s(position in the flattened output), taken as out.len() at the push: unique per function" % ctor[0]))
            else:
                res.append(bad("C08.H", key, g.loc(hexpr.get("ln")), "function handles are derived from an index that is not unique per function: " + why))
            return res
    if ctor and ctor[0] in ("from_bytes_iter", "from_slice"):
        res.append(bad("C08.H", key, g.loc(hexpr.get("ln")),
                       "the function handle hashes the name segments back to back (%s): segment boundaries are lost, `ab.c` and `a.bc` "
                       "(or root `foobar` and `foo.bar`) get the same handle while the dotted names pass the duplicate check; the second "
                       "label overwrites the first and a call resolved to one function runs the other's body" % ctor[0]))
        return res
    res.append(undecided("C08.H", key, g.loc(hexpr.get("ln")), "handle derivation not understood (%s)" % (names or e.get("k"))))
    return res


def arity_param_is_fed_with_arity(F, pidx):
    """every caller of push_call_frame passes, for parameter #pidx, a value read from an `arity` field (of the function or
    closure object being called)"""
    from rules.c06 import expr_leaves
    n = 0
    for g in F.fns:
        if not g.hir or g.is_closure:
            continue
        for x in hir_walk(g.hir["body"]):
            if x.get("k") == "call" and "vm::instr_execution::push_call_frame" in hir_callee(x):
                n += 1
                lv = expr_leaves(g, x["args"][pidx])
                if not any(l.startswith("field:") and l.endswith("arity") for l in lv):
                    return False
    return n > 0


def rule_f(F):
    res = []
    f = F.fn("vm::instr_execution::push_call_frame")
    du = DefUse(f)
    good = False
    for b in f.blocks:
        for st in b["stmts"]:
            if st["k"] == "assign" and st["rv"]["k"] == "agg" and short(st["rv"]["agg"].get("path", "")).endswith("runtime::CallFrame"):
                fields = st["rv"]["agg"]["fields"]
                if "stack_offset" in fields:
                    op = st["rv"]["ops"][fields.index("stack_offset")]
                    l = op_local(op)
                    # follow back to a checked_sub / sub of len and arity
                    seen = set()
                    while l is not None and l not in seen:
                        seen.add(l)
                        ds = du.defs.get(l, [])
                        if len(ds) != 1:
                            break
                        d = ds[0]
                        if d[2] == "call":
                            nm = callee_names(d[3]["func"])
                            last = nm[0].rsplit("::", 1)[-1]
                            if last in ("checked_sub", "saturating_sub", "wrapping_sub"):
                                a0 = op_local(d[3]["args"][0])
                                src = du.sole_def(a0) if a0 is not None else None
                                # the subtrahend must be the arity parameter (not a constant, not another local)
                                a1 = d[3]["args"][1] if len(d[3]["args"]) > 1 else None
                                a1l = op_local(a1) if a1 is not None else None
                                sub_ok = False
                                if a1l is not None:
                                    kind, payload = du.trace_back(a1l)
                                    sub_ok = kind == "arg" and arity_param_is_fed_with_arity(F, payload - 1)
                                if src is not None and src[2] == "call" and any(n.endswith("ValueStack::len") for n in callee_names(src[3]["func"])) and sub_ok:
                                    good = True
                                break
                            if last in ("ok_or", "branch", "unwrap", "ok_or_else", "into", "try_into"):
                                l = op_local(d[3]["args"][0])
                                continue
                            break
                        rv = d[3]["rv"]
                        if rv["k"] in ("use", "cast"):
                            p = op_place(rv["op"])
                            l = p["l"] if p is not None else None
                            continue
                        break
    if good:
        res.append(ok("C08.F", "C08/F/push_call_frame/offset-is-len-minus-arity", f.loc(), "stack_offset = value_stack.len() - arity (checked)"))
    else:
        res.append(bad("C08.F", "C08/F/push_call_frame/offset-is-len-minus-arity", f.loc(), "the callee's frame does not start at len - arity: arguments are not bound to the parameters / caller locals are visible"))
    g = F.fn("vm::instr_execution::instr_return")
    gdu = DefUse(g)
    okr = False
    for bi, t in mu.calls(g):
        if "collections::value_stack::ValueStack::clear_until" in callee_names(t["func"]):
            p = op_place(t["args"][1])
            from rules.c14 import field_names_of_place
            if p is not None and "stack_offset" in field_names_of_place(g, gdu, p):
                okr = True
    if okr:
        res.append(ok("C08.F", "C08/F/instr_return/truncates-to-offset", g.loc(), "Return truncates the value stack to the frame's stack_offset"))
    else:
        res.append(bad("C08.F", "C08/F/instr_return/truncates-to-offset", g.loc(), "Return does not truncate the value stack to the frame's stack_offset"))
    return res


RULES = [
    Rule("C08.H", rule_h, 1, "function handles are injective"),
    Rule("C08.D", rule_d, 1, "duplicate test and insertion use the same key"),
    Rule("C08.T", rule_t, 2, "every function and closure body is followed by an unconditional Return"),
    Rule("C08.M", rule_m, 2, "the duplicate sub-module scan completes before its set is reused"),
    Rule("C08.P", rule_p, 3, "`super.` is a leading component; the alias enters the looked-up name stripped"),
    Rule("C08.V", rule_v, 2, "every namespace component is validated"),
    Rule("C08.O", rule_o, 2, "resolution tries the documented lookups in order, later ones only on a miss"),
    Rule("C08.F", rule_f, 2, "callee frame = len - arity, Return truncates to it"),
]
