//! C01: a string literal is a literal whatever its length. The compiler stores strings of any length in the data section;
//! the VM's reader used to look at a window of 256 bytes (length prefix included), so a literal, a property name or a
//! native-function name longer than 252 bytes compiled and then failed at run time with InvalidArgument.
use cao_lang::compiler::{Card, Function, Module};
use cao_lang::prelude::*;

#[test]
fn long_string_literals_are_values() {
    for n in [10usize, 252, 253, 256, 257, 300, 5000] {
        let s = "a".repeat(n);
        let m = Module {
            functions: vec![(
                "main".to_string(),
                Function::default().with_cards(vec![Card::set_global_var("g", Card::string_card(s.clone()))]),
            )],
            ..Default::default()
        };
        let p = compile(m, None).expect("compile");
        let mut vm = Vm::new(()).unwrap();
        vm.run(&p).unwrap_or_else(|e| panic!("a literal of {n} bytes fails at run time: {:?}", e.payload));
        let v = vm.read_var_by_name("g", &p.variables).expect("g is set");
        let got = unsafe { v.as_str().expect("a string") };
        assert_eq!(got, s, "literal of {n} bytes");
    }
}
