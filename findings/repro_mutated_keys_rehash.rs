//! C04: running a program never panics. Tables are compared and hashed by content, so two keys of a table can become equal
//! after they were inserted; growing the table then found the first one while re-inserting the second and tripped the
//! "inconsistent count" assertion.
use cao_lang::compiler::{Card, CardBody, Function, Module};
use cao_lang::prelude::*;
use std::panic::{catch_unwind, AssertUnwindSafe};

#[test]
fn growing_a_table_whose_table_keys_became_equal_does_not_panic() {
    let mut cards = vec![
        Card::set_var("m", CardBody::CreateTable),
        Card::set_var("t1", CardBody::CreateTable),
        Card::set_var("t2", CardBody::CreateTable),
        // m[t1] = 1; t1.x = 1; m[t2] = 2; t2.x = 1
        Card::set_property(
            Card::scalar_int(1),
            Card::read_var("m"),
            Card::read_var("t1"),
        ),
        Card::set_property(
            Card::scalar_int(1),
            Card::read_var("t1"),
            Card::string_card("x"),
        ),
        Card::set_property(
            Card::scalar_int(2),
            Card::read_var("m"),
            Card::read_var("t2"),
        ),
        Card::set_property(
            Card::scalar_int(1),
            Card::read_var("t2"),
            Card::string_card("x"),
        ),
    ];
    // grow m
    for i in 0..40 {
        cards.push(Card::set_property(
            Card::scalar_int(i),
            Card::read_var("m"),
            Card::scalar_int(100 + i),
        ));
    }
    cards.push(Card::set_global_var(
        "g_len",
        CardBody::Len(cao_lang::compiler::UnaryExpression {
            card: Box::new(Card::read_var("m")),
        }),
    ));
    let m = Module {
        functions: vec![("main".to_string(), Function::default().with_cards(cards))],
        ..Default::default()
    };
    let p = compile(m, None).expect("compile");
    let r = catch_unwind(AssertUnwindSafe(|| {
        let mut vm = Vm::new(()).unwrap();
        vm.run(&p).map_err(|e| e.to_string())?;
        Ok::<_, String>(vm.read_var_by_name("g_len", &p.variables))
    }));
    let len = r.expect("the VM panicked").expect("run");
    // both table keys are still rows of m
    assert_eq!(len, Some(Value::Integer(42)));
}
