//! C09: std.min / max / sorted meet their contracts whatever the user program calls its own functions.
//! The library's wrappers used to refer to their helpers (`row_to_value`, `min_by_key`, ...) by bare name, which name
//! resolution looks up in the root module first.
use cao_lang::compiler::{BinaryExpression, Card, CardBody, Function, Module};
use cao_lang::prelude::*;

#[test]
fn a_user_function_named_like_a_library_helper_does_not_change_std_min() {
    let m = Module {
        imports: vec!["std.min".to_string()],
        functions: vec![
            (
                "main".to_string(),
                Function::default().with_cards(vec![
                    Card::set_var(
                        "t",
                        CardBody::Array(vec![
                            Card::scalar_int(3),
                            Card::scalar_int(1),
                            Card::scalar_int(2),
                        ]),
                    ),
                    Card::set_var("row", Card::call_function("min", vec![Card::read_var("t")])),
                    Card::set_global_var("g", Card::read_var("row.value")),
                ]),
            ),
            (
                // the user's own function, unrelated to the library: negates
                "row_to_value".to_string(),
                Function::default()
                    .with_arg("key")
                    .with_arg("val")
                    .with_card(Card::return_card(CardBody::Sub(BinaryExpression::new([
                        Card::scalar_int(0),
                        Card::read_var("val"),
                    ])))),
            ),
        ],
        ..Default::default()
    };
    let p = compile(m, None).expect("compile");
    let mut vm = Vm::new(()).unwrap();
    vm.run(&p).expect("run");
    let g = vm.read_var_by_name("g", &p.variables).expect("g");
    assert_eq!(g, Value::Integer(1), "std.min of [3, 1, 2]");
}
