//! C01: reading a global that was never set is the same outcome (VarNotFound) wherever the read sits in the program.
//! It used to depend on how unrelated globals were numbered: once a global with a higher id had been set, the unset one
//! read as nil.
use cao_lang::compiler::{Card, CardBody, Function, Module};
use cao_lang::prelude::*;

fn outcome(cards: Vec<Card>) -> Result<(), String> {
    let m = Module {
        functions: vec![("main".to_string(), Function::default().with_cards(cards))],
        ..Default::default()
    };
    let p = compile(m, None).expect("compile");
    let mut vm = Vm::new(()).unwrap();
    vm.run(&p).map(|_| ()).map_err(|e| format!("{:?}", e.payload))
}

#[test]
fn reading_an_unset_global_fails_wherever_it_is_read() {
    // d = a, nothing else: VarNotFound("a")
    let alone = outcome(vec![Card::set_global_var("d", Card::read_var("a"))]);
    assert!(matches!(&alone, Err(e) if e.contains("VarNotFound")), "{alone:?}");
    // the same read after an unrelated global with a higher id was set
    let after = outcome(vec![
        CardBody::IfTrue(Box::new([
            Card::scalar_int(0),
            Card::set_global_var("b", Card::read_var("a")),
        ]))
        .into(),
        Card::set_global_var("c", Card::scalar_int(1)),
        Card::set_global_var("d", Card::read_var("a")),
    ]);
    assert!(matches!(&after, Err(e) if e.contains("VarNotFound")), "{after:?}");
}

#[test]
fn the_host_sees_an_unset_global_as_absent() {
    let m = Module {
        functions: vec![(
            "main".to_string(),
            Function::default().with_cards(vec![
                CardBody::IfTrue(Box::new([
                    Card::scalar_int(0),
                    Card::set_global_var("never", Card::scalar_int(5)),
                ]))
                .into(),
                Card::set_global_var("later", Card::scalar_int(1)),
            ]),
        )],
        ..Default::default()
    };
    let p = compile(m, None).expect("compile");
    let mut vm = Vm::new(()).unwrap();
    vm.run(&p).expect("run");
    assert_eq!(vm.read_var_by_name("later", &p.variables), Some(Value::Integer(1)));
    assert_eq!(vm.read_var_by_name("never", &p.variables), None);
}
