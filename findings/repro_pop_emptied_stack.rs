use cao_lang::collections::value_stack::ValueStack;
use cao_lang::prelude::Value;

/// popping an empty value stack yields nil - also when it was emptied by pop_n / clear_until
#[test]
fn pop_on_a_stack_emptied_by_pop_n_is_nil() {
    let mut s = ValueStack::new(4);
    s.push(Value::Integer(1)).unwrap();
    let [a] = s.pop_n::<1>();
    assert_eq!(a, Value::Integer(1));
    assert!(s.is_empty());
    assert_eq!(s.pop(), Value::Nil);
}

#[test]
fn pop_on_a_stack_emptied_by_clear_until_is_nil() {
    let mut s = ValueStack::new(4);
    s.push(Value::Integer(7)).unwrap();
    s.push(Value::Integer(8)).unwrap();
    s.clear_until(0);
    assert!(s.is_empty());
    assert_eq!(s.pop(), Value::Nil);
}
