use cao_lang::prelude::*;
use cao_lang::compiler::{Card, CaoProgram, Function};

/// a run that ends in a value-stack overflow at a FunctionPointer leaves the VM usable: clear() must not crash
#[test]
fn clear_after_stack_overflow_at_function_pointer() {
    let cu = CaoProgram {
        imports: Default::default(),
        submodules: Default::default(),
        functions: [
            ("rec".into(), Function::default().with_arg("a").with_card(Card::call_function("rec", vec![Card::read_var("a")]))),
            ("main".into(), Function::default().with_card(Card::call_function("rec", vec![Card::scalar_int(1)]))),
        ].into(),
    };
    let program = compile(cu, None).expect("compile");
    let mut vm = Vm::new(()).unwrap().with_max_iter(1_000_000);
    let res = vm.run(&program);
    println!("{:?}", res.as_ref().map_err(|e| &e.payload));
    assert!(res.is_err());
    vm.clear();
    // and the VM still works
    let res = vm.run(&program);
    assert!(res.is_err());
}
