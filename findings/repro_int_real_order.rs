//! C19: integers and reals are ordered by numeric value, the two kinds mixing freely - also beyond 2^53, where an i64
//! converted to f64 is rounded.
use cao_lang::prelude::*;
use std::cmp::Ordering;

#[test]
fn integers_and_reals_are_ordered_by_their_numeric_value() {
    let big = (1i64 << 53) + 1; // 9007199254740993, not representable as f64
    let r = (1u64 << 53) as f64; // 9007199254740992.0
    assert_eq!(Value::Integer(big).partial_cmp(&Value::Real(r)), Some(Ordering::Greater));
    assert_eq!(Value::Real(r).partial_cmp(&Value::Integer(big)), Some(Ordering::Less));
    assert!(Value::Real(r) < Value::Integer(big));
    // transitivity across the kinds: 2^53 (int) < 2^53+1 (int), 2^53 (real) == 2^53 (int)
    assert_eq!(Value::Integer(1 << 53).partial_cmp(&Value::Real(r)), Some(Ordering::Equal));
    // the extremes
    assert_eq!(Value::Integer(i64::MAX).partial_cmp(&Value::Real(9.223372036854775807e18)), Some(Ordering::Less));
    assert_eq!(Value::Integer(i64::MIN).partial_cmp(&Value::Real(-9.223372036854775808e18)), Some(Ordering::Equal));
    assert_eq!(Value::Integer(i64::MAX).partial_cmp(&Value::Real(f64::INFINITY)), Some(Ordering::Less));
    assert_eq!(Value::Integer(i64::MIN).partial_cmp(&Value::Real(f64::NEG_INFINITY)), Some(Ordering::Greater));
    assert_eq!(Value::Integer(3).partial_cmp(&Value::Real(f64::NAN)), None);
    // fractions
    assert_eq!(Value::Integer(3).partial_cmp(&Value::Real(3.5)), Some(Ordering::Less));
    assert_eq!(Value::Integer(-3).partial_cmp(&Value::Real(-3.5)), Some(Ordering::Greater));
    assert_eq!(Value::Real(2.5).partial_cmp(&Value::Integer(3)), Some(Ordering::Less));
    // nil counts as 0
    assert_eq!(Value::Nil.partial_cmp(&Value::Real(0.5)), Some(Ordering::Less));
    assert_eq!(Value::Nil.partial_cmp(&Value::Real(0.0)), Some(Ordering::Equal));
}
