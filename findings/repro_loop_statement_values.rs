//! C01 / C06: the body of a loop is a statement. The values its cards leave behind (the result of a call nobody uses) are
//! dropped at the end of every iteration: the stack does not grow with the number of iterations, and the locals of the body
//! are on top when their scope ends (so a captured one is closed, not a leftover value popped in its place).
use cao_lang::compiler::{Card, CardBody, ForEach, Function, Module};
use cao_lang::prelude::*;

#[test]
fn a_loop_that_calls_a_function_as_a_statement_does_not_overflow_the_stack() {
    let m = Module {
        functions: vec![
            (
                "main".to_string(),
                Function::default().with_cards(vec![
                    Card::repeat(
                        Card::scalar_int(5000),
                        None,
                        Card::composite_card("body", vec![Card::call_function("noop", vec![])]),
                    ),
                    Card::set_global_var("g", Card::scalar_int(1)),
                ]),
            ),
            ("noop".to_string(), Function::default()),
        ],
        ..Default::default()
    };
    let p = compile(m, None).expect("compile");
    let mut vm = Vm::new(()).unwrap().with_max_iter(10_000_000);
    vm.run(&p).expect("run");
    assert_eq!(vm.read_var_by_name("g", &p.variables), Some(Value::Integer(1)));
}

/// closures created in a for-each body capture that iteration's variable, also when the body ends with a statement that leaves its value behind
#[test]
fn closures_of_different_iterations_do_not_share_a_variable() {
    let body = Card::composite_card(
        "body",
        vec![
            Card::set_var("mine", Card::read_var("v")),
            CardBody::AppendTable(cao_lang::compiler::BinaryExpression::new([
                CardBody::Closure(Box::new(
                    Function::default().with_card(Card::return_card(Card::read_var("mine"))),
                ))
                .into(),
                Card::read_var("callbacks"),
            ]))
            .into(),
            // a statement whose value nobody uses: it lies above `mine` when the body's scope ends
            Card::call_function("noop", vec![]),
        ],
    );
    let m = Module {
        functions: vec![
            (
                "main".to_string(),
                Function::default().with_cards(vec![
                    Card::set_var("callbacks", CardBody::CreateTable),
                    Card::set_var(
                        "t",
                        CardBody::Array(vec![
                            Card::scalar_int(10),
                            Card::scalar_int(20),
                            Card::scalar_int(30),
                        ]),
                    ),
                    CardBody::ForEach(Box::new(ForEach {
                        i: None,
                        k: None,
                        v: Some("v".to_string()),
                        iterable: Box::new(Card::read_var("t")),
                        body: Box::new(body),
                    }))
                    .into(),
                    Card::set_global_var(
                        "g0",
                        Card::dynamic_call(
                            Card::get_property(Card::read_var("callbacks"), Card::scalar_int(0)),
                            vec![],
                        ),
                    ),
                    Card::set_global_var(
                        "g2",
                        Card::dynamic_call(
                            Card::get_property(Card::read_var("callbacks"), Card::scalar_int(2)),
                            vec![],
                        ),
                    ),
                ]),
            ),
            ("noop".to_string(), Function::default()),
        ],
        ..Default::default()
    };
    let p = compile(m, None).expect("compile");
    let mut vm = Vm::new(()).unwrap();
    vm.run(&p).expect("run");
    assert_eq!(vm.read_var_by_name("g0", &p.variables), Some(Value::Integer(10)));
    assert_eq!(vm.read_var_by_name("g2", &p.variables), Some(Value::Integer(30)));
}
