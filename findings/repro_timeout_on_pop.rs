use cao_lang::prelude::*;
use cao_lang::compiler::{Card, CaoProgram, Function};

/// every instruction executed inside `work` is attributed to a card of `work` when the budget runs out on it
#[test]
fn timeout_inside_a_function_is_located_inside_it() {
    let work = Function::default().with_card(Card::repeat(
        Card::scalar_int(3),
        Some("i".to_string()),
        Card::composite_card("body", vec![
            Card::set_var("a", Card::scalar_int(1)),
            Card::set_var("b", Card::scalar_int(2)),
        ]),
    ));
    let main = Function::default().with_card(Card::call_function("work", vec![]));
    let cu = CaoProgram { imports: Default::default(), submodules: Default::default(),
        functions: [("main".into(), main), ("work".into(), work)].into() };
    let program = compile(cu, None).expect("compile");
    let mut inside = false;
    let mut seq = Vec::new();
    for budget in 1..200 {
        let mut vm = Vm::new(()).unwrap().with_max_iter(budget);
        match vm.run(&program) {
            Ok(()) => break,
            Err(e) => {
                assert!(matches!(e.payload, ExecutionErrorPayload::Timeout));
                let f = e.trace.first().map(|t| t.index.function);
                seq.push((budget, f, e.trace.len()));
                if f == Some(1) { inside = true; }
                else if inside && e.trace.len() < 3 {
                    // we are still inside `work` (later budgets are located in it again) but trace[0] is missing
                    let later_inside = (budget + 1..200).any(|b| {
                        let mut vm = Vm::new(()).unwrap().with_max_iter(b);
                        matches!(vm.run(&program), Err(e2) if e2.trace.first().map(|t| t.index.function) == Some(1))
                    });
                    assert!(!later_inside, "budget {budget}: timeout inside `work` has no entry for the failing instruction: {:?}", e.trace);
                }
            }
        }
    }
    assert!(inside, "{seq:?}");
}
