use cao_lang::prelude::*;
use cao_lang::compiler::{Card, CaoProgram, Function, CardBody, UnaryExpression};

fn run(main: Function) -> (Vm<'static, ()>, CaoCompiledProgram) {
    let cu = CaoProgram { imports: Default::default(), submodules: Default::default(), functions: [("main".into(), main)].into() };
    let program = compile(cu, None).expect("compile");
    let mut vm = Vm::new(()).unwrap().with_max_iter(10_000);
    vm.run(&program).expect("run");
    (vm, program)
}

/// an Array card as the second operand of a binary operator: 1 + len([7, 8]) = 3
#[test]
fn array_as_second_operand() {
    let main = Function::default().with_card(Card::set_global_var(
        "g",
        CardBody::Add(Box::new([
            Card::scalar_int(1),
            Card::from(CardBody::Len(UnaryExpression::new(Card::from(CardBody::Array(vec![Card::scalar_int(7), Card::scalar_int(8)]))))),
        ])),
    ));
    let (vm, p) = run(main);
    assert_eq!(vm.read_var_by_name("g", &p.variables), Some(Value::Integer(3)));
}
