use std::panic::{catch_unwind, AssertUnwindSafe};
use cao_lang::prelude::*;
use cao_lang::compiler::{Card, CaoProgram, Function, CardBody};

/// too many `super.` in an import is a compile error, not a panic
#[test]
fn too_many_supers_is_a_compile_error() {
    let cu = CaoProgram {
        imports: ["super.super.super.foo".to_string()].into(),
        submodules: Default::default(),
        functions: [("main".into(), Function::default().with_card(Card::call_function("foo", vec![])))].into(),
    };
    let res = catch_unwind(AssertUnwindSafe(|| compile(cu, None)));
    assert!(res.is_ok(), "compile panicked");
    assert!(res.unwrap().is_err());
}

