//! C04: running a compiled program returns Ok or Err, it never panics.
use cao_lang::compiler::{Card, CardBody, Function, Module};
use cao_lang::prelude::*;
use std::panic::{catch_unwind, AssertUnwindSafe};

/// `f` takes three parameters and is called with none: its Return truncates the caller's locals. A closure that then
/// captures one of them must be an error, not an out-of-bounds index.
#[test]
fn capture_of_a_local_that_is_no_longer_on_the_stack_is_an_error() {
    let closure = CardBody::Closure(Box::new(Function::default().with_card(Card::read_var("z"))));
    let m = Module {
        functions: vec![
            (
                "main".to_string(),
                Function::default().with_cards(vec![
                    Card::set_var("x", Card::scalar_int(1)),
                    Card::set_var("y", Card::scalar_int(2)),
                    Card::set_var("z", Card::scalar_int(3)),
                    Card::call_function("f", vec![]),
                    closure.into(),
                ]),
            ),
            (
                "f".to_string(),
                Function::default()
                    .with_arg("a")
                    .with_arg("b")
                    .with_arg("c"),
            ),
        ],
        ..Default::default()
    };
    let p = compile(m, None).expect("compile");
    let r = catch_unwind(AssertUnwindSafe(|| {
        let mut vm = Vm::new(()).unwrap().with_max_iter(10_000);
        vm.run(&p).map(|_| ()).map_err(|e| e.to_string())
    }));
    assert!(r.is_ok(), "the VM panicked");
}

/// NaN keys do not compare with anything; sorted must still be a total order for the sort routine (which panics when it
/// notices an inconsistent comparator). NaN rows go last, the others are ascending.
#[test]
fn sorting_a_table_with_nan_values_does_not_panic() {
    for n in [30usize, 100, 200] {
        let mut items: Vec<Card> = Vec::new();
        let mut x = 12345u64;
        for i in 0..n {
            x = x
                .wrapping_mul(6364136223846793005)
                .wrapping_add(1442695040888963407);
            if i % 3 == 0 {
                items.push(CardBody::ScalarFloat(f64::NAN).into());
            } else {
                items.push(CardBody::ScalarFloat((x >> 40) as f64).into());
            }
        }
        let m = Module {
            imports: vec!["std.sorted".to_string()],
            functions: vec![(
                "main".to_string(),
                Function::default().with_cards(vec![
                    Card::set_var("t", CardBody::Array(items)),
                    Card::set_global_var(
                        "g",
                        Card::call_function("sorted", vec![Card::read_var("t")]),
                    ),
                ]),
            )],
            ..Default::default()
        };
        let p = compile(m, None).expect("compile");
        let r = catch_unwind(AssertUnwindSafe(|| {
            let mut vm = Vm::new(()).unwrap().with_max_iter(1_000_000);
            vm.run(&p).map_err(|e| e.to_string())?;
            let g = vm.read_var_by_name("g", &p.variables).ok_or("g unset")?;
            let t = unsafe { g.as_table().ok_or("not a table")? };
            let vals: Vec<f64> = t.iter().map(|(_, v)| f64::try_from(*v).unwrap()).collect();
            Ok::<_, String>(vals)
        }));
        let vals = r.expect("the VM panicked").expect("run");
        assert_eq!(vals.len(), n);
        let firstnan = vals.iter().position(|v| v.is_nan()).unwrap();
        assert!(
            vals[firstnan..].iter().all(|v| v.is_nan()),
            "NaN rows are last"
        );
        assert!(
            vals[..firstnan].windows(2).all(|w| w[0] <= w[1]),
            "the rest is ascending"
        );
    }
}
