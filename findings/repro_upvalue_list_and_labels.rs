use cao_lang::prelude::*;
use cao_lang::compiler::{CardBody, Function, Card, CaoProgram};

fn get_int(vm: &Vm<()>, p: &CaoCompiledProgram, name: &str) -> Option<i64> {
    vm.read_var_by_name(name, &p.variables).and_then(|v| match v { Value::Integer(i) => Some(i), _ => None })
}

/// two locals a, b captured by two closures (a first): after the function returned both closures must still
/// read their variable
#[test]
fn upvalue_list_keeps_lower_slots() {
    let cu = CaoProgram {
        imports: Default::default(),
        submodules: Default::default(),
        functions: [
            (
                "mk".into(),
                Function::default()
                    .with_card(Card::set_var("a", Card::scalar_int(11)))
                    .with_card(Card::set_var("b", Card::scalar_int(22)))
                    .with_card(Card::set_global_var("g_ra", CardBody::Closure(Box::new(
                        Function::default().with_card(Card::set_global_var("g_a", Card::read_var("a")))))))
                    .with_card(Card::set_global_var("g_rb", CardBody::Closure(Box::new(
                        Function::default().with_card(Card::set_global_var("g_b", Card::read_var("b"))))))),
            ),
            (
                "noise".into(),
                Function::default()
                    .with_card(Card::set_var("x", Card::scalar_int(777)))
                    .with_card(Card::set_var("y", Card::scalar_int(888)))
                    .with_card(Card::set_var("z", Card::scalar_int(999))),
            ),
            (
                "main".into(),
                Function::default()
                    .with_card(Card::call_function("mk", vec![]))
                    .with_card(Card::call_function("noise", vec![]))
                    .with_card(Card::dynamic_call(Card::read_var("g_ra"), vec![]))
                    .with_card(Card::dynamic_call(Card::read_var("g_rb"), vec![])),
            ),
        ].into(),
    };
    let program = compile(cu, None).expect("compile");
    let mut vm = Vm::new(()).unwrap();
    vm.run(&program).expect("run");
    assert_eq!(get_int(&vm, &program, "g_b"), Some(22));
    assert_eq!(get_int(&vm, &program, "g_a"), Some(11));
}

/// closures at the same card position of two functions of the root module must not share a body
#[test]
fn closure_labels_root_functions() {
    let cu = CaoProgram {
        imports: Default::default(),
        submodules: Default::default(),
        functions: [
            (
                "f".into(),
                Function::default().with_card(Card::set_global_var("g_f", CardBody::Closure(Box::new(
                    Function::default().with_card(Card::set_global_var("g_res_f", Card::scalar_int(1))))))),
            ),
            (
                "g".into(),
                Function::default().with_card(Card::set_global_var("g_g", CardBody::Closure(Box::new(
                    Function::default().with_card(Card::set_global_var("g_res_g", Card::scalar_int(2))))))),
            ),
            (
                "main".into(),
                Function::default()
                    .with_card(Card::call_function("f", vec![]))
                    .with_card(Card::call_function("g", vec![]))
                    .with_card(Card::dynamic_call(Card::read_var("g_f"), vec![]))
                    .with_card(Card::dynamic_call(Card::read_var("g_g"), vec![])),
            ),
        ].into(),
    };
    let program = compile(cu, None).expect("compile");
    let mut vm = Vm::new(()).unwrap();
    vm.run(&program).expect("run");
    assert_eq!(get_int(&vm, &program, "g_res_f"), Some(1));
    assert_eq!(get_int(&vm, &program, "g_res_g"), Some(2));
}
