use cao_lang::{compiler::{Card, Module}, prelude::*};

fn body() -> Card {
    Card::composite_card("body", vec![Card::set_global_var("g", Card::scalar_int(1))])
}

fn sweep(ir: &Module, what: &str) {
    let prog = compile(ir.clone(), None).expect("compile");
    let mut seen = Vec::new();
    for budget in 1..80 {
        let mut vm = Vm::new(()).unwrap().with_max_iter(budget);
        if let Err(err) = vm.run(&prog) {
            assert!(matches!(err.payload, ExecutionErrorPayload::Timeout));
            let card = ir.get_card(&err.trace[0].index).expect("trace[0] resolves");
            assert!(
                !matches!(card.body, CardBody::CompositeCard(_)),
                "{what}: budget {budget}: timeout located at {} = the composite body (a composite emits no instruction)",
                err.trace[0].index
            );
            seen.push(card.name().to_string());
        }
    }
    assert!(seen.iter().any(|n| n == what), "{seen:?}");
}

#[test]
fn timeout_in_while_glue_is_located_at_the_while() {
    let main = Function::default()
        .with_card(CardBody::While(Box::new([Card::scalar_int(1), body()])));
    let ir = CaoProgram { imports: Default::default(), submodules: Default::default(), functions: [("main".into(), main)].into() };
    sweep(&ir, "While");
}

#[test]
fn timeout_in_if_true_glue_is_located_at_the_if() {
    let main = Function::default()
        .with_card(Card::repeat(Card::scalar_int(1000), None, Card::composite_card("outer", vec![
            CardBody::IfTrue(Box::new([Card::scalar_int(1), body()])).into(),
        ])));
    let ir = CaoProgram { imports: Default::default(), submodules: Default::default(), functions: [("main".into(), main)].into() };
    sweep(&ir, "IfTrue");
}
