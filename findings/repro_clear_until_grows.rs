//! C14: a stack never holds more values than its capacity. clear_until is a truncation, it must not raise the height.
use cao_lang::collections::value_stack::ValueStack;
use cao_lang::value::Value;

#[test]
fn clear_until_beyond_the_height_does_not_grow_the_stack() {
    let mut s = ValueStack::new(4);
    s.push(Value::Integer(1)).unwrap();
    s.clear_until(100);
    assert!(s.len() <= 4, "holds {} values in 4 slots", s.len());
    assert_eq!(s.len(), 1);
    // and the stack is still usable (pop used to index slot 99)
    assert_eq!(s.pop(), Value::Integer(1));
}
