//! C08: imports. `super.` walks up only as a leading path component; a module-prefix import through `super.` resolves.
use cao_lang::compiler::{Card, CardBody, Function, Module};
use cao_lang::prelude::*;

fn set_g(v: i64) -> Function {
    Function::default().with_card(Card::set_global_var("g_result", CardBody::ScalarInt(v)))
}

fn run(cu: Module) -> Result<i64, String> {
    let program = compile(cu, CompileOptions::new()).map_err(|e| format!("compile: {e}"))?;
    let mut vm = Vm::new(()).unwrap();
    vm.run(&program).map_err(|e| format!("run: {e}"))?;
    let v = vm
        .read_var_by_name("g_result", &program.variables)
        .ok_or("g_result not set")?;
    Ok(v.as_int().unwrap())
}

/// A module whose name merely ends in "super" is an ordinary module: `mysuper.foo` imported by `outer.m` is
/// `outer.m.mysuper.foo`, not `outer.foo`.
#[test]
fn module_named_like_super_is_not_super() {
    let mysuper = Module {
        imports: [].into(),
        submodules: [].into(),
        functions: [("foo".into(), set_g(1))].into(),
    };
    let m = Module {
        imports: ["mysuper.foo".into()].into(),
        submodules: [("mysuper".into(), mysuper)].into(),
        functions: [(
            "run".into(),
            Function::default().with_card(Card::call_function("foo", vec![])),
        )]
        .into(),
    };
    let outer = Module {
        imports: [].into(),
        submodules: [("m".into(), m)].into(),
        functions: [("foo".into(), set_g(2))].into(),
    };
    let cu = Module {
        imports: [].into(),
        submodules: [("outer".into(), outer)].into(),
        functions: [(
            "main".into(),
            Function::default().with_card(Card::call_function("outer.m.run", vec![])),
        )]
        .into(),
    };
    assert_eq!(run(cu), Ok(1));
}

/// `super.c` imported by `a.b` is the module `a.c`; `c.f` then designates `a.c.f`.
#[test]
fn module_prefix_import_through_super_resolves() {
    let c = Module {
        imports: [].into(),
        submodules: [].into(),
        functions: [("f".into(), set_g(7))].into(),
    };
    let b = Module {
        imports: ["super.c".into()].into(),
        submodules: [].into(),
        functions: [(
            "run".into(),
            Function::default().with_card(Card::call_function("c.f", vec![])),
        )]
        .into(),
    };
    let a = Module {
        imports: [].into(),
        submodules: [("b".into(), b), ("c".into(), c)].into(),
        functions: [].into(),
    };
    let cu = Module {
        imports: [].into(),
        submodules: [("a".into(), a)].into(),
        functions: [(
            "main".into(),
            Function::default().with_card(Card::call_function("a.b.run", vec![])),
        )]
        .into(),
    };
    assert_eq!(run(cu), Ok(7));
}
