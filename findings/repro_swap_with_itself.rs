use cao_lang::prelude::*;
use cao_lang::compiler::{Card, CaoProgram, Function};

/// swapping a card with itself is the identity
#[test]
fn swap_with_itself_is_identity() {
    let mut m = CaoProgram { imports: Default::default(), submodules: Default::default(),
        functions: [("main".into(), Function::default().with_card(Card::scalar_int(7)).with_card(Card::scalar_int(8)))].into() };
    let before = format!("{:?}", m);
    let idx = CardIndex::new(0, 1);
    m.swap_cards(&idx, &idx).expect("swap");
    assert_eq!(before, format!("{:?}", m));
    // an invalid index still fails
    let bad = CardIndex::new(0, 9);
    assert!(m.swap_cards(&bad, &bad).is_err());
    assert_eq!(before, format!("{:?}", m));
}
